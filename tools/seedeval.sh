#!/bin/sh
# tools/seedeval.sh <PROP> <A|B> [check props...]   — verify a seeded change from /tmp/seed_<PROP>/SEED_OUT/<X>
# (patch applies, suite still passes, demo fails with / passes without), store it under seeded/, run checks on it.
P=$1; X=$2; shift 2
SRC=/tmp/seed_$P/SEED_OUT/$X
DST=/verif/seeded/$P-$X
[ -f $SRC/patch.diff ] || { echo "no patch at $SRC"; exit 2; }
W=/tmp/seedeval_$$
git -C /repo worktree add -q --detach $W HEAD || exit 2
( cd $W && /venv/bin/python $SRC/demo.py >/tmp/seedeval_demo0.txt 2>&1 ); D0=$?
git -C $W apply $SRC/patch.diff || { echo "PATCH DOES NOT APPLY"; git -C /repo worktree remove --force $W; exit 2; }
( cd $W && /venv/bin/python $SRC/demo.py >/tmp/seedeval_demo1.txt 2>&1 ); D1=$?
python3 /verif/tools/baseline.py $W > /tmp/seedeval_base.txt 2>&1; B=$?
git -C /repo worktree remove --force $W
echo "$P-$X: demo without patch exit=$D0 (want 0), with patch exit=$D1 (want 1), baseline exit=$B (want 0): $(tail -1 /tmp/seedeval_base.txt)"
if [ $D0 -eq 0 ] && [ $D1 -ne 0 ] && [ $B -eq 0 ]; then
  mkdir -p $DST && cp $SRC/patch.diff $SRC/demo.py $SRC/meta.json $DST/
  echo "   confirmed; stored in $DST"
  [ $# -gt 0 ] && /verif/tools/mutcheck.sh $DST/patch.diff "$@"
else
  echo "   NOT CONFIRMED"
fi
