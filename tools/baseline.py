#!/usr/bin/env python3
"""Run the repository's pinned test suite (guard OFF) and compare the set of
passing tests with /root/.vp/BASELINE.json's stable_pass list.

usage: tools/baseline.py [repo_dir]     exit 0 iff every stable_pass test passes.
"""
import json, os, subprocess, sys, tempfile
import xml.etree.ElementTree as ET

repo = sys.argv[1] if len(sys.argv) > 1 else '/repo'
base = json.load(open('/root/.vp/BASELINE.json'))
want = set(base['stable_pass'])
with tempfile.TemporaryDirectory(prefix='epsie-baseline-') as td:
    xml = os.path.join(td, 'j.xml')
    env = dict(os.environ)
    env.pop('EPSIE_VERIF', None)
    cmd = ['/venv/bin/python', '-m', 'pytest', '-q', '-p', 'no:cacheprovider',
           '--timeout=900', '--continue-on-collection-errors', '-n', '12',
           '--junitxml=' + xml]
    p = subprocess.run(cmd, cwd=repo, env=env, stdout=subprocess.PIPE,
                       stderr=subprocess.STDOUT, text=True)
    passed = set()
    for tc in ET.parse(xml).getroot().iter('testcase'):
        bad = any(ch.tag in ('failure', 'error', 'skipped') for ch in tc)
        if not bad:
            passed.add('%s::%s' % (tc.get('classname'), tc.get('name')))
missing = sorted(want - passed)
print('stable_pass=%d passed_now=%d missing=%d' % (len(want), len(passed), len(missing)))
for m in missing[:40]:
    print('  NOT PASSING:', m)
sys.exit(1 if missing else 0)
