#!/usr/bin/env python3
"""Markdown table of the seeded changes under seeded/ and which checks caught them
(`python3 tools/seed_table.py > seeded/TABLE.md`)."""
import json, os, re, glob
HERE = os.path.dirname(os.path.dirname(os.path.abspath(__file__)))
rows = []
for d in sorted(glob.glob(os.path.join(HERE, 'seeded', 'C*-*'))):
    name = os.path.basename(d)
    try:
        meta = json.load(open(os.path.join(d, 'meta.json')))
    except Exception:
        meta = {}
    res, first, notes = {}, {}, {}
    rp = os.path.join(d, 'result.txt')
    if os.path.exists(rp):
        for line in open(rp):
            m = re.match(r'check (C\d+) \(([^)]*)\): (\w+)(.*)', line)
            if m:
                first.setdefault(m.group(1), m.group(3))
                res[m.group(1)] = m.group(3) + (' (no failing input)' if 'no-failing' in m.group(4) else '')   # last evaluation wins
                extra = re.search(r'\((after [^)]*)\)', m.group(4))
                if extra:
                    notes[m.group(1)] = extra.group(1)
    files = []
    pp = os.path.join(d, 'patch.diff')
    if os.path.exists(pp):
        files = sorted({m.group(1) for m in re.finditer(r'^\+\+\+ b/(\S+)', open(pp).read(), re.M)})
    summ = (meta.get('summary') or '').replace('|', '/').replace('\n', ' ')
    verdict = []
    for c, v in sorted(res.items()):
        t = '%s: %s' % (c, v)
        if first.get(c) == 'MISSED' and v.startswith('CAUGHT'):
            t += ' — first MISSED, ' + notes.get(c, 'check strengthened')
        verdict.append(t)
    rows.append('| %s | %s | %s | %s |' % (name, ', '.join(os.path.basename(f) for f in files), summ[:260] + ('…' if len(summ) > 260 else ''),
                                           '; '.join(verdict)))
print('# Seeded changes and the checks that report them\n')
print('Each directory `seeded/<id>/` holds `patch.diff` (against /repo HEAD), `demo.py` (exit 1 with the change, 0 without),\n'
      '`meta.json` (what was changed, what it needs to manifest) and `result.txt` (confirmation + verdicts).\n'
      'A/B come from the first round of independent sub-agents, C/D from the second. Verdicts: quick tier, seed 0.\n')
print('| id | file | change | verdict |\n|---|---|---|---|')
print('\n'.join(rows))
