#!/usr/bin/env python3
"""Markdown table of the seeded changes under seeded/ and which checks caught them."""
import json, os, re, glob
HERE = os.path.dirname(os.path.dirname(os.path.abspath(__file__)))
rows = []
for d in sorted(glob.glob(os.path.join(HERE, 'seeded', 'C*-*'))):
    name = os.path.basename(d)
    try:
        meta = json.load(open(os.path.join(d, 'meta.json')))
    except Exception:
        meta = {}
    res = {}
    rp = os.path.join(d, 'result.txt')
    if os.path.exists(rp):
        for line in open(rp):
            m = re.match(r'check (C\d+) \(([^)]*)\): (\w+)(.*)', line)
            if m:
                res[m.group(1)] = m.group(3) + (' (no failing input)' if 'no-failing' in m.group(4) else '')   # last evaluation wins
    summ = (meta.get('summary') or '').replace('|', '/').replace('\n', ' ')
    need = (meta.get('needs_to_manifest') or '').replace('|', '/').replace('\n', ' ')
    rows.append('| %s | %s | %s | %s |' % (name, summ[:230], need[:200], '; '.join('%s: %s' % kv for kv in sorted(res.items()))))
print('| id | change | needs to manifest | checks (quick tier, seed 0) |\n|---|---|---|---|')
print('\n'.join(rows))
