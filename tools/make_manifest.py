#!/usr/bin/env python3
"""Writes MANIFEST.json from the table below (kept next to the checks so the
claims stay in step with what exists)."""
import json, os
HERE = os.path.dirname(os.path.dirname(os.path.abspath(__file__)))

TB = ("Lean 4.33 kernel; axioms propext/Classical.choice/Quot.sound only; hand-written Lean model tied to /repo "
      "by the correspondence suite(s), generated tables and (where a Source module exists) definitions translated from the "
      "Python AST on every run (translator harness/gen_source.py, itself validated against the real methods by "
      "harness/source_corr.py) inside the check; numpy/scipy numerics enter as oracle values")

CLAIMS = {
 'C08': dict(
   technique='Lean 4 proof (invariants by induction over all operation sequences) + model/implementation correspondence + direct search',
   text='Theorems C08_len, C08_faithful, C08_accept_records_proposed, C08_reject_repeats_previous, C08_ar_unit, '
        'C08_access_paths_agree are proved in Lean for every reachable state of the chain/PT-chain model (any '
        'sequence of start/step/sweep/clear/growth/load, no length bound). The model is tied to the code by the '
        'plumbing correspondence (real Chain/PT/sampler objects vs the model through every access path) and a '
        'failing-input search re-evaluates the pure harness model at every recorded position on the real code.',
   design='3/C08', note=TB),
}

CLAIMS['C15'] = dict(
   technique='Lean 4 proof (decision logic stated outright + counter invariant by induction) + generated-table obligation + correspondence + direct search',
   text='C15_schedule characterises _call_jump exactly (iff), C15_counter proves the private counter equals the chain iteration '
        'over every operation sequence (clear, growth, swaps, resets, loads of counter-carrying states), C15_schedule_iterations(_adaptive) '
        'give the readable form, C15_nonjump_* show that a proposal that is not due keeps its parameters, contributes nothing to the '
        'Hastings term, is not adapted while its counter advances, C15_others_unaffected, C15_clear_invariant, C15_resume_invariant; '
        'EpsieProps/C15Table.lean re-proves by decide on tables regenerated from the source on every run that every class passes '
        'jump_interval through. Tied to the code by the plumbing correspondence (jump / density-query oracle entries appear exactly when '
        'the model says the proposal is due) and searched directly on the real code against the schedule stated in the property.',
   design='3/C15', note=TB)
CLAIMS['C18'] = dict(
   technique='Lean 4 proof (invariant/counting by induction over operation sequences) + correspondence (ordered oracle queue) + direct search',
   text='C18_start_one_call, C18_step_one_call, C18_others_no_call, C18_sweep_no_call, C18_iteration_calls and C18_run_count prove over the '
        'model that exactly one evaluation per level is made by start and by every iteration (plus the documented virtual evaluations of '
        'componentwise scaling, C18_no_extras says when there are none), that sweeps, clears, growth, loads and resets make none, and '
        'C18_recorded_from_that_call that accepted records carry that evaluation\'s outputs. The correspondence feeds the model one oracle '
        'entry per real evaluation in real order (missing/extra evaluation = DESYNC); a counting and stateful model is run on real samplers.',
   design='3/C18', note=TB)

CLAIMS['C09'] = dict(
   technique='Lean 4 proof (decision logic + loop invariant by induction + index arithmetic) + correspondence + direct search; one recorded finding',
   text='C09_due_iff/C09_schedule (sweep iff ntemps>1 and iteration % s = 0), C09_swap_index_is_permutation (every ladder, every decision path), '
        'C09_states_conserved / C09_iteration_conserves_states (the multiset of complete states is unchanged by every iteration, end to end from step), '
        'C09_whole_state_permuted (level t afterwards holds the complete St '
        'value of level swap_index[t]; acceptance record and earlier rows untouched), C09_reset_exactly_swapped, '
        'C09_colder_moves_up_at_most_one (loop invariant over every ladder length and decision path), C09_rows_stored_in_order (row index = '
        'number of earlier sweeps since the clear, for every swap interval and clear placement), C09_rows_view_partial / C09_rows_view_bounds and '
        'C09_pinned_counterexample (the views return len//s rows: exact only when the last clear fell on a multiple of s; recorded finding F6). '
        'Adjacent-exchange refinement is C03. Tied by the plumbing correspondence on PT configurations; searched with a before/after capture of '
        'every real swap_temperatures().',
   design='3/C09', note=TB + '; known finding listed in known_findings.txt (key rows-view-short-after-offmultiple-clear)')
CLAIMS['C06'] = dict(
   technique='Lean 4 proof (simulation relation preserved by every operation, induction over arbitrary operation sequences) + correspondence + direct search; one recorded finding',
   text='C06_partition_and_clear_transparent: for EVERY sequence of iterations, clears and run-boundary scratch growth, the state reached is '
        'PSfx-related to the state reached by the bare iterations (same iteration, current position/stats/blob, proposed point, proposal '
        'counters and adaptive events, ladder; retained records are a suffix). Corollaries C06_counters_and_current, '
        'C06_retained_history_is_suffix, C06_run_split, C06_clear_leaves(_pt) (after a clear: nothing retained, iteration kept, start = the point the chain stands on). Tied by the plumbing correspondence; real samplers with all compositions of small n and '
        'all clear subsets are compared bit for bit with one uninterrupted run.',
   design='3/C06', note=TB + '; known finding (same root cause as C09/F6) listed in known_findings.txt')
CLAIMS['C17'] = dict(
   technique='Lean 4 proof (invariant by induction over operation sequences; order lemma over Q with Mathlib) + correspondence + direct search',
   text='C17_sorted_in_range / C17_out_of_range_rejected (setter: permutation, sorted coldest to hottest, in [0,1], rejects otherwise), '
        'C17_coherent (levels.map beta = ladder array in every reachable state: steps, sweeps, annealer calls, clears, growth, loads), '
        'C17_loaded_ladder_is_saved (set_state: levels and ladder follow the state), C17_step_uses_level_beta, C17_endpoints_fixed, C17_order_preserved (annealer recursion with positive exp(S) keeps the ladder strictly '
        'decreasing). Tied by the PT plumbing correspondence with dynamic ladders (ladder array and every level beta dumped; recorded acceptance '
        'ratios recomputed with the level beta) and driver ops setbetas/anneal against the real setter/annealer.',
   design='3/C17', note=TB)

CLAIMS['C05'] = dict(
   technique='Lean 4 proof (bisimulation: simulation relation established by load-of-save and preserved by every continuation) + generated-table obligation + correspondence + every-cut resume search',
   text='C05_resume_level: a freshly constructed chain that loads the saved state is Sfx-related to the source (equal on every field a future '
        'step reads) given state-complete, well-formed proposals; C05_resume_bisim: for EVERY continuation (iterations, clears, run boundaries) '
        'the resumed PT/plain chain stays PSfx-related to the uninterrupted one and saves the same state; C05_resume_reachable: the hypotheses of '
        'the bisimulation hold in EVERY state reachable from construction (guarded lifting over operation sequences), so every reachable state resumes exactly; C05_resume_of_resume; '
        'C05_related_save_equal; C05_proposal_roundtrip; C05_incomplete_state_counterexample shows why completeness is needed. '
        'EpsieProps/C05Table.lean re-proves StateComplete by decide on tables measured on the live classes each run. The model has no generator: '
        'the bit-generator state travels as an opaque value inside the saved state (numpy trusted); bit-exactness of recomputed floats is '
        'searched on the real code (every cut, fresh sampler with another seed, pickled state, chains of two resumes).',
   design='3/C05', note=TB + '; numpy bit-generator state get/set trusted')
CLAIMS['C20'] = dict(
   technique='Lean 4 proof (algebraic round-trip/frame laws over a byte-array file model, induction over dump sequences) + correspondence against an in-memory h5py stand-in + direct search',
   text='27 theorems (C20_roundtrip, C20_dump_succeeds_iff, C20_overwrite, C20_fresh, C20_assign_exact, C20_tobytes_keeps_every_byte, '
        'C20_elementwise_read_drops_zero_bytes, C20_frame, C20_frame_datasets, C20_failed_dump_no_effect, C20_unlimited_preserved, '
        'C20_sequences, C20_sequences_total, C20_sequences_catching, C20_state_roundtrip, C20_checkpoint_roundtrip, C20_checkpoint_other_name, '
        'C20_stream_position_irrelevant, C20_stream_same_data, C20_stream_roundtrip, C20_stream_left_at_end, C20_bare_read_is_everything_iff, '
        'C20_stream_just_written, C20_dump_state_via_stream, C20_other_files_untouched, C20_file_as_if_alone, C20_world_projection) '
        'over EpsieModel/Checkpoint.lean, for all byte strings and all dump sequences. The real dump_state/load_state/checkpoint/'
        'set_state_from_checkpoint run against harness/h5stub.py (numpy-backed) and are compared with the model byte for byte.',
   design='3/C20', note=TB + '; h5py is not installable here: fidelity of harness/h5stub.py to h5py/HDF5 (S1 storage, resize) is assumed; CPython pickle trusted')

CLAIMS['C10'] = dict(
   technique='Lean 4 proof (well-formedness invariant by induction over all operation sequences) + scripted correspondence + direct search',
   text='Over EpsieModel/Transdim.lean: C10_jump_wf (WF x -> jump = ok y -> WF y incl. the proposed _state), C10_jump_wf_total, '
        'C10_choice_feasible / C10_choice_infeasible_beyond_K (kmax <= K is needed only for never-raises; the constructor does not check it), '
        'C10_reachable_wf (every record, start, current position with _active_props, proposed point and checkpoint, through starts, steps, '
        'sweeps with arbitrary swap_index, clears, saves, loads; no length bound), C10_reachable_step_total, C10_update_rule. Real '
        'NestedTransdimensional.jump / Chain.step with scripted draws are compared with the model; WF is asserted on every record, proposed '
        'point and _active_props of real MH/PT runs.',
   design='3/C10', note=TB + '; hypotheses the code does not check (0 <= kmin, kmax <= K, well-formed start values) are explicit; numpy choice(replace=False) trusted')
CLAIMS['C11'] = dict(
   technique='Lean 4 proof (binomial identity, ratio algebra, detailed balance/stationarity on finite spaces; Mathlib single modules) + scripted correspondence + exact pairwise detailed-balance search',
   text='C11_choose_identity, C11_ways_balance, C11_code_ratio (reported ratio = true ratio x C(x)/C(x\')), C11_hastings_applied / '
        'C11_hastings_skipped_when_symmetric, C11_acceptance, C11_reversible, C11_reversible_forced_reject, C11_stationary, C11_index_marginal. '
        'The search checks (f/C)(x) q(x\'|x) a(x,x\') = (f/C)(x\') q(x|x\') a(x\',x) on the real code for sampled pairs of every move type with q_true '
        'computed without any logpdf of the repo (index law by bisection on the real jump, births/in-model draws from the draw-site arguments, '
        '1/C by counting).',
   design='3/C11', note=TB + '; uniformity of numpy choice over subsets and the named numpy distributions trusted')

CLAIMS['C01'] = dict(
   technique='Lean 4 proof (Lebesgue volume of the acceptance event, algebraic ratio law, detailed balance and stationarity on arbitrary finite types; Mathlib single modules) + logged and scripted correspondence + exact-kernel search',
   text='15 theorems over EpsieModel/Chain.lean: C01_logspace_test / C01_model_test_is_code_test (the model\'s log-space test is the code\'s u <= exp(logar)), '
        'C01_accept_probability (volume of {u in [0,1) | accepted} = ar; 0 forced, 1 sure, exp l draw, min 1 (exp logar) for non-zero prior), '
        'C01_ar_formula(_exp), C01_zero_prior_rejected, C01_reject_keeps_state, C01_joint_hastings(_rat), C01_joint_jump_is_blockwise, '
        'C01_joint_flag_any_is_wrong, C01_model_acceptance_is_kernel, C01_detailed_balance, C01_kernel_stochastic, C01_stationary (any Fintype, any '
        'kernel q >= 0, prior holes, any beta). Tied by the logged plumbing correspondence plus scripted steps placing uniforms 1e-6 below/above '
        'exp(logar); searched with an acceptance oracle and exact transition matrices assembled from real steps on small lattices. That q is '
        'the jump law is C02.',
   design='3/C01', note=TB + '; Generator.uniform uniform on [0,1) and independent, numpy.exp monotone: trusted')
CLAIMS['C03'] = dict(
   technique='Lean 4 proof (refinement of the carry loop to sequential adjacent exchanges by induction; path probabilities; invariance on finite types) + scripted correspondence over all decision paths + exact sweep-kernel search',
   text='11 theorems over EpsieModel/Swap.lean: C03_sweep_refines_sequential, C03_sweep_eq_sequential_spec, C03_every_outcome_is_a_path, C03_pair_ratio '
        '(exp(pairLogAR) = (L_j/L_k)^(beta_k-beta_j) with the slots\' betas), C03_exchange_detailed_balance, C03_path_probability, '
        'C03_pair_event_is_model_decision, C03_path_event_follows_path, C03_sweep_kernel_is_path_sum, C03_sweep_kernel_stochastic, '
        'C03_sweep_invariant (pi K_sweep = pi on any finite type, any ladder length, hottest beta 0 allowed). The sweep kernel is defined by the '
        'total-probability recursion; that it is the push-forward of iid uniforms through the loop is proved in four pieces (pair volume, path box '
        'volume, path-sum expansion, event => path), not as one push-forward statement. All 2^(n-1) decision paths are scripted on the real code.',
   design='3/C03', note=TB + '; independent uniform draws trusted; ladder betas = level betas is C17, whole-state permutation is C09')
CLAIMS['C16'] = dict(
   technique='Lean 4 proof over an explicit alias (heap) model + table obligations by decide on facts measured on the live classes each run + partition correspondence + direct search',
   text='C16_snapshot_immutable(_spec), C16_separation, C16_no_coupling(_spec,_fine), C16_disciplined_of_table/_variants, C16_pinned_counterexample over '
        'EpsieModel/Alias.lean (fields hold heap locations; update/state/set_state/reset alias or copy per measured FieldSpec bits) for any number '
        'of samplers and any interleaving; EpsieProps/C16Table.lean re-proves CopyDiscipline / SnapshotIsValue and model soundness on tables '
        'regenerated from the source. Partial in that the tables are measured (is / numpy.shares_memory / bit-exact digests), not derived from '
        'CPython semantics. The sharing partition of real proposals under random interleavings is compared with the model\'s; snapshots are '
        're-digested after further running and co-loaded samplers are run in all interleavings.',
   design='3/C16', note=TB + '; CPython object identity measured, not modelled')
CLAIMS['C19'] = dict(
   technique='Lean 4 proof over the alias model and the proposal clock + table obligations by decide + correspondence + direct search',
   text='C19_reset_restores (+_spec, _with_loads, _from_invariant): after any interleaving of updates and any number of resets every adaptive '
        'attribute is back at its construction-time content and start_step = max(nsteps,1); C19_reset_always_succeeds; C19_window_restarts / '
        '_full / _same_as_fresh / _step0_as_fresh / _length; C19_non_adaptive_untouched(_chain), C19_non_adapted_never_written, C19_reset_complete; '
        'C19_reset_after_swap_exact / C19_no_reset_without_option over PTChain.applySwap; C19_pinned_counterexample; table obligations in '
        'EpsieProps/C19Table.lean. Real proposals/chains: steps and 0-4 resets interleaved, attributes vs construction values bit for bit, '
        'following trajectory vs a fresh proposal, PT samplers with reset_after_swap and a record of which levels were reset.',
   design='3/C19', note=TB + '; tables measured on the live classes')

CLAIMS['C04'] = dict(
   technique='Lean 4 proof over an object-graph model of sampler construction with an explicit environment adversary + table obligations by decide (tables and the code variant measured on the live code each run) + correspondence + subprocess search',
   text='C04_chain_owns_its_draw_sites, C04_chains_distinct, C04_env_independent (no observable depends on set iteration order, entropy or global RNG when a '
        'seed is given) for every code Variant with the hypotheses the proofs force; C04_pinned_counterexample_* witnesses for the variants with the '
        'defective flags; decide obligations tie the measured draw-site partition, the ast scan of unordered/entropy/global-RNG sites and the measured '
        'variant to the model. Partial: CPython hash randomisation, pickling and BLAS determinism are exercised by the subprocess search (digests under '
        'several PYTHONHASHSEED / global seeds / decoy objects), not proved; numpy spawn-key independence trusted.',
   design='3/C04', note=TB + '; numpy SeedSequence.spawn independence trusted')
CLAIMS['C07'] = dict(
   technique='Lean 4 proof over a pool model (serial / copying / permuted / chunked maps over a framed system) + table obligations by decide on the measured cross-chain object graph + correspondence + real pools',
   text='C07_pool_irrelevant(_runs), C07_named_pools_valid, C07_chain_local, C07_generated_no_shared_class_state (decide over the regenerated scan of mutated class-level state), C07_worker_class_state_irrelevant, C07_pinned_counterexample_class_state, C07_built_sampler_shares_only_the_annealer, C07_built_sampler_pool_irrelevant, '
        'pinned counterexamples, and decide obligations that the measured set of mutable objects reachable from two chains is what the model predicts '
        '(empty on the repaired tree). Partial: the theorem reduces independence to the absence of cross-chain mutable state, which is measured on the '
        'real objects each run; OS scheduling and pickling fidelity are exercised with multiprocessing pools (1..16 workers), deep-copying and '
        'permuted maps and start-position perturbations, not proved.',
   design='3/C07', note=TB + '; pool timeouts are exit 2')

CLAIMS['C12'] = dict(
   technique='Lean 4 proof (range/refusal invariants of fuel-bounded draw maps over Q for every fuel and draw stream; trigonometric/exp-log range lemmas over R with Mathlib) + scripted correspondence + grid search incl. extreme quantiles',
   text='38 theorems over EpsieModel/Domain.lean (incl. C12_rejection_streak_bounded/_bounded_discrete/_discrete/_angular/_eigen and C12_rejection_all_rejected_starves: a rejection loop returns the first conforming draw after a streak of any length and never a rejected value): C12_bounded_in_bounds(_discrete), C12_bounded_eigen_tolerance(_draws,_value), C12_outside_refuses(_discrete,_eigen), '
        'C12_inside_never_refuses, C12_discrete_integer, C12_integer_step_near_draw, C12_nonsuccessive_moves(_jump,_bounded: all draw streams), '
        'C12_angular_range(_real), C12_angular_jump_range_partial, C12_pyMod_cast, C12_vmf_w_range, C12_vmf_formula_agrees, C12_clip_range, '
        'C12_vmf_log1p_arg_partial, C12_rotation_keeps_unit_sphere(_partial), C12_rotation_maps_pole, C12_spherical_ranges(_model_partial), '
        'C12_solid_angle_jump_ranges_partial, C12_no_numpy_nan_in_range_partial, C12_pole_start_in_range_partial, C12_birth_support, C12_birth_lognormal_model. '
        'Partial where marked: IEEE effects (wrap returning exactly 2 pi, arccos/log rounding) enter as explicit hypotheses about the recorded numpy values; '
        'comparisons, floor/ceil/round/int are exact in the real code, so the bounded/discrete theorems describe its actual decisions. Real jump()/birth run '
        'with scripted draws (grid + extremes z=+-8.3, +-5e-324, 0; u=0, 2^-53, 1-2^-53), boundaries, cell edges, poles, scales 1e-12..1e+12 widths.',
   design='3/C12', note=TB + '; numpy range guarantees of arccos/arctan2/clip trusted; one recorded finding (bounded-eigenvector-corner-stall)')

CLAIMS['C02'] = dict(
   technique='Lean 4 proof (rejection-loop HasSum, cell pre-images and telescoping for every base CDF, cache-coherence invariant over all query/scale histories, algebraic symmetry/ratio laws; Mathlib single modules) + correspondence fed with scipy values + push-forward quadrature search',
   text='33 theorems over EpsieModel/Density.lean (C02_rejection_normalises, C02_step_cells, C02_discrete_cells_telescope, C02_normal_discrete_symmetric/_eq_true, '
        'C02_bounded_discrete_eq_true/_accept (successive off and on, every F), C02_cache_coherent(_from) + C02_shared_cache_counterexample, C02_normal(_full)_symmetric, '
        'C02_bounded_normal_accept_iff/_eq_true/_ratio, C02_angular_*, C02_vmf_symmetric/_cdf_inverse/_eq_true_partial, C02_rotmat_orthogonal/_maps_pole, '
        'C02_eigen_symmetric, C02_chord_distance, C02_bounded_eigen_ratio_partial, C02_bounded_eigen_band_counterexample, C02_birth_param_*, C02_symmetric_flags by '
        'decide on the regenerated families table). Partial: what scipy norm/truncnorm mean in terms of F and g, the monotone change of variables of the '
        'continuous families and rotation invariance of solid angle are definitions, not theorems; the BoundedEigenvector chord (ConvexHull) is not modelled. '
        'Real logpdf is compared with the model formula fed with scipy\'s values for the arguments the model asks for (cells, truncation points, per-parameter '
        'scales, cache hits/misses one for one); the real jump()/birth is pushed forward on quantile grids (N = 2e4 quick, up to 1e6 thorough) with explicit '
        'error bounds; two recorded findings on the BoundedEigenvector tolerance band.',
   design='3/C02', note=TB + '; scipy CDF/pdf values and numpy Generator laws trusted')
CLAIMS['C13'] = dict(
   technique='Lean 4 proof (gain positivity over R with rpow, per-update direction and whole-window monotonicity, freeze after the window for all later histories from the proposal clock) + correspondence with numpy gains as checked oracles + long forced-history search',
   text='C13_gain_pos_at / _veitch(_decay) / _exact_*, per-update direction theorems for Veitch, Sivia-Skilling, Andrieu-Thoms (global/componentwise), adaptive '
        'eigenvector and vMF, sustained one-sided histories, C13_window_exact, C13_no_update_without_jump, C13_one_update_per_clock_tick, '
        'C13_frozen_after_window(_jump_interval), C13_fixed_kernel, C13_own_history_only over EpsieModel/Adapt.lean wrapped around the clock of '
        'EpsieModel/Proposal.lean. Widening/narrowing for the Andrieu-Thoms and eigenvector families is a statement about the global factor lambda; the '
        'Sivia-Skilling family is exempt from the stop clause. All 16 adaptive classes are driven through forced histories (always accept / reject / '
        'alternating / random; start steps, jump intervals 1 and 3) and compared step by step with the model fed with numpy\'s gains (enclosure checked).',
   design='3/C13', note=TB + '; float gains have the sign and enclosure of the exact values (checked by the driver on every oracle value used)')
CLAIMS['C14'] = dict(
   technique='Lean 4 proof (exact-arithmetic admissibility invariants and bounds for all histories; retry-loop bound; negative results forced by the proofs) + correspondence + draws-per-jump search on flat/needle bounded targets; recorded findings',
   text='C14_retry_bound(_monotone,_scale), C14_accept_mass_le, C14_ss_bounded / _never_raises, C14_veitch_bounded / _gain_le / _pos (every width stays positive under every history) / _pos_step / _never_raises / _guard_per_parameter / _zero_width_excluded, C14_at_loglambda_bounded, '
        'C14_at_shape_admissible / _scale_admissible, C14_eig_cov_admissible, C14_vmf_kappa_pos / _logkappa_step and the vMF no-raise statements, '
        'C14_window_gain_ge, and the negative results C14_at_stall_exact / C14_at_stall_witness (log lambda >= 1.5 T^0.4 - 10/3 under always-accept). Partial: '
        'IEEE overflow enters only as an explicit representability predicate. Real runs on flat and sharply peaked bounded targets (beta in {0, 1e-3, 1}, '
        'adaptation durations 30..3e4, all adaptive classes, boundary starts) record scale attributes, exceptions and generator draws per jump; the '
        'uncapped Andrieu-Thoms scale on bounded domains and the bounded-eigenvector corner start are recorded findings.',
   design='3/C14', note=TB + '; Phi symmetric and concave on [0,inf) assumed for the retry bound; four recorded findings')

NOT_YET = {}

# Source ties (third session): kernels translated from the Python AST on every run (harness/gen_source.py ->
# lean/EpsieModel/Generated/Source.lean) and proved equal to the hand-written model for all arguments.
SOURCE_TIES = {
 'C01': 'EpsieProps/C01Source.lean: Chain._acceptance_ratio as translated = Chain.logAR/decision/accepted/ar, a uniform is consumed iff the decision is a draw; EpsieProps/C01SourceStep.lean: Chain.step as translated rejects a zero-prior proposal without consulting the acceptance routine and a rejected step re-records the current position, stats and blob; EpsieProps/C01SourceExt.lean: the same method translated over IEEE-extended values (EpsieModel/ExtLog.lean: -inf, +inf, nan) agrees with the rational kernel on finite inputs, never raises at beta = 0 whatever the likelihoods (vanishing likelihood accepted with the prior ratio), gives acceptance probability exactly 0 into a region of vanishing likelihood at beta > 0, and the pre-repair formula is nan there (pinned counterexample of repo fix 9ab5e82).',
 'C03': 'EpsieProps/C03Source.lean: the hot-to-cold loop of swap_temperatures as translated = Swap.loop/Swap.sweep for every ladder length and uniform stream (loop invariant); C03SourceSpec.lean: hence the translated loop computes the sequential adjacent-exchange specification; C03SourceExt.lean: the same loop translated over IEEE-extended values agrees with it on finite inputs, a state of vanishing likelihood at the hottest level of a strictly decreasing ladder is never swapped down (recorded ratio exactly 0, no nan, every uniform stream), and two vanishing likelihoods give a recorded nan without a swap (on record).',
 'C06': 'EpsieProps/C06Source.lean: Chain.clear and the scratch growth of BaseSampler.run as translated = Chain.clear / Chain.extendFor.',
 'C08': 'EpsieProps/C08SourceStep.lean: Chain.step as translated writes every scratch array exactly once at index len (blobs iff the chain has blobs) and an accepted step records the proposed point with the stats and blob of that evaluation; EpsieProps/C08Source.lean: BaseChain.__len__ and the index arithmetic / read set of Chain.__getitem__ as translated = Chain.len / Chain.getitem for every Python integer index.',
 'C09': 'EpsieProps/C09Source.lean + C09SourceApply.lean: sweep schedule, record and row indices, row count of the views, the row the annealer reads, and the apply block of swap_temperatures (one permutation for positions, stats, blobs, active sets; acceptance untouched; reset condition) as translated = the PTChain model; C09SourceSweep.lean: the translated sweep loop computes the sequential adjacent-exchange specification.',
 'C10': 'EpsieProps/C10Source.lean: NestedTransdimensional._jump as translated (request made to choice(): candidates and size; flipped active set; which components are born, killed, moved) = Transdim.jump / candidates / flip / bornSet / killedSet / movedSet.',
 'C11': 'EpsieProps/C11Source.lean: NestedTransdimensional._logpdf as translated (masked loops over the components) = Transdim.logqCode for all points and densities: index density + births iff dk > 0 + in-model densities of the components active on both sides, no term for the choice of components (the binomial factor of the true law is absent, as C11_code_ratio accounts for).',
 'C13': 'EpsieProps/C13Source.lean: the five _update methods as translated (window guards 1<=dk<T resp. 1<dk<T, scalar recursions) = PropSt.inWindow and the Adapt model formulas; direction lemmas proved directly on the translated code.',
 'C15': 'EpsieProps/C15Source.lean: BaseProposal.nsteps/_call_jump/update/jump/logpdf as translated = PropSt.nsteps/callJump/update and the copy / contribute-0 behaviour when not due.',
 'C17': 'EpsieProps/C17Source.lean: the ladder recursion of DynamicalAnnealer.__call__ as translated = Ladder.anneal; every intermediate level object is written with the ladder entry, end points untouched.',
 'C18': 'EpsieProps/C18Source.lean: Chain.step as translated makes exactly one model evaluation and one proposal update, writes each scratch array once at index len, forced reject / accept / reject records = Chain.stepRec.',
 'C19': 'EpsieProps/C19Source.lean: _reset_adaptation as translated sets start_step = max(nsteps, 1) = PropSt.reset, so a full window follows; EpsieProps/C19SourceApply.lean: the levels reset by the translated apply block of swap_temperatures are exactly those with swap_index[t] != t.',
}
import os as _os
for _pid, _t in SOURCE_TIES.items():
    _mods = [f for f in _os.listdir(_os.path.join(HERE, 'lean', 'EpsieProps')) if f.startswith(_pid + 'Source')]
    if _pid in CLAIMS and _mods:
        CLAIMS[_pid]['text'] += ' Source tie (model regenerated from the code on every run by harness/gen_source.py): ' + _t
        CLAIMS[_pid]['technique'] += ' + source translator (Python AST -> Lean definitions, tie theorems for all arguments re-checked on every run)'

def main():
    props = [json.loads(l)['id'] for l in open(os.path.join(HERE, 'properties.jsonl'))]
    checks = []
    for pid in props:
        if pid in CLAIMS:
            c = CLAIMS[pid]
            checks.append({
                'property_id': pid,
                'quick_cmd': './check %s --tier quick' % pid,
                'thorough_cmd': './check %s --tier thorough' % pid,
                'evidence_file': 'evidence/%s.json' % pid,
                'replay_cmd_template': './check %s --replay {path}' % pid,
                'engine': 'lean-model',
                'level_claimed': {'category': 'proof', 'text': c['text'], 'design_ref': c['design']},
                'level_note': c['note'],
                'technique': c['technique'],
            })
    na = [{'property_id': pid, 'reason': NOT_YET.get(pid, 'check not built yet in this round (the proof technique applies; see DESIGN.md section 3)')}
          for pid in props if pid not in CLAIMS]
    man = {
        'version': 1,
        'setup_cmd': '/venv/bin/python harness/gen_tables.py && /venv/bin/python harness/gen_source.py && cd lean && lake build',
        'hooks': {'guard': 'EPSIE_VERIF', 'enable': 'none needed: all instrumentation is installed from outside by the harness process (harness/instrument.py); the guard is unused by /repo',
                  'baseline_off_cmd': 'python3 tools/baseline.py', 'source_commits': [], 'add_only': True},
        'engines': [{'name': 'lean-model', 'path': 'lean/', 'serves_properties': sorted(CLAIMS),
                     'kind_free_text': 'Lean 4 model + theorems (lake build, #print axioms audit), Python harness driving the real epsie objects and the Lean driver through one line protocol'}],
        'checks': checks,
        'not_applicable': na,
        'notes': 'Exit codes: 0 held, 1 VIOLATION line printed, 2 infrastructure trouble. known_findings.txt lists recorded findings and fixed defects.',
    }
    json.dump(man, open(os.path.join(HERE, 'MANIFEST.json'), 'w'), indent=1)
    print('claimed', sorted(CLAIMS), 'not_applicable', len(na))

if __name__ == '__main__':
    main()
