#!/bin/sh
# tools/mutcheck.sh <patch-file | -R:<commit>> <prop> [<prop> ...]
# Applies a patch (or reverts a repo commit) in a scratch copy of /repo under /tmp, runs the
# given checks against it with a private Lean build dir, prints their verdicts, cleans up.
set -u
PATCH="$1"; shift
W=/tmp/mutcheck_$$
mkdir -p $W
git -C /repo worktree add -q --detach $W/repo HEAD || exit 2
case "$PATCH" in
  -R:*) git -C $W/repo revert --no-commit "${PATCH#-R:}" >/dev/null 2>&1 || { echo "revert failed"; git -C /repo worktree remove --force $W/repo; rm -rf $W; exit 2; } ;;
  *) git -C $W/repo apply "$PATCH" || { echo "patch does not apply"; git -C /repo worktree remove --force $W/repo; rm -rf $W; exit 2; } ;;
esac
ML=${MUT_LEAN:-/tmp/mut_lean}
mkdir -p $ML
rsync -a --delete --exclude .lake/verif.lock /verif/lean/ $ML/lean/
for P in "$@"; do
  echo "== $P on mutated tree"
  EPSIE_EVIDENCE_DIR=$W/evidence EPSIE_REPLAY_DIR=/tmp/mut_replays EPSIE_REPO=$W/repo EPSIE_LEAN_DIR=$ML/lean /verif/check $P --tier ${TIER:-quick} 2>&1 | grep -v "^  " | tail -4
  echo "   exit=$?"
done
git -C /repo worktree remove --force $W/repo
rm -rf $W
