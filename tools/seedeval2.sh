#!/bin/sh
# tools/seedeval2.sh <SRCDIR> <ID> [check props...]  — like seedeval.sh, for a seeded change delivered in
# <SRCDIR> (patch.diff, demo.py, meta.json); it is stored as seeded/<ID>/ once confirmed.
SRC=$1; ID=$2; shift 2
DST=/verif/seeded/$ID
[ -d $SRC ] || SRC=$DST
[ -f $SRC/patch.diff ] || { echo "no patch at $SRC"; exit 2; }
W=/tmp/seedeval_$$
git -C /repo worktree add -q --detach $W HEAD || exit 2
( cd $W && /venv/bin/python $SRC/demo.py >/tmp/seedeval_demo0_$$.txt 2>&1 ); D0=$?
git -C $W apply $SRC/patch.diff 2>/dev/null || git -C $W apply -3 $SRC/patch.diff 2>/dev/null || { echo "$ID: PATCH DOES NOT APPLY (needs a manual rebase)"; git -C /repo worktree remove --force $W; exit 2; }
git -C $W diff HEAD > /tmp/seedeval_patch_$$.diff
( cd $W && /venv/bin/python $SRC/demo.py >/tmp/seedeval_demo1_$$.txt 2>&1 ); D1=$?
python3 /verif/tools/baseline.py $W > /tmp/seedeval_base_$$.txt 2>&1; B=$?
git -C /repo worktree remove --force $W
echo "$ID: demo without patch exit=$D0 (want 0), with patch exit=$D1 (want 1), baseline exit=$B (want 0): $(tail -1 /tmp/seedeval_base_$$.txt)"
if [ $D0 -eq 0 ] && [ $D1 -ne 0 ] && [ $B -eq 0 ]; then
  mkdir -p $DST
  [ $SRC = $DST ] || cp $SRC/demo.py $SRC/meta.json $DST/
  cp /tmp/seedeval_patch_$$.diff $DST/patch.diff
  echo "confirmed on /repo $(git -C /repo log --format=%h -1): demo exit 0 without / $D1 with the patch; baseline missing=0" >> $DST/result.txt
  for C in "$@"; do
    OUT=$(MUT_LEAN=/tmp/mut_lean_$$ /verif/tools/mutcheck.sh $DST/patch.diff $C 2>&1)
    if echo "$OUT" | grep -q "^VIOLATION property=$C"; then V=CAUGHT; else V=MISSED; fi
    N=$(echo "$OUT" | grep -c "no-failing-input-found")
    echo "   check $C: $V $( [ $N -gt 0 ] && echo '(no-failing-input-found)')"
    echo "check $C (quick, seed ${VERIF_SEED:-0}): $V $( [ $N -gt 0 ] && echo '(no-failing-input-found)')" >> $DST/result.txt
  done
  rm -rf /tmp/mut_lean_$$
else
  echo "   NOT CONFIRMED"
  tail -5 /tmp/seedeval_demo0_$$.txt /tmp/seedeval_demo1_$$.txt
fi
rm -f /tmp/seedeval_*_$$.txt /tmp/seedeval_patch_$$.diff
