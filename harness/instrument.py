"""Instrumentation of the *real* epsie objects from outside (no hook in /repo):
class-level wrappers installed only inside a `with Recorder():` block log, in
the order the real code produces them, every value that the Lean model takes
as an oracle input (jump results, model evaluations, reported log-densities,
uniforms, annealed ladders), plus which `update` calls changed a proposal's
adaptive state.  The same module renders the canonical dump of a real sampler
that is compared line by line with the model's dump.
"""
import math
import pickle

import numpy

from common import frac, csv, log_exact

import epsie
from epsie import proposals as P
from epsie.proposals import base as pbase
from epsie.proposals.joint import JointProposal
from epsie.proposals.nested_transdimensional import NestedTransdimensional
from epsie.chain.chain import Chain
from epsie.chain.ptchain import ParallelTemperedChain, DynamicalAnnealer
from epsie.proposals.normal import (AdaptiveSupport, SSAdaptiveSupport, ATAdaptiveSupport)
from epsie.proposals.eigenvector import AdaptiveEigenvectorSupport
from epsie.proposals.solid_angle import AdaptiveIsotropicSolidAngleSupport
from epsie.proposals.base import BaseAdaptiveSupport

_IGNORED_ATTRS = {'_bit_generator', '_nsteps', '_proposal', '_cdfcache', '_cachedstd',
                  '_cache', '_ind', '_dx', 'birth_distribution', 'active',
                  '_start_step', 'transdimensional'}


def adaptive_digest(prop):
    """Bit-exact digest of everything that defines the proposal *distribution*."""
    items = []
    for k in sorted(prop.__dict__):
        if k in _IGNORED_ATTRS:
            continue
        v = prop.__dict__[k]
        if isinstance(v, numpy.ndarray):
            v = (v.dtype.str, v.shape, v.tobytes())
        elif isinstance(v, (float, numpy.floating)):
            v = float(v).hex()
        elif isinstance(v, dict):
            v = repr(sorted((str(a), repr(b)) for a, b in v.items()))
        else:
            v = repr(v)
        items.append((k, v))
    return repr(items)


class _GenProxy:
    """Wraps a numpy Generator; logs uniforms drawn outside a proposal's jump."""

    def __init__(self, gen, rec):
        self._g = gen
        self._r = rec

    def uniform(self, *a, **k):
        v = self._g.uniform(*a, **k)
        r = self._r
        if r.in_jump == 0 and not a and not k:
            r.log.append(('W' if r.in_sweep else 'U', float(v)))
        return v

    def __getattr__(self, name):
        return getattr(self._g, name)


class Recorder:
    """Context manager installing the logging wrappers."""

    current = None

    def __init__(self):
        self.log = []           # ('J', prop, dict) ('E', kwargs, result) ('Q', prop, dir, val) ('U', u) ('W', u) ('B', betas)
        self.in_jump = 0
        self.in_sweep = False
        self.qpass = 0
        self.ar_args = (None, None)
        self.nev = {}           # id(prop) -> number of updates that changed its adaptive state
        self._saved = []

    # ---- patching helpers
    def _patch(self, obj, name, new):
        self._saved.append((obj, name, obj.__dict__[name]))
        setattr(obj, name, new)

    def __enter__(self):
        rec = self
        Recorder.current = self

        orig_rg = pbase.BaseRandom.__dict__['random_generator']

        def random_generator(self_):
            return _GenProxy(orig_rg.fget(self_), rec)
        self._patch(pbase.BaseRandom, 'random_generator', property(random_generator))

        orig_jump = pbase.BaseProposal.__dict__['jump']

        def jump(self_, fromx):
            if isinstance(self_, (JointProposal, NestedTransdimensional)):
                return orig_jump(self_, fromx)
            if not self_._call_jump():
                return fromx
            rec.in_jump += 1
            try:
                out = self_._jump(fromx)
            finally:
                rec.in_jump -= 1
            rec.log.append(('J', self_, dict(out)))
            return out
        self._patch(pbase.BaseProposal, 'jump', jump)

        orig_logpdf = pbase.BaseProposal.__dict__['logpdf']

        def logpdf(self_, xi, givenx):
            if isinstance(self_, JointProposal):
                rec.qpass += 1
                return orig_logpdf(self_, xi, givenx)
            if isinstance(self_, NestedTransdimensional):
                return orig_logpdf(self_, xi, givenx)
            if not self_._call_jump():
                return 0.0
            v = self_._logpdf(xi, givenx)
            # direction by ARGUMENTS: q(current | proposed) is the reverse density; fall back to
            # the call order only when the points cannot be identified
            cur, prop = rec.ar_args
            if xi is cur and givenx is prop:
                direction = 'rev'
            elif xi is prop and givenx is cur:
                direction = 'fwd'
            else:
                direction = 'rev' if rec.qpass % 2 == 1 else 'fwd'
            rec.log.append(('Q', self_, direction, float(v)))
            return v
        self._patch(pbase.BaseProposal, 'logpdf', logpdf)

        orig_update = pbase.BaseProposal.__dict__['update']

        def update(self_, chain):
            if isinstance(self_, (JointProposal, NestedTransdimensional)):
                return orig_update(self_, chain)
            before = adaptive_digest(self_)
            r = orig_update(self_, chain)
            if adaptive_digest(self_) != before:
                rec.nev[id(self_)] = rec.nev.get(id(self_), 0) + 1
            return r
        self._patch(pbase.BaseProposal, 'update', update)

        orig_ar = Chain.__dict__['_acceptance_ratio']

        def _acceptance_ratio(self_, *a, **k):
            rec.qpass = 0
            # (logp, logl, proposal, current_logp, current_logl, current_pos)
            rec.ar_args = (a[5] if len(a) > 5 else k.get('current_pos'),
                           a[2] if len(a) > 2 else k.get('proposal'))
            return orig_ar(self_, *a, **k)
        self._patch(Chain, '_acceptance_ratio', _acceptance_ratio)

        orig_swap = ParallelTemperedChain.__dict__['swap_temperatures']

        def swap_temperatures(self_):
            rec.in_sweep = True
            try:
                return orig_swap(self_)
            finally:
                rec.in_sweep = False
        self._patch(ParallelTemperedChain, 'swap_temperatures', swap_temperatures)

        orig_ann = DynamicalAnnealer.__dict__['__call__']

        def ann_call(self_, chain):
            r = orig_ann(self_, chain)
            rec.log.append(('B', [float(b) for b in chain.betas]))
            return r
        self._patch(DynamicalAnnealer, '__call__', ann_call)

        orig_reset = BaseAdaptiveSupport.__dict__['_reset_adaptation']

        def _reset_adaptation(self_):
            r = orig_reset(self_)
            rec.nev[id(self_)] = 0
            return r
        self._patch(BaseAdaptiveSupport, '_reset_adaptation', _reset_adaptation)
        return self

    def __exit__(self, *exc):
        for obj, name, old in reversed(self._saved):
            setattr(obj, name, old)
        self._saved = []
        Recorder.current = None
        return False

    def take(self):
        out, self.log = self.log, []
        return out


class LoggedModel:
    """A user model whose outputs are exactly representable small dyadic numbers,
    so that the real float arithmetic of `logar` is exact.  Logs every call."""

    def __init__(self, params, kind='quad', blobs=False, box=None, ints=(), stateful=False, reuse_blob=False,
                 int_outputs=False):
        # int_outputs: integral log-likelihoods / log-priors are returned as Python ints (a model written
        # with max(logl, -40) or a table of integers does that): the recorded numbers must not depend on it
        self.int_outputs = int_outputs
        # reuse_blob: the model hands out ONE blob dictionary, refilled on every call (a legal way to
        # avoid allocations): whoever keeps the object instead of its values sees it change later
        self.reuse_blob = reuse_blob
        self._blob = {}
        self.params = tuple(params)
        self.kind = kind
        self.blobs = blobs
        self.box = box or {}
        self.ints = set(ints)
        self.stateful = stateful
        self.ncalls = 0

    def __call__(self, **kw):
        self.ncalls += 1
        rec = Recorder.current
        s = 0.0
        for i, p in enumerate(self.params):
            v = kw[p]
            if isinstance(v, float) and math.isnan(v):
                continue
            c = 0.25 * (i + 1)
            d = float(v) - c
            s += d * d * (1 + i)          # (a product overflows to inf; `**` would raise OverflowError)
        if self.kind == 'flat':
            logl = 0.0
        elif self.kind == 'needle':
            logl = -math.floor(min(s * 4096, 2 ** 40)) / 8.0
        else:
            logl = -math.floor(min(s * 8, 2 ** 40)) / 16.0
        logp = 0.0
        for p, (lo, hi) in self.box.items():
            v = kw[p]
            if isinstance(v, float) and math.isnan(v):
                continue
            if not (lo <= v <= hi):
                logp = -numpy.inf
        if logp == 0.0 and self.kind == 'slope':
            logp = -math.floor(abs(float(kw[self.params[0]])) * 4) / 8.0
        if self.int_outputs == 'float32':
            # single-precision values where they are exact (same numbers, another number type)
            if float(numpy.float32(logl)) == logl:
                logl = numpy.float32(logl)
            if logp != -numpy.inf and float(numpy.float32(logp)) == logp:
                logp = numpy.float32(logp)
        elif self.int_outputs:
            if logl == math.floor(logl) and abs(logl) < 2 ** 50:
                logl = int(logl)
            if logp != -numpy.inf and logp == math.floor(logp):
                logp = int(logp)
        if self.blobs:
            b0 = math.floor(float(kw[self.params[0]]) * 4) / 4.0 if not (
                isinstance(kw[self.params[0]], float) and math.isnan(kw[self.params[0]])) else -1.0
            blob = {'b0': b0, 'b1': float(self.ncalls) if self.stateful else float(logl) * 2}   # blob types never vary
            out = (logl, logp, blob)
        else:
            out = (logl, logp)
        if self.blobs and getattr(self, 'blob_order', False) and blob['b0'] > 0.5:
            # the blob dictionary lists its entries in another order for some points (values are paired
            # with their names, never with their position)
            blob = {'b1': blob['b1'], 'b0': blob['b0']}
            out = (logl, logp, blob)
        if rec is not None:
            rec.log.append(('E', dict(kw), out))
        if self.blobs and self.reuse_blob:
            self._blob.clear()
            self._blob.update(blob)
            return (logl, logp, self._blob)
        return out


# --------------------------------------------------------------------------
# per-instance translation of a real proposal into the model's PropCfg line
# --------------------------------------------------------------------------

def window_kind(prop):
    if isinstance(prop, SSAdaptiveSupport):
        return 'ss'
    if isinstance(prop, AdaptiveSupport):
        return 'veitch'
    if isinstance(prop, (ATAdaptiveSupport, AdaptiveEigenvectorSupport,
                         AdaptiveIsotropicSolidAngleSupport)):
        return 'at'
    return 'none'


def prop_line(prop, chain_params):
    adaptive = isinstance(prop, BaseAdaptiveSupport)
    st = prop.state
    k = prop.jump_interval
    dur = prop.jump_interval_duration if k != 1 else 0
    T = getattr(prop, 'adaptation_duration', None) or 0
    return ('prop p=%s sym=%d adp=%d k=%d dur=%d win=%s T=%d st=%d comp=%d sn=%d' % (
        ','.join(str(chain_params.index(p)) for p in prop.parameters),
        int(bool(prop.symmetric)), int(adaptive), k, dur or 0, window_kind(prop), int(T),
        int(getattr(prop, 'start_step', 1) or 1), int(bool(getattr(prop, '_iscomponentwise', False))),
        int('nsteps' in st)))


# --------------------------------------------------------------------------
# rendering of oracle entries and of the canonical dump
# --------------------------------------------------------------------------

def levels_of(chain):
    return chain.chains if isinstance(chain, ParallelTemperedChain) else [chain]


def render_oracle(entries, sampler):
    """Turn the recorder's log into `o ...` protocol lines."""
    index = {}
    for ch in sampler.chains:
        for lvl in levels_of(ch):
            for j, pr in enumerate(lvl.proposal_dist.proposals):
                index[id(pr)] = j
    params = list(sampler.parameters)
    out = []
    for e in entries:
        tag = e[0]
        if tag == 'J':
            pr, d = e[1], e[2]
            out.append('o J %d %s' % (index[id(pr)], csv(d[p] for p in pr.parameters)))
        elif tag == 'E':
            res = e[2]
            blob = '-'
            if len(res) == 3:
                blob = csv(res[2][k] for k in sorted(res[2]))
            out.append('o E %s %s %s' % (frac(res[0]), frac(res[1]), blob))
        elif tag == 'Q':
            out.append('o Q %d %s %s' % (index[id(e[1])], e[2], frac(e[3])))
        elif tag in ('U', 'W'):
            out.append('o %s %s' % (tag, frac(log_exact(e[1]))))
        elif tag == 'B':
            out.append('o B %s' % csv(e[1]))
    return out


def _st_text(params, pos, stats, blob):
    b = '-'
    if blob is not None:
        names = blob.dtype.names if hasattr(blob, 'dtype') and blob.dtype.names else list(blob.keys())
        b = csv(blob[k] for k in sorted(names))        # by NAME: the order of fields / keys carries no meaning
    return 'pos=%s logl=%s logp=%s blob=%s' % (
        csv(pos[p] for p in params), frac(stats['logl']), frac(stats['logp']), b)


def dump_real(sampler, rec, ncalls):
    """The canonical dump of a real sampler (same text as Driver.dump)."""
    params = list(sampler.parameters)
    out = ['sampler nchains=%d calls=%d' % (len(sampler.chains), ncalls)]
    for ci, ch in enumerate(sampler.chains):
        lv = levels_of(ch)
        ispt = isinstance(ch, ParallelTemperedChain)
        betas = [float(b) for b in ch.betas] if ispt else [float(ch.beta)]
        nrows = 0
        if ispt and ch.ntemps > 1:
            try:
                ts = ch.temperature_swaps
            except ValueError:      # "no data has been set yet": nothing was ever run
                ts = None
            nrows = ts.shape[1] if ts is not None and ts.ndim == 2 else 0
        out.append('chain %d it=%d lc=%d len=%d nrows=%d betas=%s' % (
            ci, ch.iteration, ch.lastclear, len(ch), nrows, csv(betas)))
        for t, l in enumerate(lv):
            prop = l._proposed_position
            ptxt = 'none' if prop is None else csv(prop[p] for p in params)
            out.append('level %d %d beta=%s it=%d lc=%d hasblobs=%d proposed=%s' % (
                ci, t, frac(float(l.beta)), l.iteration, l.lastclear, int(l.hasblobs), ptxt))
            n = len(l)
            if l.iteration > 0 and n > 0:
                pos, sts, acc = l.positions, l.stats, l.acceptance
                blobs = l.blobs
                for i in range(n):
                    out.append('rec %d %d %d %s ar=%s acc=%d' % (
                        ci, t, i, _st_text(params, pos[i], sts[i], None if blobs is None else blobs[i]),
                        frac(acc[i]['acceptance_ratio']), int(acc[i]['accepted'])))
            try:
                cp, cs = l.current_position, l.current_stats
                cb = l.current_blob
                out.append('cur %d %d %s' % (ci, t, _st_text(params, cp, cs, cb)))
            except ValueError:
                out.append('cur %d %d unset' % (ci, t))
            for j, pr in enumerate(l.proposal_dist.proposals):
                st = str(pr.start_step) if isinstance(pr, BaseAdaptiveSupport) else '-'
                # an update inside the window changes the distribution generically for the
                # Andrieu-Thoms style recursions (exact count); Veitch clips at zero and
                # Sivia-Skilling skips capped updates, so there the count is a lower bound
                rel = '=' if window_kind(pr) in ('at', 'none') else '<='
                out.append('prop %d %d %d raw=%d st=%s nev%s%d' % (
                    ci, t, j, pr._nsteps, st, rel, rec.nev.get(id(pr), 0)))
        if ispt and ch.ntemps > 1 and nrows > 0:
            ts, ta = ch.temperature_swaps, ch.temperature_acceptance
            for r in range(nrows):
                out.append('row %d %d idx=%s ars=%s' % (
                    ci, r, ','.join(str(int(x)) for x in ts[:, r]), csv(ta[:, r])))
    return out


def getitem_real(sampler, ci, t, i):
    params = list(sampler.parameters)
    l = levels_of(sampler.chains[ci])[t]
    try:
        it = l[i]
    except (IndexError, ZeroDivisionError, ValueError, TypeError):
        return 'get %d %d %d raise' % (ci, t, i)
    return 'get %d %d %d %s ar=%s acc=%d' % (
        ci, t, i, _st_text(params, it['positions'], it['stats'], it.get('blobs')),
        frac(it['acceptance']['acceptance_ratio']), int(it['acceptance']['accepted']))
