#!/venv/bin/python
"""Regenerate lean/EpsieModel/Generated/Tables.lean from /repo's current source.

Finite facts about the source that the general Lean theorems take as
hypotheses are *measured on the live classes* (introspection + short forced
histories + an ast scan) and written out as Lean data; the side conditions of
the theorems are then re-proved about the regenerated tables by `decide` in
EpsieProps/*.lean.  Deterministic: no wall-clock, no hash order.
"""
import ast
import copy
import os
import pickle
import random
import sys

sys.path.insert(0, os.path.dirname(os.path.abspath(__file__)))
import common  # noqa: E402  (puts /repo on sys.path)

import numpy  # noqa: E402

import families as F  # noqa: E402
import forcing  # noqa: E402
import instrument as I  # noqa: E402
from epsie.proposals.base import BaseAdaptiveSupport  # noqa: E402

OUT = os.path.join(common.LEAN_DIR, 'EpsieModel', 'Generated', 'Tables.lean')


def lbool(b):
    return 'true' if b else 'false'


def lstr(s):
    return '"' + str(s).replace('\\', '\\\\').replace('"', '\\"') + '"'


def llist(items):
    return '[' + ', '.join(items) + ']'


def _key_text(k):
    """Canonical text of a dictionary key (the repr of a frozenset depends on its history)."""
    if isinstance(k, (set, frozenset)):
        return 'frozenset(' + ','.join(sorted(repr(x) for x in k)) + ')'
    return repr(k)


def deep_digest(obj):
    """Structural, bit-exact digest of a state dictionary."""
    if isinstance(obj, dict):
        return ('d', tuple(sorted((_key_text(k), deep_digest(v)) for k, v in obj.items())))
    if isinstance(obj, (list, tuple)):
        return ('l', tuple(deep_digest(v) for v in obj))
    if isinstance(obj, numpy.ndarray):
        return ('a', obj.dtype.str, obj.shape, obj.tobytes())
    if isinstance(obj, (float, numpy.floating)):
        return ('f', float(obj).hex())
    return ('o', repr(obj))


def arrays_of(prop):
    return {k: v for k, v in prop.__dict__.items() if isinstance(v, numpy.ndarray)}


def measure_family(name):
    cls, kind, lo, hi = F.FAMILIES[name]
    row = {'name': name, 'known': True}
    rng = random.Random(17)
    ch, prop, model = forcing.make_chain(name, rng=rng, pattern='AAR', window=9, nparams=max(lo, 2) if hi >= 2 else lo)
    row['symmetric'] = bool(prop.symmetric)
    row['adaptive'] = isinstance(prop, BaseAdaptiveSupport)
    row['window'] = I.window_kind(prop)
    st0 = prop.state
    row['stateKeys'] = sorted(str(k) for k in st0)
    row['savesNsteps'] = 'nsteps' in st0
    row['savesStartStep'] = 'start_step' in st0
    # constructor passes a requested jump interval through
    try:
        # (a later start step must not lengthen the configured duration: it is measured from there)
        _, p3, _ = forcing.make_chain(name, rng=random.Random(3), jump_interval=3, window=9, start_step=3,
                                      nparams=max(lo, 2) if hi >= 2 else lo)
        row['passesJumpInterval'] = p3.jump_interval == 3 and p3.jump_interval_duration == 9
    except Exception:
        row['passesJumpInterval'] = False
    init_digest = I.adaptive_digest(prop)
    # drive a forced history inside the adaptation window
    ids_before = {k: (id(v), v.tobytes()) for k, v in arrays_of(prop).items()}
    inplace = set()
    for _ in range(5):
        ch.step()
        for k, v in arrays_of(prop).items():
            if k in ids_before and ids_before[k][0] == id(v) and ids_before[k][1] != v.tobytes():
                inplace.add(k)
        ids_before = {k: (id(v), v.tobytes()) for k, v in arrays_of(prop).items()}
    # snapshot
    snap = prop.state
    snap_digest = deep_digest(snap)
    live = set()
    for key, val in snap.items():
        if isinstance(val, numpy.ndarray):
            for k, v in arrays_of(prop).items():
                if numpy.shares_memory(val, v):
                    live.add(k)
    # resume into fresh instances (with and without serialisation)
    chB, propB, _ = forcing.make_chain(name, rng=random.Random(17), pattern='AAR', window=9,
                                       nparams=max(lo, 2) if hi >= 2 else lo, seed=99)
    chC, propC, _ = forcing.make_chain(name, rng=random.Random(17), pattern='AAR', window=9,
                                       nparams=max(lo, 2) if hi >= 2 else lo, seed=98)
    propB.set_state(pickle.loads(pickle.dumps(snap)))
    row['restoresNsteps'] = propB._nsteps == prop._nsteps
    row['digestRoundTrip'] = I.adaptive_digest(propB) == I.adaptive_digest(prop)
    propC.set_state(snap)      # same object, no serialisation
    aliased = set()
    for key, val in snap.items():
        if isinstance(val, numpy.ndarray):
            for k, v in arrays_of(propC).items():
                if numpy.shares_memory(val, v):
                    aliased.add(k)
    # keep running the source: does the snapshot change?
    for _ in range(4):
        ch.step()
    row['snapshotStable'] = deep_digest(snap) == snap_digest
    # run C (loaded from the snapshot object): does the snapshot / the source change?
    src_digest = I.adaptive_digest(prop)
    chC.set_state(dict(chain_id=0, iteration=ch.iteration, current_position=ch.current_position,
                       proposed_position=ch.proposed_position, current_stats=ch.current_stats,
                       hasblobs=False, current_blob=None,
                       proposal_dist={frozenset(propC.parameters): snap,
                                      'random_state': chC.random_state}))
    snap_digest2 = deep_digest(snap)
    chC.model.n = 1
    for _ in range(4):
        chC.step()
    row['loadDecoupled'] = (deep_digest(snap) == snap_digest2 and I.adaptive_digest(prop) == src_digest)
    row['buffers'] = [
        {'attr': k, 'inplace': k in inplace, 'liveInState': k in live, 'aliasedByLoad': k in aliased}
        for k in sorted(set(inplace) | live | aliased)]
    # reset
    row['resets'] = []
    row['resetRestores1'] = True
    row['resetRestores2'] = True
    row['resetStartStep'] = True
    if row['adaptive']:
        ipp = prop._initial_proposal_params or {}
        prop._reset_adaptation()
        row['resetRestores1'] = I.adaptive_digest(prop) == init_digest
        row['resetStartStep'] = prop.start_step == prop.nsteps
        aliased_reset = set()
        for k, v in ipp.items():
            cur = prop.__dict__.get(k)
            if isinstance(v, numpy.ndarray) and isinstance(cur, numpy.ndarray) and numpy.shares_memory(v, cur):
                aliased_reset.add(k)
        for _ in range(5):
            ch.step()
        prop._reset_adaptation()
        row['resetRestores2'] = I.adaptive_digest(prop) == init_digest
        row['resetStartStep'] = row['resetStartStep'] and prop.start_step == prop.nsteps
        row['resets'] = [{'attr': k, 'inplace': k in inplace, 'resetAliases': k in aliased_reset}
                         for k in sorted(ipp) if isinstance(ipp[k], numpy.ndarray)]
    return row


def family_lean(r):
    bufs = llist('{ attr := %s, inplace := %s, liveInState := %s, aliasedByLoad := %s }' % (
        lstr(b['attr']), lbool(b['inplace']), lbool(b['liveInState']), lbool(b['aliasedByLoad']))
        for b in r.get('buffers', []))
    rsts = llist('{ attr := %s, inplace := %s, resetAliases := %s }' % (
        lstr(b['attr']), lbool(b['inplace']), lbool(b['resetAliases'])) for b in r.get('resets', []))
    return ('  { name := %s, known := %s, symmetric := %s, adaptive := %s, window := .%s,\n'
            '    savesNsteps := %s, savesStartStep := %s, restoresNsteps := %s, passesJumpInterval := %s,\n'
            '    digestRoundTrip := %s, snapshotStable := %s, loadDecoupled := %s,\n'
            '    resetRestores1 := %s, resetRestores2 := %s, resetStartStep := %s,\n'
            '    buffers := %s,\n    resets := %s }' % (
                lstr(r['name']), lbool(r['known']), lbool(r.get('symmetric', False)),
                lbool(r.get('adaptive', False)), r.get('window', 'none'),
                lbool(r.get('savesNsteps', False)), lbool(r.get('savesStartStep', False)),
                lbool(r.get('restoresNsteps', False)), lbool(r.get('passesJumpInterval', False)),
                lbool(r.get('digestRoundTrip', False)), lbool(r.get('snapshotStable', False)),
                lbool(r.get('loadDecoupled', False)),
                lbool(r.get('resetRestores1', False)), lbool(r.get('resetRestores2', False)),
                lbool(r.get('resetStartStep', False)), bufs, rsts))


# --------------------------------------------------------------------------
# ast scan: places where the code can consult an unordered container, the
# entropy pool or a foreign random stream
# --------------------------------------------------------------------------

def scan_unordered():
    sites = []
    root = os.path.join(common.REPO, 'epsie')
    for dp, _, files in sorted(os.walk(root)):
        for f in sorted(files):
            if not f.endswith('.py'):
                continue
            path = os.path.join(dp, f)
            rel = os.path.relpath(path, common.REPO)
            try:
                tree = ast.parse(open(path).read())
            except SyntaxError:
                continue
            setvars = {}

            class V(ast.NodeVisitor):
                def __init__(self):
                    self.func = '<module>'

                def visit_FunctionDef(self, node):
                    old, self.func = self.func, node.name
                    local = {}
                    for n in ast.walk(node):
                        if isinstance(n, ast.Assign) and len(n.targets) == 1 and isinstance(n.targets[0], ast.Name):
                            if is_setexpr(n.value, local):
                                local[n.targets[0].id] = True
                    setvars[node.name] = local
                    for n in ast.walk(node):
                        # iteration over a set-valued expression / passing a set where order matters
                        if isinstance(n, (ast.For, ast.comprehension)):
                            it = n.iter
                            if is_setexpr(it, local):
                                sites.append((rel, node.name, n.lineno if hasattr(n, 'lineno') else it.lineno,
                                              'iterates-set'))
                        if isinstance(n, ast.Call):
                            fn = dotted(n.func)
                            if fn in ('hash', 'id') and in_control_flow(node, n):
                                sites.append((rel, node.name, n.lineno, 'uses-' + fn))
                            if fn and (fn.startswith('numpy.random.') or fn.startswith('random.')) and \
                                    fn not in ('numpy.random.Generator',):
                                sites.append((rel, node.name, n.lineno, 'global-rng:' + fn))
                            # a set handed to something that will order it (constructor of a proposal)
                            for a in list(n.args) + [k.value for k in n.keywords]:
                                if is_setexpr(a, local) and fn not in ('len', 'set', 'frozenset', 'sorted', 'any', 'all',
                                                                       'bool', 'isinstance', 'set.union'):
                                    sites.append((rel, node.name, n.lineno, 'passes-set-to:' + str(fn)))
                    self.generic_visit(node)
                    self.func = old

            V().visit(tree)
    return sorted(set(sites))


def dotted(n):
    if isinstance(n, ast.Name):
        return n.id
    if isinstance(n, ast.Attribute):
        b = dotted(n.value)
        return (b + '.' + n.attr) if b else None
    return None


def is_setexpr(e, local):
    if isinstance(e, (ast.Set, ast.SetComp)):
        return True
    if isinstance(e, ast.Call):
        fn = dotted(e.func)
        if fn in ('set', 'frozenset', 'set.union', 'set.intersection'):
            return True
    if isinstance(e, ast.BinOp) and isinstance(e.op, (ast.Sub, ast.BitOr, ast.BitAnd)):
        return is_setexpr(e.left, local) or is_setexpr(e.right, local)
    if isinstance(e, ast.Name) and local.get(e.id):
        return True
    return False


def in_control_flow(func, call):
    for n in ast.walk(func):
        if isinstance(n, (ast.If, ast.While)):
            for m in ast.walk(n.test):
                if m is call:
                    return True
    return False


# --------------------------------------------------------------------------

def main():
    rows = []
    exported = F.exported_proposal_classes()
    for name in sorted(exported):
        if name not in F.FAMILIES:
            rows.append({'name': name, 'known': False})
            continue
        try:
            with numpy.errstate(all='ignore'):
                rows.append(measure_family(name))
        except Exception as e:     # the probe itself failed: recorded, decided by the obligations
            rows.append({'name': name, 'known': True, 'probeError': repr(e)})
    sites = scan_unordered()
    out = ['-- GENERATED by harness/gen_tables.py from the current /repo source. Do not edit.',
           'import EpsieModel.Tables', 'namespace Epsie.Generated', '',
           'def families : List Family := [',
           ',\n'.join(family_lean(r) for r in rows), ']', '',
           'def probeErrors : List String := ' + llist(lstr(r['name'] + ': ' + r['probeError'])
                                                        for r in rows if 'probeError' in r), '',
           'def unorderedSites : List Site := ' + llist(
               '{ file := %s, func := %s, line := %d, kind := %s }' % (lstr(a), lstr(b), c, lstr(d))
               for a, b, c, d in sites), '',
           'end Epsie.Generated', '']
    text = '\n'.join(out)
    os.makedirs(os.path.dirname(OUT), exist_ok=True)
    old = open(OUT).read() if os.path.exists(OUT) else None
    if old != text:
        with open(OUT, 'w') as fh:
            fh.write(text)
    print('gen_tables: %d families, %d unordered sites, %s' % (
        len(rows), len(sites), 'unchanged' if old == text else 'rewritten'))


if __name__ == '__main__':
    main()
