"""Failing-input searches for C16 and C19 on the REAL code (no Lean model involved).

C16  a `state` object is a value
     * deep structural bit-exact digest of `sampler.state` / `chain.state` /
       `proposal.state` taken at arbitrary points of a run, re-digested after the
       sampler ran on (steps, clears, resets, further snapshots);
     * a source and k samplers set from ONE state object (no serialisation) are run
       in interleavings of short bursts; each participant's history and final
       state must equal, bit for bit, what it produces when it alone holds that
       state (the source: the same run with nobody set from it; a loaded sampler:
       set from a private deep copy, nothing else running).

C19  resetting restores the construction-time distribution, every time
     * real chains, steps and resets interleaved (0-4 resets, also back to back,
       before any step, and before the first completed proposal step of a proposal
       with a jump interval): a reset never raises; after each reset every distribution attribute is compared
       bit for bit with its construction-time value, `start_step == nsteps`, and
       the following trajectory with that of a freshly constructed proposal that
       is given the same clock, position and random stream;
     * proposals without adaptation, the chain's data and the random stream must
       not be touched by a reset;
     * parallel tempered samplers created with `reset_after_swap=True` must run, and
       the levels whose proposals were reset in a sweep (recorded by wrapping
       `swap_temperatures` / `_reset_adaptation` from outside) must be exactly
       the levels whose state the sweep exchanged.

Every oracle is an exact comparison of the code with itself under the property's
own statement: it cannot fire on code for which the property holds.  Every random
choice derives from the seed handed in.
"""
import copy
import itertools
import random
import traceback

import numpy

import common  # noqa: F401  (puts the repo on sys.path)
import families as F
import instrument as I
from epsie.chain import Chain
from epsie.chain.ptchain import ParallelTemperedChain
from epsie import proposals as P
from epsie.proposals.base import BaseAdaptiveSupport
from epsie.samplers import MetropolisHastingsSampler, ParallelTemperedSampler

IGNORED = set(I._IGNORED_ATTRS) | {'_initial_proposal_params'}
TWO_PI = F.TWO_PI


# --------------------------------------------------------------------------
# digests
# --------------------------------------------------------------------------

def leaf(v):
    if isinstance(v, numpy.ndarray):
        return ('a', v.dtype.str, v.shape, v.tobytes())
    if isinstance(v, numpy.generic):
        return ('g', v.dtype.str, v.tobytes())
    if isinstance(v, float):
        return ('f', v.hex())
    if isinstance(v, (int, bool, str, type(None))):
        return ('o', repr(v))
    if isinstance(v, (set, frozenset)):      # repr of a (frozen)set depends on its construction history
        return ('s', tuple(sorted(repr(x) for x in v)))
    return ('r', repr(v))


def keytext(k):
    """Canonical text of a dictionary key (a frozenset prints in an order that depends on how it
    was built, e.g. after unpickling)."""
    if isinstance(k, (set, frozenset)):
        return 'fs:' + ','.join(sorted(str(x) for x in k))
    if isinstance(k, tuple):
        return '(' + ', '.join(keytext(x) if isinstance(x, (set, frozenset, tuple)) else repr(x) for x in k) + \
            (',)' if len(k) == 1 else ')')
    return repr(k)


def flat(obj, path=(), out=None):
    """Deep structural digest: {path: bit-exact leaf}."""
    if out is None:
        out = {}
    if isinstance(obj, dict):
        out[path + ('<keys>',)] = tuple(sorted(keytext(k) for k in obj))
        for k, v in obj.items():
            flat(v, path + (keytext(k),), out)
    elif isinstance(obj, (list, tuple)):
        out[path + ('<len>',)] = len(obj)
        for i, v in enumerate(obj):
            flat(v, path + (str(i),), out)
    else:
        out[path] = leaf(obj)
    return out


def diff_paths(a, b):
    return sorted(p for p in set(a) | set(b) if a.get(p) != b.get(p))


def dist_attrs(prop):
    return {k: v for k, v in prop.__dict__.items() if k not in IGNORED}


def dist_digest(prop):
    """Everything that defines the proposal distribution, attribute by attribute."""
    out = {}
    for k, v in dist_attrs(prop).items():
        if isinstance(v, dict):
            out[k] = ('d', repr(sorted((keytext(a), repr(leaf(b))) for a, b in v.items())))
        else:
            out[k] = leaf(v)
    return out


def full_digest(prop):
    """Every attribute of a proposal (clock and caches too), for 'untouched' checks."""
    out = {}
    for k, v in prop.__dict__.items():
        if k in ('_bit_generator', '_proposal', '_initial_proposal_params'):
            continue
        out[k] = flat(v) if isinstance(v, (dict, list, tuple)) else leaf(v)
    return out


def owner_of(obj, name):
    for c in type(obj).__mro__:
        if name in c.__dict__:
            return c.__name__
    return type(obj).__name__


# --------------------------------------------------------------------------
# recipes: every exported family and the constructor variants that change which arrays exist
# --------------------------------------------------------------------------

class Recipe:
    def __init__(self, vname, family, kind, nparams, ctor=None):
        self.vname, self.family, self.kind, self.nparams, self.ctor = vname, family, kind, nparams, ctor

    def make(self, names, doms, rng, T, k=1, start_step=1):
        if self.ctor is None:
            return F.make(self.family, names, doms, rng, jump_interval=k, window=T, start_step=start_step)
        return self.ctor(names, doms, rng, T, k, start_step)


def _kw(k, T):
    return {} if k == 1 else {'jump_interval': k}


def recipes():
    out = {}
    for name in sorted(F.FAMILIES):
        cls, kind, lo, hi = F.FAMILIES[name]
        out[name] = Recipe(name, name, kind, max(lo, 2) if hi >= 2 else lo)
    cov = numpy.array([[0.30, 0.05], [0.05, 0.20]])
    extra = [
        ('at_adaptive_normal/full', 'at_adaptive_normal', 'real',
         lambda ps, d, r, T, k, s: P.ATAdaptiveNormal(ps, T, diagonal=False, start_step=s, **_kw(k, T))),
        ('at_adaptive_normal/diag', 'at_adaptive_normal', 'real',
         lambda ps, d, r, T, k, s: P.ATAdaptiveNormal(ps, T, diagonal=True, start_step=s, **_kw(k, T))),
        ('at_adaptive_normal/full+componentwise', 'at_adaptive_normal', 'real',
         lambda ps, d, r, T, k, s: P.ATAdaptiveNormal(ps, T, diagonal=False, componentwise=True, start_step=s,
                                                      **_kw(k, T))),
        ('at_adaptive_normal/diag+componentwise', 'at_adaptive_normal', 'real',
         lambda ps, d, r, T, k, s: P.ATAdaptiveNormal(ps, T, diagonal=True, componentwise=True, start_step=s,
                                                      **_kw(k, T))),
        ('at_adaptive_bounded_normal/componentwise', 'at_adaptive_bounded_normal', 'box',
         lambda ps, d, r, T, k, s: P.ATAdaptiveBoundedNormal(ps, {p: d[p] for p in ps}, T, componentwise=True,
                                                             start_step=s, **_kw(k, T))),
        ('at_adaptive_angular/componentwise', 'at_adaptive_angular', 'angle',
         lambda ps, d, r, T, k, s: P.ATAdaptiveAngular(ps, T, componentwise=True, start_step=s, **_kw(k, T))),
        ('ss_adaptive_normal/fullcov', 'ss_adaptive_normal', 'real',
         lambda ps, d, r, T, k, s: P.SSAdaptiveNormal(
             ps, cov=cov.copy(), **({} if k == 1 else {'jump_interval': k, 'jump_interval_duration': T}))),
    ]
    for vname, fam, kind, ctor in extra:
        if fam in F.FAMILIES:
            out[vname] = Recipe(vname, fam, kind, 2, ctor)
    # the optional constructor arguments at non-default values (user-supplied initial widths that are
    # not proportional to the prior widths, target rates, decay, maximum covariance, shuffle rates):
    # what a reset restores and what a state carries must be what THIS object was built with
    for name in sorted(F.FAMILIES):
        cls, kind, lo, hi = F.FAMILIES[name]
        n = max(lo, 2) if hi >= 2 else lo
        for oseed in (1, 2):
            if F.optional_kwargs(name, ['a'] * n, oseed):
                out['%s/optional-args-%d' % (name, oseed)] = Recipe(
                    '%s/optional-args-%d' % (name, oseed), name, kind, n,
                    (lambda fam_, os_: (lambda ps, d, r, T, k, s: F.make(fam_, ps, d, r, jump_interval=k, window=T,
                                                                         start_step=s, optional=os_)))(name, oseed))
    return out


RECIPES = recipes()
ADAPTIVE = sorted(v for v, r in RECIPES.items() if 'adaptive' in r.family)
NONADAPTIVE = sorted(v for v, r in RECIPES.items() if 'adaptive' not in r.family)


class PureModel:
    """A pure function of the position (shared freely between samplers)."""

    def __init__(self, names, kinds, doms):
        self.names = list(names)
        self.box = {}
        self.centre = {}
        self.width = {}
        for i, p in enumerate(self.names):
            kind, dom = kinds[p], doms[p]
            if kind in ('box', 'intbox'):
                lo, hi = dom
            elif kind == 'angle':
                lo, hi = 0.0, TWO_PI
            elif kind == 'sphere':
                lo, hi = -1.0, TWO_PI + 1.0
            else:
                lo, hi = -12.0, 12.0
            self.box[p] = (lo, hi)
            self.centre[p] = lo + (hi - lo) * (0.35 + 0.07 * (i % 4))
            self.width[p] = max((hi - lo) * 0.3, 0.5)

    def __call__(self, **kw):
        logl = 0.0
        for p in self.names:
            v = float(kw[p])
            lo, hi = self.box[p]
            if not (lo <= v <= hi):
                return 0.0, -numpy.inf
            logl -= 0.5 * ((v - self.centre[p]) / self.width[p]) ** 2
        return logl, 0.0


class Setup:
    """A JSON-able description of a sampler configuration."""

    def __init__(self, vnames, kind='mh', nchains=1, betas=(1.0,), swap_interval=1, T=7, k=1,
                 start_step=1, pseed=1):
        self.vnames = list(vnames)
        self.kind = kind
        self.nchains = nchains
        self.betas = [float(b) for b in betas]
        self.swap_interval = swap_interval
        self.T, self.k, self.start_step, self.pseed = T, k, start_step, pseed

    def describe(self):
        return dict(vnames=self.vnames, kind=self.kind, nchains=self.nchains, betas=self.betas,
                    swap_interval=self.swap_interval, T=self.T, k=self.k, start_step=self.start_step,
                    pseed=self.pseed)

    @staticmethod
    def from_description(d):
        return Setup(**d)

    def layout(self):
        """names, kinds, domains, per-proposal name lists (deterministic in pseed)."""
        rng = random.Random(self.pseed)
        names, kinds, doms, groups = [], {}, {}, []
        for gi, v in enumerate(self.vnames):
            r = RECIPES[v]
            g = ['%s%d' % (chr(ord('a') + gi), i) for i in range(r.nparams)]
            for i, p in enumerate(g):
                kinds[p] = r.kind
                doms[p] = F.domain_for(r.kind, rng, i)
            names += g
            groups.append(g)
        return names, kinds, doms, groups

    def proposals(self):
        names, kinds, doms, groups = self.layout()
        rng = random.Random(self.pseed * 7919 + 13)
        return [RECIPES[v].make(g, doms, rng, self.T, self.k, self.start_step)
                for v, g in zip(self.vnames, groups)]

    def model(self):
        names, kinds, doms, _ = self.layout()
        return PureModel(names, kinds, doms)

    def start(self, seed):
        names, kinds, doms, groups = self.layout()
        rng = random.Random(seed * 31 + 5)
        shape = (self.nchains,) if self.kind == 'mh' else (len(self.betas), self.nchains)
        out = {}
        for g in groups:
            for i, p in enumerate(g):
                n = int(numpy.prod(shape))
                vals = [F.start_value(kinds[p], doms[p], rng, i if kinds[p] == 'sphere' else 0) for _ in range(n)]
                out[p] = numpy.array(vals).reshape(shape)
        return out

    def sampler(self, seed, reset_after_swap=False, start=True):
        names = self.layout()[0]
        with numpy.errstate(all='ignore'):
            if self.kind == 'mh':
                s = MetropolisHastingsSampler(names, self.model(), self.nchains, proposals=self.proposals(), seed=seed)
            else:
                s = ParallelTemperedSampler(names, self.model(), self.nchains, numpy.array(self.betas),
                                            swap_interval=self.swap_interval, proposals=self.proposals(),
                                            reset_after_swap=reset_after_swap, seed=seed)
            if start:
                s.start_position = self.start(seed)
        return s


def levels_of(chain):
    return chain.chains if isinstance(chain, ParallelTemperedChain) else [chain]


def all_props(sampler):
    """(chain index, level index, proposal) for every constituent proposal."""
    for ci, ch in enumerate(sampler.chains):
        for t, lv in enumerate(levels_of(ch)):
            for pr in lv.proposal_dist.proposals:
                yield ci, t, pr


def run(sampler, n):
    with numpy.errstate(all='ignore'):
        sampler.run(n)


def history_digest(sampler):
    """Bit-exact digest of everything a sampler retains and of its state."""
    out = []
    for ch in sampler.chains:
        for lv in levels_of(ch):
            n = len(lv)
            out.append((lv.iteration, lv.lastclear,
                        lv.positions.tobytes() if n else b'', lv.stats.tobytes() if n else b'',
                        lv.acceptance.tobytes() if n else b''))
            for pr in lv.proposal_dist.proposals:
                out.append(tuple(sorted((k, repr(v)) for k, v in full_digest(pr).items())))
        out.append(repr(sorted(flat(ch.random_state).items())))
    try:
        out.append(tuple(sorted(flat(sampler.state).items())))
    except ValueError:
        out.append('state-unavailable')
    return out


def adaptive_total(sampler):
    return [sorted(dist_digest(pr).items()) for _, _, pr in all_props(sampler)]


# --------------------------------------------------------------------------
# C16 (a): a snapshot does not change
# --------------------------------------------------------------------------

def locate(sampler, path):
    """Owner class and key of the state entry at `path` of `sampler.state`."""
    fs = [p for p in path if p.startswith('fs:')]
    key = path[-1].strip("'") if path else '?'
    if fs:
        pars = set(fs[-1][3:].split(','))
        for _, _, pr in all_props(sampler):
            if set(pr.parameters) == pars:
                return owner_of(pr, 'state'), key
    return 'Chain', key


def c16_snapshot_case(setup, seed, sched):
    """sched: list of ('run', n) | ('snap', 'sampler'|'chain'|'prop') | ('clear',) | ('reset',).
    Returns (findings, info)."""
    findings = []
    s = setup.sampler(seed)
    snaps = []

    def take(which):
        try:
            if which == 'sampler':
                obj = s.state
            elif which == 'chain':
                obj = s.chains[0].state
            else:
                obj = {(ci, t, keytext(frozenset(pr.parameters))): pr.state for ci, t, pr in all_props(s)}
        except ValueError:
            return          # no state before the first step: the code says so
        snaps.append([which, obj, flat(obj), adaptive_total(s), s.chains[0].iteration])

    take('prop')
    for op in sched:
        if op[0] == 'run':
            run(s, op[1])
        elif op[0] == 'snap':
            take(op[1])
        elif op[0] == 'clear':
            s.clear()
        elif op[0] == 'reset':
            for ch in s.chains:
                for lv in levels_of(ch):
                    try:
                        lv.reset_proposals()
                    except ValueError:
                        pass          # a reset that raises is C19's matter
    nontrivial = 0
    end = adaptive_total(s)
    for which, obj, dg, adp, it in snaps:
        if adp != end:
            nontrivial += 1
        now = flat(obj)
        bad = diff_paths(dg, now)
        if not bad:
            continue
        owners = {}
        for p in bad:
            if which == 'prop':
                ident = eval(p[0])
                pr = [q for ci, t, q in all_props(s) if (ci, t, keytext(frozenset(q.parameters))) == ident][0]
                owner, key = owner_of(pr, 'state'), p[-1].strip("'")
            else:
                owner, key = locate(s, p)
            owners.setdefault(owner, []).append((key, p))
        for owner in sorted(owners):
            k = 'snapshot_changed:%s.state' % owner
            if any(f[0] == k for f in findings):
                continue
            entries = sorted(set(e for e, _ in owners[owner]))
            findings.append((
                k,
                'a %s state object taken at iteration %d changed while the sampler ran on: entries %s handed out by '
                '%s.state (%d leaves differ, first %s); families %s, %s sampler' % (
                    which, it, entries, owner, len(owners[owner]), '/'.join(owners[owner][0][1]),
                    ','.join(setup.vnames), setup.kind),
                dict(suite='c16-snapshot', setup=setup.describe(), seed=seed, sched=[list(o) for o in sched],
                     changed_paths=['/'.join(x) for _, x in owners[owner][:6]],
                     expected='the state object is bit-identical after further running',
                     observed='entries %s changed in place' % entries,
                     how_to_replay='./check C16 --replay <this file>')))
    return findings, dict(snapshots=len(snaps), nontrivial=nontrivial)


# --------------------------------------------------------------------------
# C16 (b): samplers set from one state object are not coupled
# --------------------------------------------------------------------------

def sharing(participants):
    """Array attributes shared between proposals of different participants (diagnostic)."""
    out = []
    props = [[pr for _, _, pr in all_props(p)] for p in participants]
    for i, j in itertools.combinations(range(len(participants)), 2):
        for a in props[i]:
            for b in props[j]:
                for ka, va in a.__dict__.items():
                    if not isinstance(va, numpy.ndarray) or ka in ('_lowerbnd', '_upperbnd', '_dims', '_deltas'):
                        continue
                    for kb, vb in b.__dict__.items():
                        if isinstance(vb, numpy.ndarray) and numpy.shares_memory(va, vb):
                            out.append((i, j, owner_of(b, 'set_state'), kb))
    return out


def _load(target, st, mode):
    if mode == 'chain':
        target.chains[0].set_state(st)
    else:
        target.set_state(st)


def _state(source, mode):
    return source.chains[0].state if mode == 'chain' else source.state


def c16_alone(setup, seed, k, n0, bursts, mode):
    """What each participant produces when it alone holds the state."""
    out = []
    s = setup.sampler(seed)
    run(s, n0)
    for b in bursts[0]:
        run(s, b)
    out.append(history_digest(s))
    for i in range(1, k + 1):
        s = setup.sampler(seed)
        run(s, n0)
        st = copy.deepcopy(_state(s, mode))
        del s
        t = setup.sampler(seed + 1000 * i)
        _load(t, st, mode)
        for b in bursts[i]:
            run(t, b)
        out.append(history_digest(t))
    return out


def c16_interleaved(setup, seed, k, n0, bursts, order, mode):
    s = setup.sampler(seed)
    run(s, n0)
    st = _state(s, mode)                      # ONE object
    parts = [s]
    for i in range(1, k + 1):
        t = setup.sampler(seed + 1000 * i)
        _load(t, st, mode)                    # no serialisation
        parts.append(t)
    share = sharing(parts)
    loaded = [adaptive_total(p) for p in parts]
    nxt = [0] * (k + 1)
    for idx in order:
        run(parts[idx], bursts[idx][nxt[idx]])
        nxt[idx] += 1
    moved = any(adaptive_total(p) != a for p, a in zip(parts, loaded))
    return [history_digest(p) for p in parts], share, moved


def orders(k, nb):
    """All interleavings of nb bursts for each of k+1 participants."""
    base = []
    for i in range(k + 1):
        base += [i] * nb
    return sorted(set(itertools.permutations(base)))


def c16_coupling_case(setup, seed, k, n0, bursts, order_list, mode='sampler'):
    findings = []
    alone = c16_alone(setup, seed, k, n0, bursts, mode)
    n = 0
    nontrivial = 0
    for order in order_list:
        n += 1
        got, share, moved = c16_interleaved(setup, seed, k, n0, bursts, order, mode)
        nontrivial += int(moved)
        bad = [i for i in range(k + 1) if got[i] != alone[i]]
        if not bad:
            continue
        if alone != c16_alone(setup, seed, k, n0, bursts, mode):
            return findings, dict(skipped='baseline not reproducible in-process (a C04 matter)', orders=n,
                                  nontrivial=nontrivial)
        owners = sorted(set(o for _, _, o, _ in share)) or ['?' + ','.join(setup.vnames)]
        for owner in owners:
            findings.append((
                'coupled_by_set_state:%s' % owner,
                'source + %d %ss set from ONE state object, bursts run in order %s: participant(s) %s did not evolve '
                'as when alone (arrays shared between participants after %s.set_state: %s); families %s, %s' % (
                    k, mode, list(order), bad, owner, sorted(set(a for _, _, o, a in share if o == owner)),
                    ','.join(setup.vnames), setup.kind),
                dict(suite='c16-coupling', setup=setup.describe(), seed=seed, k=k, n0=n0,
                     bursts=[list(b) for b in bursts], order=list(order), mode=mode,
                     expected='every participant bit-identical to its solo run',
                     observed='participants %s differ' % bad,
                     how_to_replay='./check C16 --replay <this file>')))
        break
    return findings, dict(orders=n, nontrivial=nontrivial)


# --------------------------------------------------------------------------
# C19 (a,b,c): resets on real chains
# --------------------------------------------------------------------------

def build_chain(setup, seed):
    names, kinds, doms, groups = setup.layout()
    with numpy.errstate(all='ignore'):
        ch = Chain(names, setup.model(), setup.proposals(), bit_generator=seed)
        st = setup.start(seed)
        ch.start_position = {p: st[p].reshape(-1)[0] for p in st}
    return ch


def window_phase(pr):
    T = getattr(pr, 'adaptation_duration', None)
    if T is None:
        return 'every-step'
    dk = pr.nsteps - pr.start_step + 1
    return 'before' if dk < 1 else ('in' if dk < T else 'after')


def fresh_like(setup, seed, probe):
    """A freshly constructed chain given the clock, position and random stream of `probe`."""
    f = build_chain(setup, seed + 77)
    with numpy.errstate(all='ignore'):
        f.start_position = dict(probe.current_position)
    for a, b in zip(f.proposal_dist.proposals, probe.proposal_dist.proposals):
        a._nsteps = b._nsteps
        if isinstance(b, BaseAdaptiveSupport):
            a._start_step = b._start_step
    f.proposal_dist.random_state = copy.deepcopy(probe.random_state)
    return f


def c19_reset_case(setup, seed, segs, compare_steps=None):
    """segs: list of ('step', n) | ('reset',).  Returns (findings, info)."""
    findings = []
    info = dict(resets=0, rejected=0, phases=[], traj=0, nontrivial=0)
    ch = build_chain(setup, seed)
    props = list(ch.proposal_dist.proposals)
    d0 = [dist_digest(p) for p in props]
    m = compare_steps or min(setup.T + 3, 10)
    nreset = 0

    def report(key, text, extra):
        if not any(k == key for k, _, _ in findings):
            findings.append((key, text + '; families %s, T=%d, jump_interval=%d, start_step=%d' % (
                ','.join(setup.vnames), setup.T, setup.k, setup.start_step),
                dict(suite='c19-reset', setup=setup.describe(), seed=seed, segs=[list(s) for s in segs],
                     how_to_replay='./check C19 --replay <this file>', **extra)))

    for seg in segs:
        if seg[0] == 'step':
            with numpy.errstate(all='ignore'):
                for _ in range(seg[1]):
                    ch.step()
            continue
        # ---- a reset
        adaptive = [p for p in props if isinstance(p, BaseAdaptiveSupport)]
        others = [p for p in props if not isinstance(p, BaseAdaptiveSupport)]
        changed_before = any(dist_digest(p) != d0[props.index(p)] for p in adaptive)
        phases = [window_phase(p) for p in adaptive]
        before_other = [full_digest(p) for p in others]
        before_rng = flat(ch.random_state)
        n = len(ch)
        before_data = (ch.iteration, ch.lastclear, ch.positions.tobytes() if n else b'',
                       ch.stats.tobytes() if n else b'', ch.acceptance.tobytes() if n else b'')
        before_all = [dist_digest(p) for p in props]
        try:
            ch.reset_proposals()
        except Exception as e:
            zero = [p for p in adaptive if p.nsteps < 1]
            if isinstance(e, ValueError) and zero:
                info['rejected'] += 1
                report('reset_raises_before_first_proposal_step',
                       'Chain.reset_proposals() after %d chain step(s) raised %r: a proposal (jump_interval %d) has not '
                       'completed a proposal step yet, nsteps is 0 and the start_step setter rejects it' % (
                           ch.iteration, e, setup.k),
                       dict(expected='the reset succeeds and the window restarts at step max(nsteps, 1)',
                            observed=repr(e)))
                continue
            report('reset_raises:%s' % type(e).__name__,
                   'Chain.reset_proposals() raised %r at iteration %d' % (e, ch.iteration),
                   dict(expected='no exception', observed=traceback.format_exc()[-600:]))
            continue
        if any(p.nsteps < 1 for p in adaptive):
            info['at_nsteps0'] = info.get('at_nsteps0', 0) + 1
        nreset += 1
        info['resets'] += 1
        info['phases'] += phases
        if changed_before:
            info['nontrivial'] += 1
        for p in adaptive:
            i = props.index(p)
            now = dist_digest(p)
            stale = sorted(k for k in set(now) | set(d0[i]) if now.get(k) != d0[i].get(k))
            for a in stale:
                report('reset_leaves:%s.%s' % (owner_of(p, 'setup_adaptation'), a),
                       'after reset number %d (iteration %d) attribute %s of %s differs from its construction-time '
                       'value' % (nreset, ch.iteration, a, type(p).__name__),
                       dict(expected='bit-identical to construction', observed='stale attributes %s' % stale,
                            reset_number=nreset))
            # `start_step` cannot be 0 (its setter refuses): at nsteps == 0 "the current step" is step 1,
            # the constructor's own default; the code does `start_step = max(nsteps, 1)`
            if p.start_step != max(p.nsteps, 1):
                report('reset_start_step',
                       'after a reset start_step=%r but nsteps=%r' % (p.start_step, p.nsteps),
                       dict(expected='start_step == nsteps', observed=[p.start_step, p.nsteps]))
        for p, b in zip(others, before_other):
            if full_digest(p) != b:
                report('reset_touches_non_adaptive:%s' % type(p).__name__,
                       'Chain.reset_proposals() changed a proposal without adaptation (%s)' % type(p).__name__,
                       dict(expected='untouched', observed='attributes changed'))
        n = len(ch)
        after_data = (ch.iteration, ch.lastclear, ch.positions.tobytes() if n else b'',
                      ch.stats.tobytes() if n else b'', ch.acceptance.tobytes() if n else b'')
        if after_data != before_data or flat(ch.random_state) != before_rng:
            report('reset_touches_chain', 'Chain.reset_proposals() changed the chain data or the random stream',
                   dict(expected='untouched', observed='changed'))
        # ---- the following trajectory against a fresh proposal with the same clock
        if not findings:
            probe = copy.deepcopy(ch)
            fresh = fresh_like(setup, seed, probe)
            with numpy.errstate(all='ignore'):
                for _ in range(m):
                    for c in (probe, fresh):        # value caches hold history, not distribution (a C02 matter)
                        for q in c.proposal_dist.proposals:
                            if hasattr(q, '_cdfcache'):
                                for dct in q._cdfcache:
                                    dct.clear()
                                q._cachedstd = [None] * len(q._cachedstd)
                    probe.step()
                    fresh.step()
            info['traj'] += 1
            same = (probe.positions[-m:].tobytes() == fresh.positions[-m:].tobytes() and
                    probe.acceptance[-m:].tobytes() == fresh.acceptance[-m:].tobytes() and
                    [dist_digest(p) for p in probe.proposal_dist.proposals] ==
                    [dist_digest(p) for p in fresh.proposal_dist.proposals])
            if not same:
                p = adaptive[0] if adaptive else props[0]
                report('post_reset_trajectory:%s' % owner_of(p, 'setup_adaptation'),
                       'after reset number %d the next %d steps differ from those of a freshly constructed proposal '
                       'given the same clock, position and random stream' % (nreset, m),
                       dict(expected='bit-identical trajectories', observed='differ', reset_number=nreset))
    return findings, info


# --------------------------------------------------------------------------
# C19 (d): reset_after_swap
# --------------------------------------------------------------------------

class SweepRecorder:
    """Wraps `swap_temperatures` and `_reset_adaptation` from outside; per sweep: the
    levels whose state changed, the recorded swap index, the levels whose proposals
    were reset."""

    def __init__(self):
        self.sweeps = []
        self._cur = None

    def __enter__(self):
        rec = self
        self._swap = ParallelTemperedChain.__dict__['swap_temperatures']
        self._reset = BaseAdaptiveSupport.__dict__['_reset_adaptation']

        def swap_temperatures(self_):
            before = [(dict(c.current_position), dict(c.current_stats)) for c in self_.chains]
            owner = {}
            for t, c in enumerate(self_.chains):
                for p in c.proposal_dist.proposals:
                    owner[id(p)] = t
            rec._cur = dict(owner=owner, reset=set(), chain=self_)
            try:
                r = rec._swap(self_)
            finally:
                cur, rec._cur = rec._cur, None
            after = [(dict(c.current_position), dict(c.current_stats)) for c in self_.chains]
            ii = self_.iteration - self_.lastclear - 1
            idx = [int(x) for x in numpy.atleast_1d(self_._temperature_swaps[ii // self_.swap_interval]['swap_index'])]
            distinct = len(set(repr(sorted(b[0].items())) for b in before)) == len(before)
            moved = {t for t in range(len(before)) if repr(after[t]) != repr(before[t])} if distinct else None
            adaptive_levels = {t for t, c in enumerate(self_.chains)
                               if any(isinstance(p, BaseAdaptiveSupport) for p in c.proposal_dist.proposals)}
            rec.sweeps.append(dict(iteration=self_.iteration, idx=idx, moved=moved, reset=cur['reset'],
                                   adaptive_levels=adaptive_levels))
            return r

        def _reset_adaptation(self_):
            r = rec._reset(self_)
            if rec._cur is not None and id(self_) in rec._cur['owner']:
                rec._cur['reset'].add(rec._cur['owner'][id(self_)])
            return r

        ParallelTemperedChain.swap_temperatures = swap_temperatures
        BaseAdaptiveSupport._reset_adaptation = _reset_adaptation
        return self

    def __exit__(self, *a):
        ParallelTemperedChain.swap_temperatures = self._swap
        BaseAdaptiveSupport._reset_adaptation = self._reset
        return False


def c19_pt_case(setup, seed, nsteps):
    findings = []
    info = dict(sweeps=0, exchanged_sweeps=0, resets=0)
    payload = dict(suite='c19-pt', setup=setup.describe(), seed=seed, nsteps=nsteps,
                   how_to_replay='./check C19 --replay <this file>')
    with SweepRecorder() as rec:
        s = setup.sampler(seed, reset_after_swap=True)
        try:
            run(s, nsteps)
        except Exception as e:
            tb = traceback.format_exc()
            it = s.chains[0].iteration
            if not any(fr.name == 'swap_temperatures' for fr in traceback.extract_tb(e.__traceback__)):
                raise        # not raised by the sweep: the unit cannot be evaluated (not a C19 matter)
            if isinstance(e, AttributeError) and '_reset_proposals' in str(e):
                key = 'reset_after_swap_raises:ParallelTemperedChain.swap_temperatures'
            elif isinstance(e, ValueError) and 'start_step' in str(e):
                key = 'reset_after_swap_raises_before_first_proposal_step'
            else:
                key = 'reset_after_swap_raises:%s' % type(e).__name__
            findings.append((key,
                             'a parallel tempered sampler created with reset_after_swap=True raised %r in iteration %d '
                             '(swap_interval %d, jump_interval %d); families %s' % (
                                 e, it + 1, setup.swap_interval, setup.k, ','.join(setup.vnames)),
                             dict(payload, expected='the sampler runs', observed=tb[-700:])))
            return findings, info
    for sw in rec.sweeps:
        info['sweeps'] += 1
        exchanged = {t for t, i in enumerate(sw['idx']) if i != t}
        if sw['moved'] is not None and sw['moved'] != exchanged:
            # two levels may hold equal states only if they were equal before; `moved` is exact otherwise
            exchanged = sw['moved'] | exchanged
        if exchanged:
            info['exchanged_sweeps'] += 1
        want = exchanged & sw['adaptive_levels']
        info['resets'] += len(sw['reset'])
        if sw['reset'] != want:
            findings.append((
                'reset_after_swap_wrong_levels',
                'sweep at iteration %d: swap_index %s exchanged levels %s but the proposals of levels %s were reset; '
                'families %s' % (sw['iteration'], sw['idx'], sorted(exchanged), sorted(sw['reset']),
                                 ','.join(setup.vnames)),
                dict(payload, expected=sorted(want), observed=sorted(sw['reset']))))
            break
    return findings, info


# --------------------------------------------------------------------------
# generation of cases (everything from one seed)
# --------------------------------------------------------------------------

def mh_setup(vnames, rng, **kw):
    return Setup(vnames, 'mh', nchains=kw.pop('nchains', rng.choice([1, 2])), T=kw.pop('T', rng.choice([5, 7, 9])),
                 pseed=rng.randrange(1, 10 ** 6), **kw)


def pt_setup(vnames, rng, **kw):
    nt = kw.pop('ntemps', rng.choice([2, 3]))
    # tall ladders are geometric (as epsie.make_betas_ladder): a mix of accepted and rejected exchanges
    betas = [1.0, 0.5, 0.2][:nt] if nt <= 3 else [float(10.0 ** (-(nt - 2.0) * j / (nt - 1))) for j in range(nt)]
    return Setup(vnames, 'pt', nchains=kw.pop('nchains', 1), betas=betas,
                 swap_interval=kw.pop('swap_interval', rng.choice([1, 2, 3])),
                 T=kw.pop('T', rng.choice([5, 7, 9])), pseed=rng.randrange(1, 10 ** 6), **kw)


def snapshot_sched(rng, T):
    out = [('run', rng.choice([1, 2, 3]))]
    for _ in range(rng.choice([2, 3, 4])):
        out.append(('snap', rng.choice(['sampler', 'chain', 'prop'])))
        out.append(rng.choice([('run', rng.choice([1, 2, T])), ('run', 3), ('clear',), ('reset',)]))
        if out[-1][0] != 'run':
            out.append(('run', rng.choice([1, 2, 4])))
    out.append(('run', T + 1))
    return out


def reset_segs(rng, T, nres):
    out = []
    if rng.random() < 0.25:
        out.append(('reset',))              # before any step: succeeds, window starts at step 1
    out.append(('step', rng.choice([1, 2, 3, T // 2 + 1])))
    for i in range(nres):
        out.append(('reset',))
        if rng.random() < 0.2:
            out.append(('reset',))          # back to back
        out.append(('step', rng.choice([1, 2, T - 1, T, T + 2, 2 * T])))
    return out


def c16_cases(seed, tier, full):
    """Yield ('snapshot'|'coupling', callable) units."""
    rng = random.Random(seed * 1000003 + 16)
    thorough = tier == 'thorough' or full
    units = []
    allv = sorted(RECIPES)
    for v in allv:
        for kind in ('mh', 'pt'):
            reps = 3 if thorough else 1
            for _ in range(reps):
                partner = rng.choice(allv) if rng.random() < 0.4 else None
                vn = [v] + ([partner] if partner else [])
                if any('componentwise' in x for x in vn) and any('discrete' in x for x in vn):
                    vn = [v]    # componentwise virtual moves + a discrete partner: 'NaN acceptance!' (not a C16 matter)
                st = (mh_setup if kind == 'mh' else pt_setup)(vn, rng)
                sd = rng.randrange(1, 10 ** 6)
                sched = snapshot_sched(rng, st.T)
                units.append(('snapshot', st, sd, sched))
    for v in allv:
        for kind in ('mh', 'pt'):
            st = (mh_setup if kind == 'mh' else pt_setup)([v], rng, nchains=1)
            sd = rng.randrange(1, 10 ** 6)
            n0 = rng.choice([2, 3, st.T])
            if thorough:
                units.append(('coupling', st, sd, 2, n0, [[2, 1], [1, 3], [2, 2]], orders(2, 2), 'sampler'))
                units.append(('coupling', st, sd + 1, 3, n0, [[2], [3], [1], [2]], orders(3, 1), 'sampler'))
                units.append(('coupling', st, sd + 2, 2, n0, [[3], [2], [2]], orders(2, 1), 'chain'))
            else:
                units.append(('coupling', st, sd, 2, n0, [[2], [3], [2]], orders(2, 1), 'sampler'))
                if kind == 'mh':
                    two = orders(2, 2)
                    units.append(('coupling', st, sd + 1, 2, n0, [[2, 1], [1, 2], [2, 2]],
                                  rng.sample(two, 4), 'chain'))
                else:
                    units.append(('coupling', st, sd + 1, 3, n0, [[2], [2], [1], [2]],
                                  rng.sample(orders(3, 1), 4), 'sampler'))
    return units


def c19_cases(seed, tier, full):
    rng = random.Random(seed * 1000003 + 19)
    thorough = tier == 'thorough' or full
    units = []
    for v in ADAPTIVE:
        combos = [(1, 1), (2, 1), (1, 3)] if thorough else [(1, 1), (2, 1), (1, 3)]
        for k, ss in combos:
            for nres in ((0, 1, 2, 3, 4) * 3 if thorough else (2, 4) if (k, ss) == (1, 1) else (1,) if k > 1 else (3,)):
                partner = rng.choice(NONADAPTIVE + ADAPTIVE) if rng.random() < 0.6 else None
                vn = [v] + ([partner] if partner else [])
                if any('componentwise' in x for x in vn) and any('discrete' in x for x in vn):
                    vn = [v]    # componentwise virtual moves + a discrete partner: 'NaN acceptance!' (not a C19 matter)
                T = rng.choice([5, 7, 9])
                st = Setup(vn, 'mh', T=T, k=k, start_step=ss, pseed=rng.randrange(1, 10 ** 6))
                units.append(('reset', st, rng.randrange(1, 10 ** 6), reset_segs(rng, T, nres)))
    for v in NONADAPTIVE:
        st = Setup([v, rng.choice(ADAPTIVE)], 'mh', T=7, pseed=rng.randrange(1, 10 ** 6))
        units.append(('reset', st, rng.randrange(1, 10 ** 6), reset_segs(rng, 7, 2)))
    pool = ADAPTIVE if thorough else rng.sample(ADAPTIVE, 10)
    for v in pool:
        for nt in (2, 3):
            partner = rng.choice(NONADAPTIVE) if rng.random() < 0.5 else None
            if partner and 'componentwise' in v and 'discrete' in partner:
                partner = None
            st = pt_setup([v] + ([partner] if partner else []), rng, ntemps=nt,
                          swap_interval=rng.choice([1, 2]), nchains=1)
            units.append(('pt', st, rng.randrange(1, 10 ** 6), 12 if not thorough else 60))
    # tall, closely spaced ladders: sweeps in which an unexchanged level sits between exchanged ones
    for v in (rng.sample(ADAPTIVE, 6) if thorough else rng.sample(ADAPTIVE, 2)):
        for nt in (6, 8):
            st = pt_setup([v], rng, ntemps=nt, swap_interval=1, nchains=1)
            units.append(('pt', st, rng.randrange(1, 10 ** 6), 12 if not thorough else 40))
    # a jump interval larger than the swap interval: the first sweep meets nsteps == 0
    for v in (ADAPTIVE if thorough else ADAPTIVE[:3]):
        st = pt_setup([v], rng, ntemps=2, swap_interval=1, nchains=1, k=3)
        units.append(('pt', st, rng.randrange(1, 10 ** 6), 8))
    return units


def run_unit(u):
    """Execute one unit; returns (findings, info)."""
    kind = u[0]
    if kind == 'snapshot':
        return c16_snapshot_case(u[1], u[2], u[3])
    if kind == 'coupling':
        return c16_coupling_case(u[1], u[2], u[3], u[4], u[5], u[6], u[7])
    if kind == 'reset':
        return c19_reset_case(u[1], u[2], u[3])
    if kind == 'pt':
        return c19_pt_case(u[1], u[2], u[3])
    raise ValueError(kind)


def _safe_unit(u):
    """An exception escaping a unit (as opposed to one the unit's oracle is about) means the
    unit could not be evaluated: recorded and counted, never reported as a violation."""
    try:
        with numpy.errstate(all='ignore'):
            return run_unit(u)
    except Exception:
        return [], dict(error=traceback.format_exc()[-900:], unit=repr(u)[:300])


def run_units(units, procs=1):
    """Run units (optionally on a fork pool; results in unit order, so deterministic)."""
    if procs <= 1 or len(units) < 8:
        return [_safe_unit(u) for u in units]
    import multiprocessing as mp
    ctx = mp.get_context('fork')
    with ctx.Pool(procs) as pool:
        return pool.map(_safe_unit, units, chunksize=max(1, len(units) // (procs * 6)))


def replay_payload(d):
    """Re-run the input stored in a replay file; returns the findings."""
    suite = d.get('suite')
    st = Setup.from_description(d['setup'])
    if suite == 'c16-snapshot':
        return c16_snapshot_case(st, d['seed'], [tuple(o) for o in d['sched']])[0]
    if suite == 'c16-coupling':
        return c16_coupling_case(st, d['seed'], d['k'], d['n0'], d['bursts'], [tuple(d['order'])], d['mode'])[0]
    if suite == 'c19-reset':
        return c19_reset_case(st, d['seed'], [tuple(s) for s in d['segs']])[0]
    if suite == 'c19-pt':
        return c19_pt_case(st, d['seed'], d['nsteps'])[0]
    return None


if __name__ == '__main__':
    import sys
    import time
    which = sys.argv[1] if len(sys.argv) > 1 else 'C16'
    tier = sys.argv[2] if len(sys.argv) > 2 else 'quick'
    t0 = time.time()
    units = c16_cases(0, tier, False) if which == 'C16' else c19_cases(0, tier, False)
    keys = {}
    for u in units:
        f, info = run_unit(u)
        for k, t, _ in f:
            keys.setdefault(k, t)
    print(len(units), 'units', '%.1fs' % (time.time() - t0))
    for k, t in sorted(keys.items()):
        print(k, '::', t[:200])
