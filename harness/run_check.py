"""Entry point of every registered check: ./check Cxx --tier quick|thorough."""
import argparse
import importlib
import os
import signal
import sys
import traceback
import warnings

HERE = os.path.dirname(os.path.abspath(__file__))
sys.path.insert(0, HERE)
warnings.filterwarnings('ignore')

import common  # noqa: E402


def main():
    ap = argparse.ArgumentParser()
    ap.add_argument('prop')
    ap.add_argument('--tier', default=os.environ.get('VERIF_TIER', 'quick'), choices=['quick', 'thorough'])
    ap.add_argument('--replay', default=None)
    a = ap.parse_args()
    os.chdir(common.VERIF)
    try:
        import numpy
        numpy.seterr(all='ignore')
        mod = importlib.import_module('props.' + a.prop)
    except ImportError:
        traceback.print_exc()
        print('no check registered for %s' % a.prop)
        return 2
    if a.replay:
        return mod.replay(a.replay)
    chk = common.Check(a.prop, a.tier)
    try:
        build = common.lean_build(common.prop_modules(a.prop))
        proof_ok = chk.lean(build)
        if a.tier == 'thorough' and build.built:
            ok, out = common.leanchecker(build.built)
            chk.obligations.append(('leanchecker ' + ' '.join(build.built), ok, [] if ok else [out[-300:]]))
            proof_ok = proof_ok and ok
        if not build.ok:
            print(build.log[-3000:])
        mod.run(chk, a.tier, proof_ok)
    except (TimeoutError, OSError, MemoryError) as e:
        traceback.print_exc()
        print('infrastructure trouble: %r' % (e,))
        return 2
    return chk.finish()


if __name__ == '__main__':
    sys.exit(main())
