"""Entry point of every registered check: ./check Cxx --tier quick|thorough."""
import argparse
import importlib
import os
import signal
import subprocess
import sys
import traceback
import warnings

HERE = os.path.dirname(os.path.abspath(__file__))
sys.path.insert(0, HERE)
warnings.filterwarnings('ignore')

import common  # noqa: E402


def main():
    ap = argparse.ArgumentParser()
    ap.add_argument('prop')
    ap.add_argument('--tier', default=os.environ.get('VERIF_TIER', 'quick'), choices=['quick', 'thorough'])
    ap.add_argument('--replay', default=None)
    a = ap.parse_args()
    os.chdir(common.VERIF)
    try:
        import numpy
        numpy.seterr(all='ignore')
        mod = importlib.import_module('props.' + a.prop)
    except ImportError:
        traceback.print_exc()
        print('no check registered for %s' % a.prop)
        return 2
    if a.replay:
        return mod.replay(a.replay)
    chk = common.Check(a.prop, a.tier)
    try:
        build = common.lean_build(common.prop_modules(a.prop))
        proof_ok = chk.lean(build)
        if a.tier == 'thorough' and build.built:
            ok, out = common.leanchecker(build.built)
            chk.obligations.append(('leanchecker ' + ' '.join(build.built), ok, [] if ok else [out[-300:]]))
            proof_ok = proof_ok and ok
        if not build.ok:
            print(build.log[-3000:])
        # the translated kernels of this property against the real methods on the same arguments
        # (differential validation of the translator and its bind tables)
        if any('Source' in m for m in common.prop_modules(a.prop)) and 'EpsieModel.Generated.Source' not in ' '.join(build.failed_modules):
            import source_corr
            try:
                sdivs, sst = source_corr.run(chk.seed, 12 if a.tier == 'quick' else 120, a.prop)
            except (subprocess.TimeoutExpired, OSError) as e:
                raise TimeoutError(repr(e))
            if sst['requests']:
                chk.coverage['source_translation_correspondence'] = dict(
                    sst, what='translated kernels (lean/DriverSource.lean) vs the real methods called on real objects '
                              'in the same state', first=sdivs[:3])
                chk.obligations.append(('source-translation-correspondence', not sdivs, sdivs[:3]))
                proof_ok = proof_ok and not sdivs
        mod.run(chk, a.tier, proof_ok)
    except (TimeoutError, OSError, MemoryError) as e:
        traceback.print_exc()
        print('infrastructure trouble: %r' % (e,))
        return 2
    except Exception as e:
        # an exception that escaped a search: if it was raised inside the code under test, the real
        # code failed on an input the check generated (the property is no longer shown to hold);
        # otherwise the machinery itself is broken
        tb = traceback.extract_tb(e.__traceback__)
        repo = os.path.realpath(common.REPO)
        in_repo = [f for f in tb if os.path.realpath(f.filename).startswith(repo + os.sep)]
        traceback.print_exc()
        if not in_repo:
            print('the check itself failed: %r' % (e,))
            return 2
        where = '%s:%d in %s' % (os.path.relpath(in_repo[-1].filename, repo), in_repo[-1].lineno, in_repo[-1].name)
        chk.violation('real-code-raised:' + type(e).__name__ + ':' + in_repo[-1].name,
                      'the code under test raised %r at %s while the check was exercising it' % (e, where),
                      {'traceback': traceback.format_exception(type(e), e, e.__traceback__)[-12:],
                       'how_to_replay': './check %s --tier %s with VERIF_SEED=%d' % (a.prop, a.tier, chk.seed)}, True)
    return chk.finish()


if __name__ == '__main__':
    sys.exit(main())
