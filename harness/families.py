"""Catalogue of the repo's proposal families, built from the package's own
exports, with constructors for random but valid instances."""
import math
import random

import numpy

from epsie import proposals as P

TWO_PI = 2 * math.pi

# family name -> (class, parameter kind, minimum/maximum number of parameters)
FAMILIES = {
    'normal': (P.Normal, 'real', 1, 3),
    'adaptive_normal': (P.AdaptiveNormal, 'real', 1, 3),
    'ss_adaptive_normal': (P.SSAdaptiveNormal, 'real', 1, 3),
    'at_adaptive_normal': (P.ATAdaptiveNormal, 'real', 1, 3),
    'bounded_normal': (P.BoundedNormal, 'box', 1, 3),
    'adaptive_bounded_normal': (P.AdaptiveBoundedNormal, 'box', 1, 3),
    'ss_adaptive_bounded_normal': (P.SSAdaptiveBoundedNormal, 'box', 1, 3),
    'at_adaptive_bounded_normal': (P.ATAdaptiveBoundedNormal, 'box', 1, 3),
    'angular': (P.Angular, 'angle', 1, 2),
    'adaptive_angular': (P.AdaptiveAngular, 'angle', 1, 2),
    'ss_adaptive_angular': (P.SSAdaptiveAngular, 'angle', 1, 2),
    'at_adaptive_angular': (P.ATAdaptiveAngular, 'angle', 1, 2),
    'discrete': (P.NormalDiscrete, 'int', 1, 2),
    'ss_adaptive_discrete': (P.SSAdaptiveNormalDiscrete, 'int', 1, 2),
    'adaptive_discrete': (P.AdaptiveNormalDiscrete, 'int', 1, 2),
    'bounded_discrete': (P.BoundedDiscrete, 'intbox', 1, 2),
    'ss_adaptive_bounded_discrete': (P.SSAdaptiveBoundedDiscrete, 'intbox', 1, 2),
    'adaptive_bounded_discrete': (P.AdaptiveBoundedDiscrete, 'intbox', 1, 2),
    'eigenvector': (P.Eigenvector, 'real', 1, 3),
    'adaptive_eigenvector': (P.AdaptiveEigenvector, 'real', 1, 3),
    'bounded_eigenvector': (P.BoundedEigenvector, 'box', 2, 3),
    'adaptive_bounded_eigenvector': (P.AdaptiveBoundedEigenvector, 'box', 2, 3),
    'isotropic_solid_angle': (P.IsotropicSolidAngle, 'sphere', 2, 2),
    'adaptive_isotropic_solid_angle': (P.AdaptiveIsotropicSolidAngle, 'sphere', 2, 2),
}

ADAPTIVE = {n for n in FAMILIES if 'adaptive' in n}
SS = {n for n in FAMILIES if n.startswith('ss_')}
NO_JUMP_INTERVAL_ARG = set()


def exported_proposal_classes():
    """Every concrete jump-proposal class the package exports (not only the registry)."""
    out = {}
    for name in dir(P):
        obj = getattr(P, name)
        if isinstance(obj, type) and issubclass(obj, P.BaseProposal) and obj is not P.BaseProposal \
                and getattr(obj, 'name', None) and obj.name not in ('joint', 'nested_transdimensional'):
            out[obj.name] = obj
    return out


def domain_for(kind, rng, i):
    """A (lo, hi) box for parameter number i of the given kind."""
    if kind == 'box':
        lo = round(rng.uniform(-2, 0), 2)
        return (lo, lo + round(rng.uniform(0.5, 3), 2))
    if kind == 'intbox':
        lo = rng.randint(-3, 1)
        hi = lo + rng.randint(2, 6)
        # the class documents that non-integer boundaries are allowed (it floors / ceils them)
        r = rng.random()
        if r < 0.2:
            return (lo - 0.5, hi + 0.5)
        if r < 0.35:
            return (lo + 0.25, hi - 0.25)
        return (lo, hi)
    if kind == 'angle':
        return (0.0, TWO_PI)
    return None


def start_value(kind, dom, rng, which=0):
    if kind == 'real':
        return rng.uniform(-1, 1)
    if kind == 'box':
        return rng.uniform(dom[0], dom[1])
    if kind == 'angle':
        return rng.uniform(0, TWO_PI)
    if kind == 'int':
        return rng.randint(-3, 3)
    if kind == 'intbox':
        return rng.randint(math.ceil(dom[0]), math.floor(dom[1]))
    if kind == 'sphere':
        # dom (optional): (radec, degs) -- the conventions the proposal was built with
        radec, degs = dom if dom else (False, False)
        v = rng.uniform(0.1, TWO_PI - 0.1) if which == 0 else rng.uniform(0.2, math.pi - 0.2)
        if which == 1 and radec:
            v = v - math.pi / 2
        if degs:
            v = v * 180.0 / math.pi
        return v
    raise ValueError(kind)


def optional_kwargs(family, params, seed):
    """Non-default values for the OPTIONAL constructor arguments of a family (what ordinary use and
    the repository's tests leave at their defaults): target rates, decay, user-supplied initial widths
    that are not proportional to the prior widths, maximum covariances, shuffle rates.  Deterministic
    in `seed` (own stream: the caller's generator is not advanced)."""
    r = random.Random(seed)
    n = len(params)
    f = family
    kw = {}
    if f in ('adaptive_normal', 'adaptive_bounded_normal', 'adaptive_angular', 'adaptive_discrete',
             'adaptive_bounded_discrete'):
        if r.random() < 0.7:
            scale = 4.0 if 'discrete' in f else 1.0
            kw['initial_std'] = numpy.array([round(scale * r.uniform(0.05, 0.9), 3) for _ in range(n)])
        if r.random() < 0.5:
            kw['target_rate'] = r.choice([0.1, 0.3, 0.45])
        if r.random() < 0.4:
            kw['adaptation_decay'] = r.choice([0.3, 0.6, 1.5])
    elif f.startswith('ss_adaptive'):
        if r.random() < 0.6:
            kw['target_rate'] = r.choice([0.1, 0.3, 0.45])
        if r.random() < 0.4:
            kw['max_cov'] = r.choice([0.8, 2.5, 40.0])
    elif f.startswith('at_adaptive'):
        if r.random() < 0.7:
            kw['target_rate'] = r.choice([0.1, 0.3, 0.45])
    elif f in ('eigenvector', 'bounded_eigenvector'):
        kw['shuffle_rate'] = r.choice([0.1, 0.5, 0.9])
    elif f in ('adaptive_eigenvector', 'adaptive_bounded_eigenvector'):
        if r.random() < 0.6:
            kw['target_rate'] = r.choice([0.1, 0.3, 0.45])
        if r.random() < 0.6:
            kw['shuffle_rate'] = r.choice([0.1, 0.5, 0.9])
    elif f == 'adaptive_isotropic_solid_angle':
        if r.random() < 0.7:
            kw['target_rate'] = r.choice([0.1, 0.3, 0.45])
    return kw


def make(family, params, doms, rng, jump_interval=1, window=None, start_step=1, successive=None,
         componentwise=False, optional=None):
    """Construct a real proposal instance of `family` over `params`.

    doms: dict param -> (lo, hi) (for bounded kinds).  window: adaptation duration.
    optional: None, or a seed -- then the family's optional constructor arguments get the non-default
    values `optional_kwargs(family, params, seed)`.
    """
    cls, kind, _, _ = FAMILIES[family]
    n = len(params)
    T = window or rng.randint(4, 12)
    kw = {}
    if optional is not None:
        kw.update(optional_kwargs(family, params, optional))
    if jump_interval != 1:
        kw['jump_interval'] = jump_interval
    bnds = {p: doms[p] for p in params} if kind in ('box', 'intbox') else None
    cov = [round(rng.uniform(0.05, 0.6), 3) for _ in params]
    if kind in ('int', 'intbox'):
        cov = [round(rng.uniform(0.6, 4.0), 2) for _ in params]
    nonadaptive_dur = {}
    if jump_interval != 1:
        nonadaptive_dur = {'jump_interval_duration': T}
    if successive is None and kind in ('int', 'intbox'):
        successive = {p: rng.random() < 0.5 for p in params}
    if successive == 'off':
        successive = None
    f = family
    if f == 'normal':
        return cls(params, cov=cov, **kw, **nonadaptive_dur)
    if f == 'adaptive_normal':
        return cls(params, {p: rng.uniform(1, 4) for p in params}, T, start_step=start_step, **kw)
    if f == 'ss_adaptive_normal':
        return cls(params, cov=cov, **kw, **nonadaptive_dur)
    if f == 'at_adaptive_normal':
        return cls(params, T, diagonal=rng.random() < 0.5, componentwise=componentwise,
                   start_step=start_step, **kw)
    if f == 'bounded_normal':
        return cls(params, bnds, cov=cov, **kw, **nonadaptive_dur)
    if f == 'adaptive_bounded_normal':
        return cls(params, bnds, T, start_step=start_step, **kw)
    if f == 'ss_adaptive_bounded_normal':
        return cls(params, bnds, cov=cov, **kw, **nonadaptive_dur)
    if f == 'at_adaptive_bounded_normal':
        return cls(params, bnds, T, componentwise=componentwise, start_step=start_step, **kw)
    if f == 'angular':
        return cls(params, cov=cov, **kw, **nonadaptive_dur)
    if f == 'adaptive_angular':
        return cls(params, T, start_step=start_step, **kw)
    if f == 'ss_adaptive_angular':
        return cls(params, cov=cov, **kw, **nonadaptive_dur)
    if f == 'at_adaptive_angular':
        return cls(params, T, componentwise=componentwise, start_step=start_step, **kw)
    if f == 'discrete':
        return cls(params, cov=cov, successive=successive, **kw, **nonadaptive_dur)
    if f == 'ss_adaptive_discrete':
        return cls(params, cov=cov, successive=successive, **kw, **nonadaptive_dur)
    if f == 'adaptive_discrete':
        return cls(params, {p: rng.uniform(4, 9) for p in params}, T, successive=successive,
                   start_step=start_step, **kw)
    if f == 'bounded_discrete':
        return cls(params, bnds, cov=cov, successive=successive, **kw, **nonadaptive_dur)
    if f == 'ss_adaptive_bounded_discrete':
        return cls(params, bnds, cov=cov, successive=successive, **kw, **nonadaptive_dur)
    if f == 'adaptive_bounded_discrete':
        return cls(params, bnds, T, successive=successive, start_step=start_step, **kw)
    if f == 'eigenvector':
        return cls(params, cov=_spd(n, rng), **kw, **nonadaptive_dur)
    if f == 'adaptive_eigenvector':
        return cls(params, T, cov0=_spd(n, rng), start_step=start_step, **kw)
    if f == 'bounded_eigenvector':
        return cls(params, bnds, cov=_spd(n, rng), **kw, **nonadaptive_dur)
    if f == 'adaptive_bounded_eigenvector':
        return cls(params, bnds, T, cov0=_spd(n, rng), start_step=start_step, **kw)
    if f in ('isotropic_solid_angle', 'adaptive_isotropic_solid_angle'):
        flags = (doms or {}).get(params[0])
        if flags:
            kw = dict(kw, radec=bool(flags[0]), degs=bool(flags[1]))
    if f == 'isotropic_solid_angle':
        return cls(params[0], params[1], kappa=rng.uniform(2, 30), **kw, **nonadaptive_dur)
    if f == 'adaptive_isotropic_solid_angle':
        return cls(params[0], params[1], T, start_step=start_step, **kw)
    raise ValueError(family)


def _spd(n, rng):
    a = numpy.array([[rng.uniform(-0.3, 0.3) for _ in range(n)] for _ in range(n)])
    m = a @ a.T + numpy.diag([rng.uniform(0.05, 0.4) for _ in range(n)])
    return (m + m.T) / 2
