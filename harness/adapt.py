"""Suite `adapt`: the adaptive proposals of the REAL code against the Lean model
`EpsieModel.Adapt` (DriverAdapt.lean), and the failing-input searches of C13 / C14
on the real code (oracles from the property statements, independent of the model).

Real objects are built with families.py / forcing.py (plus the sub-variants the
catalogue does not enumerate: componentwise Andrieu-Thoms, full-covariance
Sivia-Skilling, default-covariance bounded Sivia-Skilling) and driven one
`Chain.step()` at a time; nothing in /repo is touched, the only patches are
instance attributes of harness-owned chains and, for the draw counter, the
class property `BaseRandom.random_generator` inside a `with` block.
"""
import json
import math
import os
import random
import subprocess
import time
import traceback
from fractions import Fraction

import numpy

import common
from common import frac, csv
import families as F
import forcing
from epsie import proposals as P
from epsie.chain import Chain
from epsie.proposals import base as pbase
from epsie.proposals.normal import AdaptiveSupport, SSAdaptiveSupport, ATAdaptiveSupport
from epsie.proposals.eigenvector import AdaptiveEigenvectorSupport
from epsie.proposals.solid_angle import (AdaptiveIsotropicSolidAngleSupport, IsotropicSolidAngle)

TWO_PI = 2 * math.pi
ADAPTIVE = sorted(F.ADAPTIVE)          # the 16 adaptive classes
assert len(ADAPTIVE) == 16, ADAPTIVE

# sub-variants beyond the catalogue's default constructor call
VARIANTS = {
    'at_adaptive_normal': ['diag', 'full', 'diag+comp', 'full+comp'],
    'at_adaptive_bounded_normal': ['global', 'comp'],
    'at_adaptive_angular': ['global', 'comp'],
    'ss_adaptive_normal': ['diag', 'full', 'diag+cap'],
    'ss_adaptive_bounded_normal': ['given', 'default-cov'],
}


def kind_of(prop):
    if isinstance(prop, SSAdaptiveSupport):
        return 'ss'
    if isinstance(prop, ATAdaptiveSupport):
        return 'at'
    if isinstance(prop, AdaptiveEigenvectorSupport):
        return 'eig'
    if isinstance(prop, AdaptiveIsotropicSolidAngleSupport):
        return 'vmf'
    if isinstance(prop, AdaptiveSupport):
        return 'veitch'
    raise ValueError(type(prop))


# --------------------------------------------------------------------------
# harness models
# --------------------------------------------------------------------------

class BoxModel:
    """A target with bounded prior support: log-prior 0 inside the box, -inf outside.

    target: 'flat' (logl = 0), 'peak' (a needle: Gaussian of width `sharp` x box width
    about `centre`), 'smooth' (a broad Gaussian; gives fractional acceptance ratios)."""

    def __init__(self, names, box, target='flat', centre=None, sharp=1e-4, sphere=False):
        self.names = list(names)
        self.box = dict(box)
        self.target = target
        self.sphere = sphere
        self.centre = centre or {p: 0.5 * (box[p][0] + box[p][1]) for p in names}
        w = 1.0 if target == 'smooth' else sharp
        self.scale = {p: w * (box[p][1] - box[p][0]) for p in names}

    def __call__(self, **kw):
        for p in self.names:
            lo, hi = self.box[p]
            if not lo <= kw[p] <= hi:
                return 0.0, -numpy.inf
        if self.target == 'flat':
            return 0.0, 0.0
        logl = 0.0
        for p in self.names:
            logl += -0.5 * ((kw[p] - self.centre[p]) / self.scale[p]) ** 2
        return logl, 0.0


class BoxedForcedModel(forcing.ForcedModel):
    """A forced history on a bounded support: proposals outside the box are rejected whatever the
    pattern says.  (Used for the unbounded adaptive eigenvector proposal, whose always-accepted
    histories on an unbounded domain run the covariance up doubly exponentially.)"""

    def __init__(self, pattern, names, half_width=50.0):
        super().__init__(pattern)
        self.names = list(names)
        self.half_width = half_width

    def __call__(self, **kw):
        if self.n > 0 and any(abs(kw[p]) > self.half_width for p in self.names):
            self.n += 1
            return 0.0, -numpy.inf
        return super().__call__(**kw)


def random_pattern(seed):
    rng = random.Random(seed)
    bits = [rng.random() < 0.5 for _ in range(4096)]
    return lambda step: bits[step % len(bits)]


# --------------------------------------------------------------------------
# building a real chain for a case description
# --------------------------------------------------------------------------

def _names(n):
    return ['x%d' % i for i in range(n)]


def prior_box(kind, dom):
    """The support of the harness prior for a parameter of the given kind."""
    if kind in ('box', 'intbox'):
        return (float(dom[0]), float(dom[1]))
    if kind == 'angle':
        return (0.0, TWO_PI)
    if kind == 'int':
        return (-6.0, 6.0)
    return (-2.0, 2.0)


def build(case):
    """case: dict(family, variant, n, T, start_step, k, seed, model=..., beta, start).

    Returns (chain, proposal, model, names, boxes)."""
    fam = case['family']
    cls, kind, lo, hi = F.FAMILIES[fam]
    n = case.get('n') or lo
    n = max(lo, min(hi, n))
    rng = random.Random(case['seed'])
    names = _names(n)
    doms = {p: F.domain_for(kind, rng, i) for i, p in enumerate(names)}
    if case.get('doms'):
        doms = {p: tuple(case['doms'][p]) for p in names}
    T, st, k = case['T'], case.get('start_step', 1), case.get('k', 1)
    var = case.get('variant')
    kw = {'jump_interval': k} if k != 1 else {}
    dur = {'jump_interval_duration': T} if k != 1 else {}
    if fam == 'at_adaptive_normal' and var:
        prop = cls(names, T, diagonal=var.startswith('diag'), componentwise=var.endswith('comp'),
                   start_step=st, **kw)
    elif fam in ('at_adaptive_bounded_normal',) and var:
        prop = cls(names, {p: doms[p] for p in names}, T, componentwise=(var == 'comp'),
                   start_step=st, **kw)
    elif fam == 'at_adaptive_angular' and var:
        prop = cls(names, T, componentwise=(var == 'comp'), start_step=st, **kw)
    elif fam == 'ss_adaptive_normal' and var:
        if var == 'full' and n >= 2:
            prop = cls(names, cov=F._spd(n, rng), **kw, **dur)
        elif var == 'diag+cap':
            cov = [round(rng.uniform(0.05, 0.6), 3) for _ in names]
            prop = cls(names, cov=cov, max_cov=round(rng.uniform(0.7, 2.0), 2), **kw, **dur)
        else:
            prop = cls(names, cov=[round(rng.uniform(0.05, 0.6), 3) for _ in names], **kw, **dur)
    elif fam == 'ss_adaptive_bounded_normal' and var == 'default-cov':
        prop = cls(names, {p: doms[p] for p in names}, **kw, **dur)
    else:
        prop = F.make(fam, names, doms, rng, window=T, start_step=st, jump_interval=k)
    boxes = {p: prior_box(kind, doms[p]) for p in names}
    if kind == 'sphere':
        boxes = {names[0]: (0.0, TWO_PI), names[1]: (0.0, math.pi)}
    mk = case.get('model', 'A')
    if mk in ('flat', 'peak', 'smooth'):
        centre = None
        if case.get('centre'):
            centre = dict(case['centre'])
        elif mk == 'peak':
            centre = {p: boxes[p][0] + rng.uniform(0.3, 0.7) * (boxes[p][1] - boxes[p][0]) for p in names}
            if kind in ('int', 'intbox'):
                centre = {p: float(round(v)) for p, v in centre.items()}
        model = BoxModel(names, boxes, mk, centre=centre, sharp=case.get('sharp', 1e-4))
    else:
        pat = random_pattern(case['seed'] * 31 + 7) if mk == 'random' else mk
        if fam == 'adaptive_eigenvector':
            model = BoxedForcedModel(pat, names)
        else:
            model = forcing.ForcedModel(pat)
    ch = Chain(names, model, [prop], bit_generator=case['seed'] % (2 ** 31) + 11,
               beta=case.get('beta', 1.0))
    where = case.get('start', 'interior')
    start = {}
    for i, p in enumerate(names):
        b = boxes[p]
        if where == 'interior':
            if isinstance(model, BoxModel) and model.target == 'peak':
                v = model.centre[p]
            else:
                v = F.start_value(kind, doms[p], rng, i if kind == 'sphere' else 0)
        elif where == 'lo':
            v = b[0]
        elif where == 'hi':
            v = b[1]
        elif where == 'corner':
            v = b[0] if i % 2 == 0 else b[1]
        else:
            raise ValueError(where)
        if kind in ('int', 'intbox'):
            # an integer inside the harness prior's box (the declared bounds need not be integers)
            v = min(max(int(round(v)), math.ceil(b[0])), math.floor(b[1]))
        if kind == 'sphere' and where != 'interior':
            # the poles are C12's subject (F17); stay a little inside
            v = min(max(v, b[0] + 1e-3), b[1] - 1e-3)
        start[p] = v
    ch.start_position = start
    return ch, prop, model, names, boxes


# --------------------------------------------------------------------------
# reading the adaptive state of a real proposal
# --------------------------------------------------------------------------

def read_state(prop, kind):
    """dict field -> flat list of floats (copies)."""
    a = lambda v: [float(x) for x in numpy.array(v, dtype=float).ravel()]
    if kind == 'veitch':
        return {'std': a(prop._std)}
    if kind == 'ss':
        return {'nacc': [float(prop.n_accepted)],
                'vals': a(prop._std if prop.isdiagonal else prop._cov)}
    if kind == 'at':
        return {'lam': a(numpy.atleast_1d(prop._log_lambda)), 'mean': a(prop._mean),
                'ucov': a(prop._unit_cov),
                'scale': a(prop._std ** 2 if prop.isdiagonal else prop._cov)}
    if kind == 'eig':
        return {'lam': [float(prop._log_lambda)], 'mu': a(prop._mu), 'cov': a(prop._cov),
                'eig': a(prop.eigvals)}
    if kind == 'vmf':
        return {'lk': [float(prop._log_kappa)], 'kappa': [float(prop.kappa)],
                'norm': [float(prop.norm)]}
    raise ValueError(kind)


DIRECTION_FIELD = {'veitch': 'std', 'ss': 'vals', 'at': 'lam', 'eig': 'lam', 'vmf': 'lk'}


def scale_bytes(prop, kind):
    """Bit-exact image of everything that defines the proposal distribution."""
    items = []
    names = {'veitch': ['_std'], 'ss': ['_std', '_cov', 'n_accepted'],
             'at': ['_std', '_cov', '_log_lambda', '_mean', '_unit_cov'],
             'eig': ['_cov', '_mu', '_log_lambda', '_eigvals', '_eigvects'],
             'vmf': ['_log_kappa', '_kappa', '_norm']}[kind]
    for nm in names:
        v = getattr(prop, nm, None)
        if v is None:
            continue
        items.append((nm, numpy.array(v, dtype=float).tobytes()))
    return tuple(items)


class Tap:
    """Logs, per `Chain.step`, the model evaluations and acceptance ratios the step computed
    (the componentwise Andrieu-Thoms update evaluates one virtual move per parameter)."""

    def __init__(self, chain):
        self.calls = []
        model = chain.model
        orig_ar = chain._acceptance_ratio

        def tapped_model(**kw):
            r = model(**kw)
            self.calls.append(('M', float(r[1])))
            return r

        def tapped_ar(*a, **k):
            r = orig_ar(*a, **k)
            self.calls.append(('A', float(r[1])))
            return r
        chain.model = tapped_model
        chain._acceptance_ratio = tapped_ar

    def take_virtual(self, n):
        """Acceptance ratios of the n virtual moves of the last step, or None."""
        calls, self.calls = self.calls, []
        i = 1
        if calls and calls[0][1] != -numpy.inf:
            i = 2                       # the step's own ratio
        out = []
        while i < len(calls) and len(out) < n:
            tag, v = calls[i]
            if tag != 'M':
                return None
            if v == -numpy.inf:
                out.append(0.0)
                i += 1
            else:
                if i + 1 >= len(calls) or calls[i + 1][0] != 'A':
                    return None
                out.append(calls[i + 1][1])
                i += 2
        return out if len(out) == n else None


# --------------------------------------------------------------------------
# protocol
# --------------------------------------------------------------------------

def _mat(rows):
    return ';'.join(csv(r) for r in rows)


def header_lines(case_id, prop, kind, nsteps):
    """`case` / `clock` / `fam` / oracle tables for a freshly built proposal."""
    T = int(getattr(prop, 'adaptation_duration', 0) or 0)
    k = prop.jump_interval
    dur = int(prop.jump_interval_duration or 0) if k != 1 else 0
    win = {'veitch': 'veitch', 'ss': 'ss'}.get(kind, 'at')
    out = ['case ' + case_id,
           'clock k=%d dur=%d win=%s T=%d st=%d' % (k, dur, win, T, prop.start_step)]
    xi = frac(prop.target_rate)
    if kind == 'veitch':
        out.append('fam veitch xi=%s deltas=%s std=%s' % (xi, csv(prop.deltas), csv(prop._std)))
        for dk in range(1, T + 3):
            out.append('gain %d %s' % (dk, frac(dk ** (-prop.adaptation_decay) - 0.1)))
    elif kind == 'ss':
        diag = bool(prop.isdiagonal)
        cap = prop.max_std if diag else prop.max_std ** 2
        vals = prop._std if diag else prop._cov.ravel()
        out.append('fam ss diag=%d xi=%s cap=%s vals=%s' % (
            diag, xi, 'inf' if numpy.isinf(cap) else frac(cap), csv(vals)))
        for n in range(1, nsteps + 3):
            up, down = numpy.exp(1 / n), numpy.exp(-1 / n)
            if diag:
                up, down = up ** 0.5, down ** 0.5
            out.append('ssa up %d %s' % (n, frac(up)))
            out.append('ssa down %d %s' % (n, frac(down)))
    else:
        if kind == 'at':
            out.append('fam at xi=%s comp=%d diag=%d n=%d' % (
                xi, bool(prop._iscomponentwise), bool(prop.isdiagonal), prop.ndim))
        elif kind == 'eig':
            out.append('fam eig xi=%s tol=%s mu=%s cov=%s eig=%s' % (
                xi, frac(1e-12), csv(prop._mu), _mat(prop._cov), csv(prop.eigvals)))
        else:
            out.append('fam vmf xi=%s lk=%s kappa=%s norm=%s' % (
                xi, frac(prop._log_kappa), frac(prop.kappa), frac(prop.norm)))
        c = prop._decay_const
        for dk in range(1, T + 3):
            out.append('gain %d %s %s' % (dk, frac(dk ** (-0.6) - c), frac(c)))
    return out


def step_line(chain, prop, kind, tap):
    """The `step` line for the step the real chain has just made (oracles from numpy)."""
    acc = bool(chain.acceptance[-1]['accepted'])
    ar = float(chain.acceptance['acceptance_ratio'][-1])
    toks = ['step', 'acc=%d' % acc]
    if kind in ('at', 'eig', 'vmf'):
        toks.append('ar=' + frac(ar))
    if kind in ('at', 'eig'):
        toks.append('x=' + csv(chain.current_position[p] for p in prop.parameters))
    if kind == 'at':
        virt = tap.take_virtual(prop.ndim) if prop._iscomponentwise else None
        if virt is not None:
            toks.append('vars=' + csv(virt))
        sl = numpy.broadcast_to(numpy.exp(numpy.atleast_1d(prop._log_lambda)) ** 0.5, (prop.ndim,))
        toks.append('sl=' + csv(sl))
    if kind == 'eig':
        toks.append('w=' + csv(numpy.linalg.eigh(prop._cov)[0]))
        toks.append('el=' + frac(numpy.exp(prop._log_lambda)))
    if kind == 'vmf':
        ek = float(numpy.exp(prop._log_kappa))
        nm = float(IsotropicSolidAngle._normalisation(ek))
        if not math.isfinite(ek):
            ek, nm = 0.0, 0.0          # exp overflowed: the real setters raise; so does the model on ek = 0
        elif math.isnan(nm):
            nm = -1.0                  # a NaN normalisation fails the setter's `>= 0` test like a negative one
        toks.append('ek=' + frac(ek))
        toks.append('nm=' + frac(nm))
    tap.calls = []
    return ' '.join(toks)


def drive(case, nsteps):
    """Run the real chain `nsteps` steps.  Returns dict(lines, real=[...], kind, error)."""
    ch, prop, model, names, boxes = build(case)
    kind = kind_of(prop)
    tap = Tap(ch)
    lines = header_lines(case['id'], prop, kind, nsteps)
    real = []
    err = None
    for it in range(nsteps):
        pre = {'raw': prop._nsteps, 'nsteps': prop.nsteps,
               'dk': prop.nsteps - prop.start_step + 1, 'jump': bool(prop._call_jump())}
        tap.calls = []
        try:
            ch.step()
        except Exception as e:                       # noqa: BLE001 - recorded, compared with the model
            err = {'step': it, 'exception': repr(e)[:300], 'traceback': traceback.format_exc()[-1500:]}
            # the model needs the oracle values of the failed update to decide the same
            try:
                lines.append(step_line(ch, prop, kind, tap))
            except Exception:                        # noqa: BLE001
                lines.append('step acc=0')
            real.append({'pre': pre, 'raise': True})
            break
        lines.append(step_line(ch, prop, kind, tap))
        state = read_state(prop, kind)
        if any(not abs(v) < 1e60 for vs in state.values() for v in vs):
            # outside the well-conditioned range in which values are compared (an always-accepted
            # history on an unbounded domain can run any scale up without limit); stop here
            lines.pop()
            break
        real.append({'pre': pre, 'state': state, 'raw': prop._nsteps,
                     'acc': bool(ch.acceptance[-1]['accepted']),
                     'ar': float(ch.acceptance['acceptance_ratio'][-1])})
    return {'lines': lines, 'real': real, 'kind': kind, 'error': err,
            'init': None, 'T': int(getattr(prop, 'adaptation_duration', 0) or 0)}


def run_model(all_lines, timeout=3600):
    p = subprocess.run(['lake', 'env', 'lean', '--run', 'DriverAdapt.lean'], cwd=common.LEAN_DIR,
                       input='\n'.join(all_lines) + '\n', stdout=subprocess.PIPE,
                       stderr=subprocess.PIPE, text=True, timeout=timeout)
    if p.returncode != 0:
        raise RuntimeError('Lean adapt driver failed: ' + p.stderr[-2000:])
    cases = {}
    cur = None
    for ln in p.stdout.splitlines():
        if ln.startswith('case '):
            cur = ln[5:].strip()
            cases[cur] = []
        elif cur is not None:
            cases[cur].append(ln)
    return cases


def parse_model_line(ln):
    """`st raw=.. upd=.. dk=.. ev=.. amb=.. field=..` -> dict."""
    toks = ln.split(' ')
    out = {'tag': toks[0], 'fields': {}}
    if toks[0] != 'st':
        out['text'] = ln
        return out
    for t in toks[1:]:
        k, v = t.split('=', 1)
        if k in ('raw', 'upd', 'dk', 'ev', 'amb'):
            out[k] = int(v)
            continue
        if k == 'nacc':
            out['fields']['nacc'] = [Fraction(v)]
            continue
        if v[:2] in ('g:', 'c:', 'd:', 'f:'):
            v = v[2:]
        vals = []
        for row in v.split(';'):
            if row in ('-', ''):
                continue
            vals += [Fraction(x) for x in row.split(',')]
        out['fields'][k] = vals
    return out


def _close(real, model, scale):
    m = float(model)
    if not math.isfinite(real):
        return False
    return abs(real - m) <= 1e-9 * max(abs(m), abs(real)) + 1e-12 * scale


def _sign(x):
    return (x > 0) - (x < 0)


def compare(case, res, mlines):
    """First disagreement between the real run and the model's answers, or None.

    Exact: which steps raised, the `_nsteps` counter, whether the adaptive state changed at
    a step and the direction of the change of every scale component.  Values: rel. 1e-9."""
    kind = res['kind']
    real = res['real']
    prev_m = None
    prev_r = None
    dfield = DIRECTION_FIELD[kind]
    stats = {'upd': 0, 'noupd_before': 0, 'noupd_after': 0, 'noupd_nojump': 0, 'changed': 0,
             'up': 0, 'down': 0, 'raise': 0, 'amb': 0}
    for i, r in enumerate(real):
        if i >= len(mlines):
            return {'step': i, 'why': 'model stopped: ' + (mlines[-1] if mlines else '<no output>')}
        m = parse_model_line(mlines[i])
        if r.get('raise'):
            stats['raise'] += 1
            if m['tag'] != 'raise':
                return {'step': i, 'why': 'real code raised %s; model: %s' % (
                    res['error']['exception'], mlines[i] if i < len(mlines) else '<missing>')}
            return dict(ok=True, stats=stats)
        if m['tag'] != 'st':
            return {'step': i, 'why': 'real code stepped; model: ' + m.get('text', m['tag'])}
        if m.get('amb'):
            stats['amb'] += 1
            return dict(ok=True, stats=stats)     # a guard within 2^-40 of its threshold: stop comparing
        if m['raw'] != r['raw']:
            return {'step': i, 'why': '_nsteps: model %d real %d' % (m['raw'], r['raw'])}
        if m['dk'] != r['pre']['dk']:
            return {'step': i, 'why': 'dk: model %d real %d' % (m['dk'], r['pre']['dk'])}
        if m['upd']:
            stats['upd'] += 1
        elif not r['pre']['jump']:
            stats['noupd_nojump'] += 1
        elif r['pre']['dk'] <= 1:
            stats['noupd_before'] += 1
        else:
            stats['noupd_after'] += 1
        if m['upd'] and not r['pre']['jump']:
            return {'step': i, 'why': 'model updates at an iteration where the real proposal did not jump'}
        mf, rf = m['fields'], r['state']
        # values
        for name, rv in rf.items():
            if name not in mf:
                return {'step': i, 'why': 'model printed no field %s' % name}
            mv = mf[name]
            if len(mv) != len(rv):
                return {'step': i, 'why': 'field %s: %d model values, %d real' % (name, len(mv), len(rv))}
            scale = max([abs(float(x)) for x in mv] + [1e-300])
            for j, (a, b) in enumerate(zip(rv, mv)):
                if not _close(a, b, scale):
                    return {'step': i, 'why': 'field %s[%d]: model %.17g real %.17g' % (name, j, float(b), a)}
        # which steps changed, and which way
        if prev_m is not None:
            m_changed = any(mf[k] != prev_m[k] for k in mf if k != 'scale')
            r_changed = any(rf[k] != prev_r[k] for k in rf if k != 'scale')
            if m_changed != r_changed:
                # a change below float resolution is not a disagreement
                big = False
                for k in mf:
                    if k == 'scale':
                        continue
                    for a, b in zip(mf[k], prev_m[k]):
                        if a != b and abs(float(a - b)) > 1e-13 * max(abs(float(a)), abs(float(b)), 1e-300):
                            big = True
                if big or r_changed:
                    return {'step': i, 'why': 'adaptive state changed: model %s real %s (upd=%d dk=%d)' % (
                        m_changed, r_changed, m['upd'], m['dk'])}
            if r_changed:
                stats['changed'] += 1
            for j, (a, b) in enumerate(zip(mf[dfield], prev_m[dfield])):
                sm = _sign(a - b)
                sr = _sign(rf[dfield][j] - prev_r[dfield][j])
                if sm != sr:
                    rel = abs(float(a - b)) / max(abs(float(a)), abs(float(b)), 1e-300)
                    if sm * sr < 0 or rel > 1e-12:
                        return {'step': i, 'why': 'direction of %s[%d]: model %+d real %+d' % (dfield, j, sm, sr)}
                if sr > 0:
                    stats['up'] += 1
                elif sr < 0:
                    stats['down'] += 1
            if not m['upd'] and r_changed and kind != 'ss':
                return {'step': i, 'why': 'real state changed although the model makes no update'}
        prev_m, prev_r = mf, rf
    return dict(ok=True, stats=stats)


# --------------------------------------------------------------------------
# correspondence cases
# --------------------------------------------------------------------------

def gen_corr_cases(seed, tier):
    """Every adaptive class x sub-variant x history x start step x jump interval."""
    rng = random.Random(seed * 1009 + 17)
    patterns = ['A', 'R', 'AR', 'random', 'smooth']
    cases = []
    reps = 1 if tier == 'quick' else 4
    for rep in range(reps):
        for fam in ADAPTIVE:
            for var in VARIANTS.get(fam, [None]):
                pats = list(patterns)
                if tier == 'quick':
                    # every family sees every pattern over the variants; two per (family, variant)
                    rng.shuffle(pats)
                    pats = pats[:2] if VARIANTS.get(fam) else pats
                for pat in pats:
                    lo, hi = F.FAMILIES[fam][2], F.FAMILIES[fam][3]
                    T = rng.randint(10, 60)
                    k = rng.choice([1, 3])
                    st = rng.choice([1, 1, rng.randint(2, 6)])
                    if F.FAMILIES[fam][0] in (P.AdaptiveBoundedDiscrete, P.AdaptiveNormalDiscrete):
                        pass
                    if fam.startswith('ss_'):
                        st = 1                       # Sivia-Skilling has no start_step argument
                    nsteps = min(k * (st + T) + rng.randint(3, 12), 260)
                    c = {'family': fam, 'variant': var, 'n': rng.randint(lo, hi), 'T': T,
                         'start_step': st, 'k': k, 'seed': rng.randrange(10 ** 6),
                         'model': pat, 'beta': 1.0, 'nsteps': nsteps}
                    c['id'] = 'adapt-%d' % len(cases)
                    cases.append(c)
    return cases


def correspondence(chk, tier):
    """Runs the suite; returns (divergences, coverage dict)."""
    cases = gen_corr_cases(chk.seed, tier)
    results = {}
    all_lines = []
    build_errors = []
    for c in cases:
        try:
            res = drive(c, c['nsteps'])
        except Exception as e:                           # noqa: BLE001
            build_errors.append({'case': c, 'exception': repr(e)[:300], 'traceback': traceback.format_exc()[-1500:]})
            continue
        results[c['id']] = res
        all_lines += res['lines']
    model = run_model(all_lines)
    divs = []
    agg = {}
    fams = {}
    kinds = {}
    nsteps = 0
    for c in cases:
        res = results.get(c['id'])
        if res is None:
            continue
        out = compare(c, res, model.get(c['id'], []))
        nsteps += len(res['real'])
        if not out.get('ok'):
            divs.append({'case': c, 'step': out['step'], 'why': out['why'],
                         'real_error': res['error'] and res['error']['exception']})
            continue
        for k_, v in out['stats'].items():
            agg[k_] = agg.get(k_, 0) + v
        fams[c['family']] = fams.get(c['family'], 0) + 1
        kinds[res['kind']] = kinds.get(res['kind'], 0) + 1
    for b in build_errors:
        divs.append({'case': b['case'], 'step': -1, 'why': 'real code raised while building/driving: ' + b['exception']})
    cov = {'cases': len(cases), 'steps': nsteps, 'divergences': len(divs), 'branches': agg,
           'families': fams, 'kinds': kinds,
           'histories': sorted({c['model'] for c in cases}),
           'jump_intervals': sorted({c['k'] for c in cases}),
           'start_steps': sorted({c['start_step'] for c in cases}),
           'windows': [min(c['T'] for c in cases), max(c['T'] for c in cases)]}
    if cases and results:
        c0 = cases[-1]
        r0 = results.get(c0['id'])
        if r0:
            chk.samples.append({'case': c0, 'protocol_head': r0['lines'][:4] + r0['lines'][-2:],
                                'model_tail': model.get(c0['id'], [])[-2:]})
    return divs, cov


# --------------------------------------------------------------------------
# draw counting (C14) -- a counting wrapper around the generator
# --------------------------------------------------------------------------

class Stall(Exception):
    pass


class _CountingGen:
    def __init__(self, gen, counter):
        self._g = gen
        self._c = counter

    def _tick(self):
        c = self._c
        c['n'] += 1
        c['jump'] += 1
        if c['jump'] > c['budget']:
            raise Stall('more than %d draws in one jump' % c['budget'])

    def normal(self, *a, **k):
        self._tick()
        return self._g.normal(*a, **k)

    def uniform(self, *a, **k):
        self._tick()
        return self._g.uniform(*a, **k)

    def random(self, *a, **k):
        self._tick()
        return self._g.random(*a, **k)

    def multivariate_normal(self, *a, **k):
        self._tick()
        return self._g.multivariate_normal(*a, **k)

    def __getattr__(self, name):
        return getattr(self._g, name)


class CountDraws:
    """`with CountDraws(prop, budget) as c:` counts generator draws made through `prop`."""

    def __init__(self, prop, budget=10 ** 5):
        self.prop = prop
        self.counter = {'n': 0, 'jump': 0, 'budget': budget}

    def __enter__(self):
        self._orig = pbase.BaseRandom.__dict__['random_generator']
        orig, prop, counter = self._orig, self.prop, self.counter

        def random_generator(self_):
            g = orig.fget(self_)
            if self_ is prop:
                return _CountingGen(g, counter)
            return g
        pbase.BaseRandom.random_generator = property(random_generator)
        return self.counter

    def __exit__(self, *exc):
        pbase.BaseRandom.random_generator = self._orig
        return False


# --------------------------------------------------------------------------
# C14 search: usability on flat / peaked bounded targets
# --------------------------------------------------------------------------

STALL_SINGLE = 10 ** 5         # draws in one jump
STALL_BLOCK = 10 ** 3          # mean draws per jump over a 100-step block


def _admissible(prop, kind):
    """Problems with the scale attributes, or []."""
    bad = []
    st = read_state(prop, kind)
    for name, vals in st.items():
        for v in vals:
            if not math.isfinite(v):
                bad.append('%s not finite (%r)' % (name, v))
                break
    if kind == 'veitch' and any(v < 0 for v in st['std']):
        bad.append('negative width')
    if kind == 'ss':
        if prop.isdiagonal and any(v <= 0 for v in st['vals']):
            bad.append('non-positive width')
    if kind == 'at':
        if prop.isdiagonal:
            if any(not v > 0 for v in st['scale']):
                bad.append('non-positive variance')
        else:
            w = numpy.linalg.eigvalsh(numpy.array(prop._cov, dtype=float))
            if w.min() < -1e-9 * max(abs(w).max(), 1e-300):
                bad.append('covariance not positive semidefinite (min eigenvalue %g)' % w.min())
    if kind == 'eig':
        w = numpy.linalg.eigvalsh(numpy.array(prop._cov, dtype=float))
        if w.min() < -1e-9 * max(abs(w).max(), 1e-300):
            bad.append('covariance not positive semidefinite (min eigenvalue %g)' % w.min())
        if any(v < 0 for v in st['eig']):
            bad.append('negative eigenvalue scale')
    if kind == 'vmf':
        # the normalisation is an internal derived quantity that legitimately underflows to 0.0
        # for kappa > 707.94 (the density uses the log-space form): only a negative one is wrong
        if not st['kappa'][0] > 0:
            bad.append('non-positive concentration')
        if st['norm'][0] < 0:
            bad.append('negative normalisation')
        lognorm = getattr(prop, '_lognormalisation', None)
        if lognorm is not None and not math.isfinite(float(lognorm(prop.kappa))):
            bad.append('log-normalisation not finite at kappa=%r' % float(prop.kappa))
    return bad


def usability_run(case):
    """One real run.  Returns dict(findings=[(key, text)], steps, max_draws, ...).  Never waits
    for a stalled jump: the counting generator raises once a jump exceeds the budget."""
    ch, prop, model, names, boxes = build(case)
    kind = kind_of(prop)
    fam = case['family']
    T = case['T']
    nsteps = case['nsteps']
    findings = []
    out = {'steps': 0, 'max_draws': 0, 'block_mean_max': 0.0, 'accepted': 0, 'kind': kind}
    with CountDraws(prop, STALL_SINGLE) as cnt:
        block = 0
        for it in range(nsteps):
            cnt['jump'] = 0
            n0 = cnt['n']
            try:
                ch.step()
            except Stall as e:
                out['max_draws'] = max(out['max_draws'], cnt['jump'])
                findings.append((stall_key(fam, kind, case, prop, boxes),
                                 '%s: %s at step %d (adaptation_duration %d, beta %g, %s target, start %s); scale %s' % (
                                     fam, e, it, T, case['beta'], case['model'], case.get('start', 'interior'),
                                     _scale_text(prop, kind))))
                break
            except Exception as e:                       # noqa: BLE001 - any exception is the finding
                tb = traceback.format_exc()
                findings.append((raise_key(fam, kind, e, tb, case),
                                 '%s: step %d raised %s (adaptation_duration %d, beta %g, %s target, start %s); scale %s' % (
                                     fam, it, repr(e)[:160], T, case['beta'], case['model'],
                                     case.get('start', 'interior'), _scale_text(prop, kind))))
                break
            d = cnt['n'] - n0
            out['max_draws'] = max(out['max_draws'], d)
            block += d
            out['steps'] += 1
            out['accepted'] += bool(ch.acceptance[-1]['accepted'])
            if block > STALL_BLOCK * 100:
                # the mean over this 100-step block exceeds the budget whatever the rest of it does
                out['block_mean_max'] = max(out['block_mean_max'], block / 100.0)
                findings.append((stall_key(fam, kind, case, prop, boxes),
                                 '%s: %d draws in steps %d-%d, a mean of more than %d per jump over the block '
                                 '(adaptation_duration %d, beta %g, %s target, start %s); scale %s' % (
                                     fam, block, it - it % 100, it, STALL_BLOCK, T, case['beta'], case['model'],
                                     case.get('start', 'interior'), _scale_text(prop, kind))))
                break
            if (it + 1) % 100 == 0:
                out['block_mean_max'] = max(out['block_mean_max'], block / 100.0)
                block = 0
                bad = _admissible(prop, kind)
                if bad:
                    findings.append(('inadmissible-scale:' + fam, '%s: %s at step %d' % (fam, '; '.join(bad), it)))
                    break
        else:
            bad = _admissible(prop, kind)
            if bad:
                findings.append(('inadmissible-scale:' + fam, '%s: %s after %d steps' % (fam, '; '.join(bad), nsteps)))
    out['findings'] = findings
    return out


def _scale_text(prop, kind):
    st = read_state(prop, kind)
    return ', '.join('%s=%s' % (k, ['%.4g' % v for v in vs[:4]]) for k, vs in st.items() if k not in ('mean', 'mu', 'ucov', 'cov'))


def stall_key(fam, kind, case, prop, boxes):
    if kind == 'eig' and case.get('start', 'interior') != 'interior':
        # F22 is geometric (a start on the boundary, the scale still comparable with the box);
        # a stall with a scale far beyond the box is the uncapped-scale mechanism
        width = max(b[1] - b[0] for b in boxes.values())
        if float(numpy.max(prop.eigvals)) < 10 * width:
            return 'bounded-eigenvector-corner-stall'
    if kind in ('at', 'eig'):
        return 'at-bounded-stall:' + fam
    return 'stall:' + fam


def raise_key(fam, kind, exc, tb, case):
    txt = repr(exc)
    if kind == 'vmf' and 'normalisation must be > 0' in txt:
        return 'vmf-overflow'
    if 'NaN acceptance' in txt and 'eigenvector' in fam and case.get('start') in ('corner', 'lo', 'hi'):
        return 'bounded-eigenvector-corner-nan'
    where = 'update' if '_update' in tb or 'in update' in tb else ('jump' if '_jump' in tb else 'step')
    return 'raises-in-%s:%s:%s' % (where, fam, type(exc).__name__)


def gen_usability_cases(seed, tier, full=False):
    rng = random.Random(seed * 7919 + 3)
    thorough = tier == 'thorough' or full
    durations = [30, 300, 1500] if not thorough else [30, 300, 3000, 30000]
    cases = []
    for fam in ADAPTIVE:
        variants = VARIANTS.get(fam, [None])
        for var in variants:
            for T in durations:
                if fam == 'adaptive_bounded_eigenvector':
                    # every draw of this class costs ~0.1 ms: keep the runs that can only end in the
                    # cut-off short (the scale-driven stall shows from T = 300 on)
                    T = {1500: 150, 3000: 300, 30000: 1000}.get(T, T) if not thorough else {30000: 1000}.get(T, T)
                for mk, beta in (('flat', 0.0), ('flat', 1e-3), ('peak', 1.0), ('smooth', 1.0), ('peak', 1e-3)):
                    if not thorough and (mk, beta) in (('peak', 1e-3),):
                        continue
                    if not thorough and T == 1500:
                        # the long quick runs: only where one-sided histories are known to matter
                        if (fam, var) not in (('at_adaptive_bounded_normal', 'global'), ('at_adaptive_angular', 'global'),
                                              ('adaptive_isotropic_solid_angle', None), ('adaptive_bounded_normal', None),
                                              ('adaptive_bounded_eigenvector', None)):
                            continue
                        if (mk, beta) not in (('flat', 0.0), ('peak', 1.0)):
                            continue
                    if fam.startswith('ss_') and T not in (durations[0], durations[1] if not thorough else durations[-2]):
                        continue                         # no window: T is only the run length
                    starts = ['interior']
                    if F.FAMILIES[fam][1] in ('box', 'intbox', 'angle') and T == durations[1]:
                        starts = ['interior', 'lo', 'hi', 'corner']
                    if fam == 'adaptive_bounded_eigenvector' and not thorough and T > 30:
                        starts = ['interior']
                        if (mk, beta) not in (('flat', 0.0), ('peak', 1.0)):
                            continue
                    for start in starts:
                        if mk == 'peak' and start != 'interior':
                            continue
                        lo, hi = F.FAMILIES[fam][2], F.FAMILIES[fam][3]
                        n = rng.randint(lo, hi) if T <= 300 else lo
                        nsteps = T + 60 if not fam.startswith('ss_') else T
                        c = {'family': fam, 'variant': var, 'n': n, 'T': T, 'start_step': 1, 'k': 1,
                             'seed': rng.randrange(10 ** 6), 'model': mk, 'beta': beta, 'start': start,
                             'nsteps': nsteps}
                        c['id'] = 'use-%d' % len(cases)
                        cases.append(c)
    # F22: bounded eigenvector families kept exactly on a corner of the box (a needle centred on the
    # corner rejects every move away from it): one with the corner at 0 (only the absolute tolerance of
    # the `isclose` band admits a draw), one with non-zero bounds (points in the relative band)
    for fam in ('adaptive_bounded_eigenvector',):
        for i in range(2 if not thorough else 8):
            doms = {'x0': [0.0, 1.3], 'x1': [-1.1, 0.0]} if i % 2 == 0 else {'x0': [-1.5, 1.0], 'x1': [-2.0, 0.7]}
            corner = {'x0': doms['x0'][0], 'x1': doms['x1'][1]}
            c = {'family': fam, 'variant': None, 'n': 2, 'T': 30, 'start_step': 1, 'k': 1,
                 'seed': rng.randrange(10 ** 6), 'model': 'peak', 'sharp': 1e-6, 'centre': corner, 'doms': doms,
                 'beta': 1.0, 'start': 'corner', 'nsteps': 60}
            c['id'] = 'use-%d' % len(cases)
            cases.append(c)
    return cases


def _usability_worker(case):
    numpy.seterr(all='ignore')
    t0 = time.time()
    try:
        out = usability_run(case)
    except Exception as e:                               # noqa: BLE001 - construction problems
        out = {'findings': [('harness-error:' + case['family'], repr(e)[:200] + traceback.format_exc()[-600:])],
               'steps': 0, 'max_draws': 0, 'block_mean_max': 0.0, 'accepted': 0, 'kind': '?'}
    out['case'] = case
    out['wall'] = time.time() - t0
    return out


class Background:
    """A worker pool started now, collected later (the correspondence runs meanwhile)."""

    def __init__(self, fn, items, procs=None):
        import multiprocessing as mp
        self.items = items
        self.fn = fn
        procs = procs or min(16, os.cpu_count() or 1, max(1, len(items)))
        self.pool = None
        if procs > 1 and len(items) > 1:
            self.pool = mp.get_context('fork').Pool(procs)
            self.res = self.pool.map_async(fn, items, chunksize=1)

    def get(self):
        if self.pool is None:
            return [self.fn(x) for x in self.items]
        try:
            return self.res.get()
        finally:
            self.pool.close()
            self.pool.join()


def pool_map(fn, items, procs=None):
    return Background(fn, items, procs).get()


class usability_search:
    """`h = usability_search(seed, tier)` starts the runs; `h.result()` -> (findings, coverage)."""

    def __init__(self, seed, tier, full=False):
        self.cases = gen_usability_cases(seed, tier, full)
        # long runs first so that the pool is balanced
        order = sorted(self.cases, key=lambda c: -c['nsteps'] * (20 if 'bounded_eigenvector' in c['family'] else 1))
        self.bg = Background(_usability_worker, order)

    def result(self):
        return _usability_collect(self.cases, self.bg.get())


def _usability_collect(cases, outs):
    findings = {}
    cov = {'runs': len(outs), 'steps': 0, 'max_draws_per_jump': 0, 'families': {}, 'targets': {},
           'durations': sorted({c['T'] for c in cases}), 'betas': sorted({c['beta'] for c in cases}),
           'starts': sorted({c.get('start', 'interior') for c in cases}), 'max_draws_by_family': {}}
    for o in outs:
        c = o['case']
        cov['steps'] += o['steps']
        cov['families'][c['family']] = cov['families'].get(c['family'], 0) + 1
        cov['targets'][c['model']] = cov['targets'].get(c['model'], 0) + 1
        cov['max_draws_per_jump'] = max(cov['max_draws_per_jump'], o['max_draws'])
        m = cov['max_draws_by_family']
        m[c['family']] = max(m.get(c['family'], 0), o['max_draws'])
        for key, text in o['findings']:
            # keep, per key, the smallest failing configuration
            if key not in findings or (c['T'], c['nsteps']) < (findings[key][1]['T'], findings[key][1]['nsteps']):
                findings[key] = (text, c)
    return findings, cov


# --------------------------------------------------------------------------
# C13 search: direction inside the window, bit-identical ever after
# --------------------------------------------------------------------------

def direction_run(case):
    """Forced always-accept / always-reject / alternating / random history on the real code.

    Oracle (from the property, not from the model):
      * always accepted: no scale component ever narrows, and after the window's updates the
        proposal is wider than at the start (kappa: smaller); always rejected: the reverse;
      * every single update moves the scale in the direction its own record dictates
        (Veitch: accepted flag; Andrieu-Thoms / eigenvector / vMF: acceptance ratio vs target;
        Sivia-Skilling: rate so far vs target, subject to the documented cap for widening);
      * after the window (all but Sivia-Skilling): all scale attributes bit-identical for ever;
      * an iteration at which the proposal did not jump never changes anything."""
    ch, prop, model, names, boxes = build(case)
    kind = kind_of(prop)
    fam = case['family']
    pat = case['model']
    T = int(getattr(prop, 'adaptation_duration', 0) or 0)
    k = prop.jump_interval
    findings = []
    out = {'steps': 0, 'updates': 0, 'post_window_steps': 0, 'kind': kind}
    init = read_state(prop, kind)
    prev = init
    prev_bytes = scale_bytes(prop, kind)
    frozen_bytes = None
    n_acc = 0
    xi = float(prop.target_rate)
    with CountDraws(prop, STALL_SINGLE) as cnt:
        for it in range(case['nsteps']):
            cnt['jump'] = 0
            dk = prop.nsteps - prop.start_step + 1
            jumped = bool(prop._call_jump())
            n_iter = prop.nsteps - (prop.start_step - 1) + 1
            try:
                ch.step()
            except (Stall, Exception) as e:              # noqa: BLE001 - usability is C14's subject
                out['cut'] = repr(e)[:120]
                break
            out['steps'] += 1
            cur = read_state(prop, kind)
            cur_bytes = scale_bytes(prop, kind)
            changed = cur_bytes != prev_bytes
            acc = bool(ch.acceptance[-1]['accepted'])
            ar = float(ch.acceptance['acceptance_ratio'][-1])
            n_acc += acc
            if changed:
                out['updates'] += 1
            if changed and not jumped:
                findings.append(('update-without-jump:' + fam,
                                 '%s: adaptive state changed at iteration %d although the proposal did not jump '
                                 '(jump_interval %d)' % (fam, it, k)))
                break
            if kind != 'ss':
                first = 1 if kind == 'veitch' else 2
                if changed and dk < first:
                    findings.append(('adapts-before-start:' + fam,
                                     '%s: scale attributes changed at iteration %d, proposal step %d, dk=%d: before the '
                                     'adaptation starts (start_step %d, jump_interval %d)' % (
                                         fam, it, prop.nsteps, dk, prop.start_step, k)))
                    break
                after = dk >= T
                if after:
                    out['post_window_steps'] += 1
                    if frozen_bytes is None:
                        frozen_bytes = prev_bytes
                    if cur_bytes != frozen_bytes:
                        findings.append(('adapts-after-window:' + fam,
                                         '%s: scale attributes changed at iteration %d, proposal step %d, dk=%d >= '
                                         'adaptation_duration=%d (start_step %d, jump_interval %d)' % (
                                             fam, it, prop.nsteps, dk, T, prop.start_step, k)))
                        break
            # direction of this update
            f = DIRECTION_FIELD[kind]
            want = 0
            if kind == 'veitch':
                want = +1 if acc else -1
            elif kind in ('at', 'eig'):
                want = _sign(ar - xi)
            elif kind == 'vmf':
                want = -_sign(ar - xi)
            elif kind == 'ss':
                rate = prop.n_accepted / n_iter if n_iter > 0 else 0.0
                want = _sign(rate - xi)
            comp = kind == 'at' and prop._iscomponentwise
            if changed and not comp:
                for j, (a, b) in enumerate(zip(cur[f], prev[f])):
                    # Sivia-Skilling rescales a full covariance: widening = larger in magnitude
                    s = _sign(abs(a) - abs(b)) if kind == 'ss' else _sign(a - b)
                    if s * want < 0:
                        findings.append(('wrong-direction:' + fam,
                                         '%s: %s[%d] moved %+d at iteration %d (dk=%d) where its record (accepted=%s, '
                                         'ar=%.4g, target %.3g) dictates %+d' % (fam, f, j, s, it, dk, acc, ar, xi, want)))
                        break
                if findings:
                    break
            prev, prev_bytes = cur, cur_bytes
    # the net effect of a sustained one-sided history
    one_sided = n_acc in (0, out['steps'])
    if not findings and pat in ('A', 'R') and one_sided and out['updates'] > 0 and 'cut' not in out:
        f = DIRECTION_FIELD[kind]
        widen = n_acc > 0
        sgn =(+1 if widen else -1) * (-1 if kind == 'vmf' else 1)
        comp = kind == 'at' and prop._iscomponentwise
        if not comp:
            for j, (a, b) in enumerate(zip(prev[f], init[f])):
                if (_sign(abs(a) - abs(b)) if kind == 'ss' else _sign(a - b)) * sgn < 0:
                    findings.append(('wrong-direction:' + fam,
                                     '%s: after an always-%s history %s[%d] went from %.6g to %.6g' % (
                                         fam, 'accepted' if widen else 'rejected', f, j, b, a)))
    if not findings and pat == 'R' and n_acc == 0 and kind == 'ss' and 'cut' not in out and out['steps'] >= 20:
        if all(a == b for a, b in zip(prev['vals'], init['vals'])):
            findings.append(('ss-cap-blocks-narrowing:' + fam,
                             '%s: %d always-rejected steps (rate 0 < target %.3g) left the scale at %s; '
                             'max_std=%.4g: the cap test `alpha*std.max() <= max_std` also blocks narrowing '
                             'when the scale is above max_std/alpha' % (
                                 fam, out['steps'], xi, ['%.4g' % v for v in init['vals'][:3]], prop.max_std)))
    out['findings'] = findings
    return out


def own_history_run(case):
    """A chain driven alone and the same chain driven interleaved with a second chain of the
    same class under a different history must adapt bit-identically."""
    ch1, p1, _, _, _ = build(case)
    kind = kind_of(p1)
    trace1 = []
    try:
        for _ in range(case['nsteps']):
            ch1.step()
            trace1.append(scale_bytes(p1, kind))
    except Exception:                                    # noqa: BLE001 - usability is C14's subject
        pass
    ch2, p2, _, _, _ = build(case)
    other = dict(case, seed=case['seed'] + 1, model='R' if case['model'] != 'R' else 'A')
    ch3, p3, _, _, _ = build(other)
    for i in range(len(trace1)):
        try:
            ch3.step()
        except Exception:                                # noqa: BLE001
            pass
        try:
            ch2.step()
        except Exception:                                # noqa: BLE001
            break
        if scale_bytes(p2, kind) != trace1[i]:
            return [('foreign-history:' + case['family'],
                     '%s: the adaptive state at iteration %d depends on whether another chain of the same '
                     'class is stepped in between' % (case['family'], i))]
    return []


def gen_direction_cases(seed, tier, full=False):
    rng = random.Random(seed * 6007 + 5)
    thorough = tier == 'thorough' or full
    cases = []
    for fam in ADAPTIVE:
        kind0 = F.FAMILIES[fam][1]
        loops = fam.startswith('at_adaptive_b') or fam.startswith('at_adaptive_ang') or fam == 'adaptive_bounded_eigenvector'
        for var in VARIANTS.get(fam, [None]):
            for pat in ('A', 'R', 'AR', 'random'):
                for (k, st) in ((1, 1), (3, 1), (1, 4), (3, 3)):
                    if not thorough and (k, st) == (3, 3) and pat in ('AR', 'random'):
                        continue
                    if fam.startswith('ss_') and st != 1:
                        continue
                    if thorough:
                        T = rng.choice([40, 400, 4000]) if not loops else rng.choice([40, 150, 400])
                        total = 20000 if (k, st) in ((1, 1), (3, 3)) and pat in ('A', 'R') else 6000
                        if loops and pat != 'R':
                            total = 3000
                    else:
                        T = rng.choice([25, 120]) if not loops else rng.choice([25, 80])
                        total = 500
                        if fam == 'adaptive_bounded_eigenvector':
                            T, total = rng.choice([25, 50]), 400        # ~0.1 ms per draw in its rejection loop
                    nsteps = max(total, k * (st + T) + 50)
                    if thorough:
                        nsteps = min(nsteps, 20000)
                    lo, hi = F.FAMILIES[fam][2], F.FAMILIES[fam][3]
                    c = {'family': fam, 'variant': var, 'n': rng.randint(lo, hi), 'T': T, 'start_step': st,
                         'k': k, 'seed': rng.randrange(10 ** 6), 'model': pat, 'beta': 1.0, 'nsteps': nsteps}
                    c['id'] = 'dir-%d' % len(cases)
                    cases.append(c)
    # the default-covariance Sivia-Skilling bounded normal on a narrow box
    c = {'family': 'ss_adaptive_bounded_normal', 'variant': 'default-cov', 'n': 1, 'T': 30, 'start_step': 1,
         'k': 1, 'seed': 4242, 'model': 'R', 'beta': 1.0, 'nsteps': 400, 'doms': {'x0': [0.0, 0.1]}}
    c['id'] = 'dir-%d' % len(cases)
    cases.append(c)
    return cases


def _direction_worker(case):
    numpy.seterr(all='ignore')
    t0 = time.time()
    try:
        out = direction_run(case)
        if case.get('own') and not out['findings']:
            out['findings'] += own_history_run(dict(case, nsteps=min(case['nsteps'], 150)))
    except Exception as e:                               # noqa: BLE001
        out = {'findings': [('harness-error:' + case['family'], repr(e)[:200] + traceback.format_exc()[-600:])],
               'steps': 0, 'updates': 0, 'post_window_steps': 0, 'kind': '?'}
    out['case'] = case
    out['wall'] = time.time() - t0
    return out


class direction_search:
    """`h = direction_search(seed, tier)` starts the runs; `h.result()` -> (findings, coverage)."""

    def __init__(self, seed, tier, full=False):
        cases = gen_direction_cases(seed, tier, full)
        self.seen = set()
        for c in cases:                     # one own-history probe per family
            if c['family'] not in self.seen and c['model'] == 'AR':
                c['own'] = True
                self.seen.add(c['family'])
        order = sorted(cases, key=lambda c: -c['nsteps'])
        self.bg = Background(_direction_worker, order)

    def result(self):
        return _direction_collect(self.seen, self.bg.get())


def _direction_collect(seen, outs):
    findings = {}
    cov = {'runs': len(outs), 'steps': 0, 'updates': 0, 'post_window_steps': 0, 'families': {},
           'cut_short': 0, 'own_history_probes': len(seen)}
    for o in outs:
        c = o['case']
        cov['steps'] += o['steps']
        cov['updates'] += o['updates']
        cov['post_window_steps'] += o['post_window_steps']
        cov['families'][c['family']] = cov['families'].get(c['family'], 0) + 1
        if 'cut' in o:
            cov['cut_short'] += 1
            cov.setdefault('cut_examples', []).append('%s/%s %s T=%d step %d: %s' % (
                c['family'], c['variant'], c['model'], c['T'], o['steps'], o['cut']))
        for key, text in o['findings']:
            if key not in findings or c['nsteps'] < findings[key][1]['nsteps']:
                findings[key] = (text, c)
    return findings, cov


def finding_family(key):
    """The proposal family a finding key is about."""
    if key == 'vmf-overflow':
        return 'adaptive_isotropic_solid_angle'
    if key.startswith('bounded-eigenvector-corner'):
        return 'adaptive_bounded_eigenvector'
    parts = key.split(':')
    return parts[1] if len(parts) > 1 else None


# --------------------------------------------------------------------------
# replay of a stored case
# --------------------------------------------------------------------------

def replay_case(d):
    """Re-run the input stored in a replay file.  Returns 1 if it still fails."""
    case = d.get('case')
    if not case:
        print('replay file carries no case:', d.get('how_to_replay') or d.get('no_longer_checks'))
        return 0
    what = d.get('search')
    if what == 'usability':
        out = usability_run(case)
    elif what == 'direction':
        out = direction_run(case)
        if case.get('own') and not out['findings']:
            out['findings'] += own_history_run(dict(case, nsteps=min(case['nsteps'], 150)))
    else:
        res = drive(case, case['nsteps'])
        model = run_model(res['lines'])
        cmp_ = compare(case, res, model.get(case['id'], []))
        if cmp_.get('ok'):
            print('model and real code agree on this case now')
            return 0
        print('DIVERGENCE at step %s: %s' % (cmp_['step'], cmp_['why']))
        return 1
    for key, text in out['findings']:
        print('FAILS [%s] %s' % (key, text))
    if not out['findings']:
        print('the stored input no longer fails')
    return 1 if out['findings'] else 0
