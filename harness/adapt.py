"""Suite `adapt`: the adaptive proposals of the REAL code against the Lean model
`EpsieModel.Adapt` (DriverAdapt.lean), and the failing-input searches of C13 / C14
on the real code (oracles from the property statements, independent of the model).

Real objects are built by `_construct` from the catalogue of families.py (default
constructor calls, the sub-variants the catalogue does not enumerate -- componentwise
Andrieu-Thoms, full-covariance Sivia-Skilling, default-covariance bounded
Sivia-Skilling -- and the variants `o:*` with the OPTIONAL constructor arguments at
non-default values) and driven one `Chain.step()` at a time; nothing in /repo is
touched, the only patches are instance attributes of harness-owned chains and, for
the draw counter, the class property `BaseRandom.random_generator` inside a `with`
block.  `_construct` also returns what the case CONFIGURES (clock, target rate, prior
widths, decay, initial widths / covariance, cap): the Lean model's inputs and the
oracles of the searches are taken from that, not read back from the object.
"""
import json
import math
import os
import random
import subprocess
import time
import traceback
from fractions import Fraction

import numpy

import common
from common import frac, csv
import families as F
import forcing
from epsie import proposals as P
from epsie.chain import Chain
from epsie.proposals import base as pbase
from epsie.proposals.normal import AdaptiveSupport, SSAdaptiveSupport, ATAdaptiveSupport
from epsie.proposals.eigenvector import AdaptiveEigenvectorSupport
from epsie.proposals.solid_angle import (AdaptiveIsotropicSolidAngleSupport, IsotropicSolidAngle)

TWO_PI = 2 * math.pi
ADAPTIVE = sorted(F.ADAPTIVE)          # the 16 adaptive classes
assert len(ADAPTIVE) == 16, ADAPTIVE

# sub-variants beyond the catalogue's default constructor call
VARIANTS = {
    'at_adaptive_normal': ['diag', 'full', 'diag+comp', 'full+comp'],
    'at_adaptive_bounded_normal': ['global', 'comp'],
    'at_adaptive_angular': ['global', 'comp'],
    'ss_adaptive_normal': ['diag', 'full', 'diag+cap'],
    'ss_adaptive_bounded_normal': ['given', 'default-cov'],
}

# the algorithm a family adapts with (decides which optional arguments it has)
ALGO = {}
for _f in ADAPTIVE:
    ALGO[_f] = ('ss' if _f.startswith('ss_') else 'at' if _f.startswith('at_') else
                'eig' if 'eigenvector' in _f else 'vmf' if 'solid_angle' in _f else 'veitch')

# variants `o:<tag>`: the OPTIONAL constructor arguments at non-default values (`case['opts']`, made by
# `gen_opts`).  Every optional argument the unchanged constructors accept and that reaches the adaptation:
#   Veitch            initial_std (per parameter, not proportional to the prior widths), target_rate,
#                     adaptation_decay (+ successive / prior widths, already varied by the default cases)
#   Sivia-Skilling    cov (scalar / per parameter / full matrix where allowed / default), max_cov, target_rate,
#                     jump_interval_duration (bounded, angular, discrete: diagonal cov only)
#   Andrieu-Thoms     target_rate, diagonal, componentwise (the constructors accept no cov / std)
#   eigenvector       cov0 (default / scalar / full matrix; a 1-d array is rejected), target_rate, shuffle_rate
#   solid angle       target_rate, radec, degs (kappa is fixed at 5 by the constructor)
OPT_VARIANTS = {}
for _f in ADAPTIVE:
    # Sivia-Skilling `o:target`: target_rate alone (the documented default cap of the bounded classes stays in force)
    OPT_VARIANTS[_f] = {'veitch': ['o:init', 'o:all', 'o:rate'], 'ss': ['o:rate', 'o:target'], 'eig': ['o:rate'],
                        'vmf': ['o:rate'], 'at': ['o:rate:global', 'o:rate:comp']}[ALGO[_f]]
OPT_VARIANTS['ss_adaptive_normal'] = ['o:rate', 'o:target', 'o:full']
OPT_VARIANTS['at_adaptive_normal'] = ['o:rate:full', 'o:rate:diag+comp']

# histories made of long runs of rejections (forced), and the needle targets that reject (almost) everything
REJECT_RUNS = ['R', 'RRRRRRRRRRRA', 'RRRRRA']


def add_resets(cases, seed, every, first, gap):
    """`Chain.reset_proposals()` before one or two iterations of every `every`-th case (all families; a
    generator of its own, so that the cases themselves stay what they are): the adaptation then restarts --
    initial scale, window and Sivia-Skilling count measured from `start_step = max(nsteps, 1)`."""
    rr = random.Random(seed * 977 + 13)
    for i, c in enumerate(cases):
        if i % every != 1 or c.get('centre'):
            continue
        r1 = rr.randint(*first)
        rs = [r for r in (r1, r1 + rr.randint(*gap)) if r < c['nsteps'] - 5]
        if rs:
            c['resets'] = rs
    return cases


def is_opt(case):
    return str(case.get('variant') or '').startswith('o:')


def gen_opts(fam, tag, rng, wide_decay=False):
    """Non-default values for the optional constructor arguments of `fam` (JSON-able, stored in the
    case; `build` turns them into constructor arguments).  tag: the part of the variant after `o:`."""
    r3 = lambda a, b: round(rng.uniform(a, b), 3)
    algo = ALGO[fam]
    o = {}
    if algo == 'veitch':
        xi = 0.234
        if tag in ('all', 'rate'):
            xi = o['target_rate'] = r3(0.12, 0.6)
            # adaptation_decay as a multiple of the default 1/log10(T); <= 1 keeps the gain positive over the
            # whole window (C13_gain_pos_veitch_decay); larger ones are used by the usability runs only
            o['decay_rel'] = r3(0.45, 0.95) if not (wide_decay and rng.random() < 0.5) else r3(1.05, 1.6)
        if tag in ('init', 'all'):
            # initial widths in units of the prior width, different per parameter: between a third and five
            # times the default 0.09 (1 - xi), except one that lies below the decrement of the first
            # rejection, 0.09 xi (so that the guard `newsigmas <= 0` fires for it alone)
            rel = [round(rng.uniform(0.3, 5.0) * 0.09 * (1 - xi), 5) for _ in range(3)]
            rel[rng.randrange(2)] = round(rng.uniform(0.02, 0.6) * 0.09 * xi, 6)
            o['initial_std_rel'] = rel
    elif algo == 'ss':
        o['target_rate'] = r3(0.12, 0.6)
        if tag == 'target':
            return o
        # the cap in units of the widest box (bounded kinds) / the largest initial width (unbounded kinds)
        o['max_std_rel'] = r3(0.4, 2.5)
        o['cov'] = 'full' if tag == 'full' else rng.choice(['diag', 'diag', 'scalar', 'default'])
        o['dur_rel'] = r3(0.3, 0.8)       # jump_interval_duration as a fraction of the case's T (if k != 1)
    elif algo == 'at':
        o['target_rate'] = r3(0.12, 0.6)
    elif algo == 'eig':
        o['target_rate'] = r3(0.12, 0.6)
        o['shuffle_rate'] = r3(0.05, 0.95)
        o['cov0'] = rng.choice(['spd', 'scalar', 'default'])
    elif algo == 'vmf':
        o['target_rate'] = r3(0.12, 0.6)
        o['radec'] = rng.random() < 0.5
        o['degs'] = rng.random() < 0.5
    return o


def kind_of(prop):
    if isinstance(prop, SSAdaptiveSupport):
        return 'ss'
    if isinstance(prop, ATAdaptiveSupport):
        return 'at'
    if isinstance(prop, AdaptiveEigenvectorSupport):
        return 'eig'
    if isinstance(prop, AdaptiveIsotropicSolidAngleSupport):
        return 'vmf'
    if isinstance(prop, AdaptiveSupport):
        return 'veitch'
    raise ValueError(type(prop))


# --------------------------------------------------------------------------
# harness models
# --------------------------------------------------------------------------

class BoxModel:
    """A target with bounded prior support: log-prior 0 inside the box, -inf outside.

    target: 'flat' (logl = 0), 'peak' (a needle: Gaussian of width `sharp` x box width
    about `centre`), 'smooth' (a broad Gaussian; gives fractional acceptance ratios), 'ridge' (very
    unequal widths: a needle of width `sharp` x box width in the first parameter, 0.05 x box width
    in the others -- the covariance a proposal learns from it is extremely ill-conditioned)."""

    def __init__(self, names, box, target='flat', centre=None, sharp=1e-4, sphere=False):
        self.names = list(names)
        self.box = dict(box)
        self.target = target
        self.sphere = sphere
        self.centre = centre or {p: 0.5 * (box[p][0] + box[p][1]) for p in names}
        w = 1.0 if target == 'smooth' else sharp
        self.scale = {p: w * (box[p][1] - box[p][0]) for p in names}
        if target == 'ridge':
            self.scale.update({p: 0.05 * (box[p][1] - box[p][0]) for p in self.names[1:]})

    def __call__(self, **kw):
        for p in self.names:
            lo, hi = self.box[p]
            if not lo <= kw[p] <= hi:
                return 0.0, -numpy.inf
        if self.target == 'flat':
            return 0.0, 0.0
        logl = 0.0
        for p in self.names:
            logl += -0.5 * ((kw[p] - self.centre[p]) / self.scale[p]) ** 2
        return logl, 0.0


class BoxedForcedModel(forcing.ForcedModel):
    """A forced history on a bounded support: proposals outside the box are rejected whatever the
    pattern says.  (Used for the unbounded adaptive eigenvector proposal, whose always-accepted
    histories on an unbounded domain run the covariance up doubly exponentially.)"""

    def __init__(self, pattern, names, half_width=50.0):
        super().__init__(pattern)
        self.names = list(names)
        self.half_width = half_width

    def __call__(self, **kw):
        if self.n > 0 and any(abs(kw[p]) > self.half_width for p in self.names):
            self.n += 1
            return 0.0, -numpy.inf
        return super().__call__(**kw)


def random_pattern(seed):
    rng = random.Random(seed)
    bits = [rng.random() < 0.5 for _ in range(4096)]
    return lambda step: bits[step % len(bits)]


# --------------------------------------------------------------------------
# building a real chain for a case description
# --------------------------------------------------------------------------

def _names(n):
    return ['x%d' % i for i in range(n)]


def prior_box(kind, dom):
    """The support of the harness prior for a parameter of the given kind."""
    if kind in ('box', 'intbox'):
        return (float(dom[0]), float(dom[1]))
    if kind == 'angle':
        return (0.0, TWO_PI)
    if kind == 'int':
        return (-6.0, 6.0)
    return (-2.0, 2.0)


def _construct(case, fam, names, doms, rng):
    """The real proposal of a case, and `conf`: every constant of its adaptation as the case CONFIGURES it
    (explicit argument, or the documented default) -- computed from the case alone, never read back from the
    object.  The model's inputs (`header_lines`) and the oracles of the searches come from `conf`."""
    cls, kind, _, _ = F.FAMILIES[fam]
    n = len(names)
    T, st, k = case['T'], case.get('start_step', 1), case.get('k', 1)
    var = case.get('variant') or ''
    o = dict(case.get('opts') or {}) if var.startswith('o:') else {}
    algo = ALGO[fam]
    jkw = {'jump_interval': k} if k != 1 else {}
    conf = {'algo': algo, 'T': T, 'st': st, 'k': k, 'dur': T if k != 1 else 0, 'n': n}
    bnds = {p: doms[p] for p in names} if kind in ('box', 'intbox') else None
    successive = {p: rng.random() < 0.5 for p in names} if kind in ('int', 'intbox') else None
    skw = {'successive': successive} if successive is not None else {}
    if (case.get('opts') or {}).get('successive') == 'default':
        skw = {}                         # the class default: no parameter may repeat its value
    # what the class documents as the prior width of a parameter
    if kind == 'box':
        widths = [abs(doms[p][1] - doms[p][0]) for p in names]
    elif kind == 'intbox':
        widths = [float(math.ceil(doms[p][1]) - math.floor(doms[p][0])) for p in names]
    elif kind in ('angle', 'sphere'):
        widths = [TWO_PI] * n
    elif kind == 'int':
        widths = [round(rng.uniform(4, 9), 3) for _ in names]
    else:
        widths = [round(rng.uniform(1, 4), 3) for _ in names]
    if kind in ('real', 'int') and (case.get('opts') or {}).get('prior_widths'):
        widths = [float(w) for w in case['opts']['prior_widths']][:n]
    if algo == 'veitch':
        xi = float(o.get('target_rate', 0.234))
        akw = {}
        if 'target_rate' in o:
            akw['target_rate'] = xi
        decay = None
        if 'decay_rel' in o:
            decay = akw['adaptation_decay'] = float(o['decay_rel']) / math.log10(T)
        init = None
        if 'initial_std_rel' in o:
            init = [float(r) * w for r, w in zip(o['initial_std_rel'], widths)]
            akw['initial_std'] = numpy.array(init, dtype=float)
        if st != 1:
            akw['start_step'] = st
        if fam in ('adaptive_normal', 'adaptive_discrete'):
            prop = cls(names, dict(zip(names, widths)), T, **skw, **jkw, **akw)
        elif fam in ('adaptive_bounded_normal', 'adaptive_bounded_discrete'):
            prop = cls(names, bnds, T, **skw, **jkw, **akw)
        else:
            prop = cls(names, T, **jkw, **akw)
        conf.update(xi=xi, deltas=widths, decay=decay, init=init)
    elif algo == 'ss':
        ckw = {}
        cov = [round(rng.uniform(0.05, 0.6), 3) for _ in names]
        if kind in ('int', 'intbox'):
            cov = [round(rng.uniform(0.6, 4.0), 2) for _ in names]
        full = None
        xi = float(o.get('target_rate', 0.234))
        max_cov = None
        if o:
            ckw['target_rate'] = xi
            how = o.get('cov', 'diag')
            if how == 'full' and n >= 2:
                full = F._spd(n, rng)
            elif how == 'scalar':
                cov = [cov[0]] * n
            elif how == 'default':
                cov = None
            if kind in ('box', 'intbox', 'angle'):
                scale0 = max(widths)
            elif full is not None:
                scale0 = float(numpy.max(numpy.diag(full))) ** 0.5
            else:
                scale0 = 1.0 if cov is None else max(cov) ** 0.5
            if 'max_std_rel' in o:
                max_cov = ckw['max_cov'] = (float(o['max_std_rel']) * scale0) ** 2
            if k != 1:
                conf['dur'] = max(2, int(round(float(o.get('dur_rel', 1.0)) * T)))
        elif var == 'full' and n >= 2:
            full = F._spd(n, rng)
        elif var == 'diag+cap':
            max_cov = ckw['max_cov'] = round(rng.uniform(0.7, 2.0), 2)
        elif var == 'default-cov':
            cov = None
        if k != 1:
            jkw['jump_interval_duration'] = conf['dur']
        arg = full if full is not None else (cov if (cov is None or o.get('cov') != 'scalar') else cov[0])
        if bnds is not None:
            prop = cls(names, bnds, cov=arg, **skw, **jkw, **ckw)
        else:
            prop = cls(names, cov=arg, **skw, **jkw, **ckw)
        if max_cov is None and kind in ('box', 'intbox', 'angle'):
            max_cov = (1.49 * max(widths)) ** 2        # the documented default cap of the bounded classes
        conf.update(xi=xi, diag=full is None, max_cov=max_cov,
                    cov=[list(map(float, r)) for r in full] if full is not None else (
                        [1.0] * n if cov is None else [float(c) for c in cov]))
    elif algo == 'at':
        flags = var.split(':')[-1] if var else ''
        comp = 'comp' in flags
        diag = 'diag' in flags if fam == 'at_adaptive_normal' else True
        akw = {}
        if 'target_rate' in o:
            akw['target_rate'] = float(o['target_rate'])
        if fam == 'at_adaptive_normal':
            prop = cls(names, T, diagonal=diag, componentwise=comp, start_step=st, **jkw, **akw)
        elif fam == 'at_adaptive_bounded_normal':
            prop = cls(names, bnds, T, componentwise=comp, start_step=st, **jkw, **akw)
        else:
            prop = cls(names, T, componentwise=comp, start_step=st, **jkw, **akw)
        conf.update(xi=float(o.get('target_rate', 0.48 if comp else 0.234)), comp=comp, diag=diag)
    elif algo == 'eig':
        akw = {}
        how = o.get('cov0', 'spd')
        if how == 'spd':
            cov0 = F._spd(n, rng)
            akw['cov0'] = cov0
        elif how == 'scalar':
            s = round(rng.uniform(0.02, 0.5), 3)
            cov0 = numpy.eye(n) * s
            akw['cov0'] = s
        else:
            cov0 = numpy.eye(n)
        for key in ('target_rate', 'shuffle_rate'):
            if key in o:
                akw[key] = float(o[key])
        if bnds is not None:
            prop = cls(names, bnds, T, start_step=st, **jkw, **akw)
        else:
            prop = cls(names, T, start_step=st, **jkw, **akw)
        conf.update(xi=float(o.get('target_rate', 0.234)), cov0=[list(map(float, r)) for r in cov0])
    else:
        akw = {key: o[key] for key in ('target_rate', 'radec', 'degs') if key in o}
        prop = cls(names[0], names[1], T, start_step=st, **jkw, **akw)
        conf.update(xi=float(o.get('target_rate', 0.234)), radec=bool(o.get('radec')), degs=bool(o.get('degs')))
    return prop, conf


def build(case):
    """case: dict(family, variant, opts, n, T, start_step, k, seed, model=..., beta, start).

    Returns (chain, proposal, model, names, boxes)."""
    return build_ex(case)[:5]


def build_ex(case):
    """`build` plus the configured constants: (chain, proposal, model, names, boxes, conf)."""
    fam = case['family']
    cls, kind, lo, hi = F.FAMILIES[fam]
    n = case.get('n') or lo
    n = max(lo, min(hi, n))
    rng = random.Random(case['seed'])
    names = _names(n)
    doms = {p: F.domain_for(kind, rng, i) for i, p in enumerate(names)}
    if case.get('doms'):
        doms = {p: tuple(case['doms'][p]) for p in names}
    prop, conf = _construct(case, fam, names, doms, rng)
    boxes = {p: prior_box(kind, doms[p]) for p in names}
    if kind == 'sphere':
        # the class's conventions: polar angle on [0, pi], or [-pi/2, pi/2] with radec; degrees with degs
        f = 180.0 / math.pi if conf.get('degs') else 1.0
        off = -math.pi / 2 if conf.get('radec') else 0.0
        boxes = {names[0]: (0.0, TWO_PI * f), names[1]: (off * f, (math.pi + off) * f)}
    mk = case.get('model', 'A')
    if mk in ('flat', 'peak', 'smooth', 'ridge'):
        centre = None
        if case.get('centre'):
            centre = dict(case['centre'])
        elif mk in ('peak', 'ridge'):
            centre = {p: boxes[p][0] + rng.uniform(0.3, 0.7) * (boxes[p][1] - boxes[p][0]) for p in names}
            if kind in ('int', 'intbox'):
                centre = {p: float(round(v)) for p, v in centre.items()}
        model = BoxModel(names, boxes, mk, centre=centre, sharp=case.get('sharp', 1e-4))
    else:
        pat = random_pattern(case['seed'] * 31 + 7) if mk == 'random' else mk
        if fam == 'adaptive_eigenvector':
            model = BoxedForcedModel(pat, names)
        else:
            model = forcing.ForcedModel(pat)
    ch = Chain(names, model, [prop], bit_generator=case['seed'] % (2 ** 31) + 11,
               beta=case.get('beta', 1.0))
    where = case.get('start', 'interior')
    start = {}
    for i, p in enumerate(names):
        b = boxes[p]
        if where == 'interior':
            if isinstance(model, BoxModel) and model.target in ('peak', 'ridge'):
                v = model.centre[p]
            elif kind == 'sphere':
                v = F.start_value(kind, doms[p], rng, i)
                v = (v + (off if i == 1 else 0.0)) * f
            else:
                v = F.start_value(kind, doms[p], rng, 0)
        elif where == 'lo':
            v = b[0]
        elif where == 'hi':
            v = b[1]
        elif where == 'corner':
            v = b[0] if i % 2 == 0 else b[1]
        else:
            raise ValueError(where)
        if kind in ('int', 'intbox'):
            # an integer inside the harness prior's box (the declared bounds need not be integers)
            v = min(max(int(round(v)), math.ceil(b[0])), math.floor(b[1]))
        if kind == 'sphere' and where != 'interior':
            # the poles are C12's subject (F17); stay a little inside
            v = min(max(v, b[0] + 1e-3 * f), b[1] - 1e-3 * f)
        start[p] = v
    ch.start_position = start
    return ch, prop, model, names, boxes, conf


# --------------------------------------------------------------------------
# reading the adaptive state of a real proposal
# --------------------------------------------------------------------------

def read_state(prop, kind):
    """dict field -> flat list of floats (copies)."""
    a = lambda v: [float(x) for x in numpy.array(v, dtype=float).ravel()]
    if kind == 'veitch':
        return {'std': a(prop._std)}
    if kind == 'ss':
        return {'nacc': [float(prop.n_accepted)],
                'vals': a(prop._std if prop.isdiagonal else prop._cov)}
    if kind == 'at':
        return {'lam': a(numpy.atleast_1d(prop._log_lambda)), 'mean': a(prop._mean),
                'ucov': a(prop._unit_cov),
                'scale': a(prop._std ** 2 if prop.isdiagonal else prop._cov)}
    if kind == 'eig':
        return {'lam': [float(prop._log_lambda)], 'mu': a(prop._mu), 'cov': a(prop._cov),
                'eig': a(prop.eigvals)}
    if kind == 'vmf':
        return {'lk': [float(prop._log_kappa)], 'kappa': [float(prop.kappa)],
                'norm': [float(prop.norm)]}
    raise ValueError(kind)


DIRECTION_FIELD = {'veitch': 'std', 'ss': 'vals', 'at': 'lam', 'eig': 'lam', 'vmf': 'lk'}


def scale_bytes(prop, kind):
    """Bit-exact image of everything that defines the proposal distribution."""
    items = []
    names = {'veitch': ['_std'], 'ss': ['_std', '_cov', 'n_accepted'],
             'at': ['_std', '_cov', '_log_lambda', '_mean', '_unit_cov'],
             'eig': ['_cov', '_mu', '_log_lambda', '_eigvals', '_eigvects'],
             'vmf': ['_log_kappa', '_kappa', '_norm']}[kind]
    for nm in names:
        v = getattr(prop, nm, None)
        if v is None:
            continue
        items.append((nm, numpy.array(v, dtype=float).tobytes()))
    return tuple(items)


class Tap:
    """Logs, per `Chain.step`, the model evaluations and acceptance ratios the step computed
    (the componentwise Andrieu-Thoms update evaluates one virtual move per parameter)."""

    def __init__(self, chain):
        self.calls = []
        model = chain.model
        orig_ar = chain._acceptance_ratio

        def tapped_model(**kw):
            r = model(**kw)
            self.calls.append(('M', float(r[1])))
            return r

        def tapped_ar(*a, **k):
            r = orig_ar(*a, **k)
            self.calls.append(('A', float(r[1])))
            return r
        chain.model = tapped_model
        chain._acceptance_ratio = tapped_ar

    def take_virtual(self, n):
        """Acceptance ratios of the n virtual moves of the last step, or None."""
        calls, self.calls = self.calls, []
        i = 1
        if calls and calls[0][1] != -numpy.inf:
            i = 2                       # the step's own ratio
        out = []
        while i < len(calls) and len(out) < n:
            tag, v = calls[i]
            if tag != 'M':
                return None
            if v == -numpy.inf:
                out.append(0.0)
                i += 1
            else:
                if i + 1 >= len(calls) or calls[i + 1][0] != 'A':
                    return None
                out.append(calls[i + 1][1])
                i += 2
        return out if len(out) == n else None


# --------------------------------------------------------------------------
# protocol
# --------------------------------------------------------------------------

def _mat(rows):
    return ';'.join(csv(r) for r in rows)


def header_lines(case_id, prop, kind, nsteps, conf=None):
    """`case` / `clock` / `fam` / oracle tables for a freshly built proposal.

    With `conf` (always, from `drive`): every constant the case configures -- clock, target rate, prior
    widths, decay, initial widths / covariance, cap -- is taken from the configuration; the live object
    supplies only what the constructor fixes by itself (Andrieu-Thoms / eigenvector zero mean, kappa = 5)."""
    if conf is None:
        conf = conf_of_live(prop, kind)
    T, k, dur, st = conf['T'], conf['k'], conf['dur'], conf['st']
    if kind == 'ss':
        T = 0                               # no window; the case's T is only the run length
    win = {'veitch': 'veitch', 'ss': 'ss'}.get(kind, 'at')
    out = ['case ' + case_id,
           'clock k=%d dur=%d win=%s T=%d st=%d' % (k, dur, win, T, st)]
    xi = frac(conf['xi'])
    if kind == 'veitch':
        init = 'default' if conf['init'] is None else csv(conf['init'])
        out.append('fam veitch xi=%s deltas=%s std=%s' % (xi, csv(conf['deltas']), init))
        decay = conf['decay']
        if decay is None:
            decay = 1. / numpy.log10(T)     # the documented default
        for dk in range(1, T + 3):
            out.append('gainv %d %s %s' % (dk, frac(dk ** (-decay) - float(T) ** (-decay)), frac(float(T) ** (-decay))))
    elif kind == 'ss':
        diag = bool(conf['diag'])
        cov = numpy.array(conf['cov'], dtype=float).ravel()
        vals = cov ** 0.5 if diag else cov
        mc = conf['max_cov']
        if mc is None:
            capt = 'cap=inf'
        else:
            cap = mc ** 0.5
            capt = 'cap=%s maxcov=%s' % (frac(cap if diag else cap ** 2), frac(mc))
        out.append('fam ss diag=%d xi=%s %s vals=%s cov=%s' % (diag, xi, capt, csv(vals), csv(cov)))
        for n in range(1, nsteps + 3):
            up, down = numpy.exp(1 / n), numpy.exp(-1 / n)
            if diag:
                up, down = up ** 0.5, down ** 0.5
            out.append('ssa up %d %s' % (n, frac(up)))
            out.append('ssa down %d %s' % (n, frac(down)))
    else:
        if kind == 'at':
            out.append('fam at xi=%s comp=%d diag=%d n=%d' % (xi, bool(conf['comp']), bool(conf['diag']), conf['n']))
        elif kind == 'eig':
            cov0 = numpy.array(conf['cov0'], dtype=float)
            out.append('fam eig xi=%s tol=%s mu=%s cov=%s eig=%s' % (
                xi, frac(1e-12), csv(prop._mu), _mat(cov0), csv(numpy.linalg.eigh(cov0)[0])))
        else:
            out.append('fam vmf xi=%s lk=%s kappa=%s norm=%s' % (
                xi, frac(prop._log_kappa), frac(prop.kappa), frac(prop.norm)))
        c = float(T) ** (-0.6)
        for dk in range(1, T + 3):
            out.append('gain %d %s %s' % (dk, frac(dk ** (-0.6) - c), frac(c)))
    return out


def conf_of_live(prop, kind):
    """The configuration as far as it can be read back from a live object (replays of cases stored by
    older versions of this file; not used by the suite)."""
    k = prop.jump_interval
    conf = {'algo': kind, 'T': int(getattr(prop, 'adaptation_duration', 0) or 0), 'k': k,
            'dur': int(prop.jump_interval_duration or 0) if k != 1 else 0, 'st': prop.start_step,
            'xi': float(prop.target_rate), 'n': len(prop.parameters)}
    if kind == 'veitch':
        conf.update(deltas=[float(d) for d in prop.deltas], decay=float(prop.adaptation_decay),
                    init=[float(s) for s in prop._std])
    elif kind == 'ss':
        diag = bool(prop.isdiagonal)
        conf.update(diag=diag, max_cov=None if numpy.isinf(prop.max_std) else float(prop.max_std) ** 2,
                    cov=[float(v) for v in (prop._std ** 2 if diag else prop._cov.ravel())])
    elif kind == 'at':
        conf.update(comp=bool(prop._iscomponentwise), diag=bool(prop.isdiagonal))
    elif kind == 'eig':
        conf.update(cov0=[list(map(float, r)) for r in prop._cov])
    return conf


def step_line(chain, prop, kind, tap):
    """The `step` line for the step the real chain has just made (oracles from numpy)."""
    acc = bool(chain.acceptance[-1]['accepted'])
    ar = float(chain.acceptance['acceptance_ratio'][-1])
    toks = ['step', 'acc=%d' % acc]
    if kind in ('at', 'eig', 'vmf'):
        toks.append('ar=' + frac(ar))
    if kind in ('at', 'eig'):
        toks.append('x=' + csv(chain.current_position[p] for p in prop.parameters))
    if kind == 'at':
        virt = tap.take_virtual(prop.ndim) if prop._iscomponentwise else None
        if virt is not None:
            toks.append('vars=' + csv(virt))
        sl = numpy.broadcast_to(numpy.exp(numpy.atleast_1d(prop._log_lambda)) ** 0.5, (prop.ndim,))
        toks.append('sl=' + csv(sl))
    if kind == 'eig':
        toks.append('w=' + csv(numpy.linalg.eigh(prop._cov)[0]))
        toks.append('el=' + frac(numpy.exp(prop._log_lambda)))
    if kind == 'vmf':
        ek = float(numpy.exp(prop._log_kappa))
        nm = float(IsotropicSolidAngle._normalisation(ek))
        if not math.isfinite(ek):
            ek, nm = 0.0, 0.0          # exp overflowed: the real setters raise; so does the model on ek = 0
        elif math.isnan(nm):
            nm = -1.0                  # a NaN normalisation fails the setter's `>= 0` test like a negative one
        toks.append('ek=' + frac(ek))
        toks.append('nm=' + frac(nm))
    tap.calls = []
    return ' '.join(toks)


def drive(case, nsteps):
    """Run the real chain `nsteps` steps.  Returns dict(lines, real=[...], kind, error)."""
    ch, prop, model, names, boxes, conf = build_ex(case)
    kind = kind_of(prop)
    if kind != conf['algo']:
        raise RuntimeError('%s is a %s proposal, configured as %s' % (case['family'], kind, conf['algo']))
    tap = Tap(ch)
    lines = header_lines(case['id'], prop, kind, nsteps, conf)
    real = []
    with CountDraws(prop, STALL_SINGLE) as cnt:      # a jump that does not return is cut off (Stall), not waited for
        _drive_steps(ch, prop, kind, tap, nsteps, lines, real, cnt, set(case.get('resets') or ()))
    err = real[-1].get('error') if real and real[-1].get('raise') else None
    return {'lines': lines, 'real': real, 'kind': kind, 'error': err,
            'init': None, 'T': conf['T']}


def _drive_steps(ch, prop, kind, tap, nsteps, lines, real, cnt, resets=()):
    for it in range(nsteps):
        if it in resets:
            ch.reset_proposals()
            lines.append('reset')
        pre = {'raw': prop._nsteps, 'nsteps': prop.nsteps,
               'dk': prop.nsteps - prop.start_step + 1, 'jump': bool(prop._call_jump())}
        tap.calls = []
        cnt['jump'] = 0
        try:
            ch.step()
        except (Stall, Exception) as e:              # noqa: BLE001 - recorded, compared with the model
            err = {'step': it, 'exception': repr(e)[:300], 'traceback': traceback.format_exc()[-1500:]}
            # the model needs the oracle values of the failed update to decide the same
            try:
                lines.append(step_line(ch, prop, kind, tap))
            except Exception:                        # noqa: BLE001
                lines.append('step acc=0')
            real.append({'pre': pre, 'raise': True, 'error': err})
            break
        lines.append(step_line(ch, prop, kind, tap))
        state = read_state(prop, kind)
        if any(not abs(v) < 1e60 for vs in state.values() for v in vs):
            # outside the well-conditioned range in which values are compared (an always-accepted
            # history on an unbounded domain can run any scale up without limit); stop here
            lines.pop()
            break
        real.append({'pre': pre, 'state': state, 'raw': prop._nsteps, 'reset': it in resets,
                     'acc': bool(ch.acceptance[-1]['accepted']),
                     'ar': float(ch.acceptance['acceptance_ratio'][-1])})


def _run_model_one(lines, timeout):
    p = subprocess.run(['lake', 'env', 'lean', '--run', 'DriverAdapt.lean'], cwd=common.LEAN_DIR,
                       input='\n'.join(lines) + '\n', stdout=subprocess.PIPE,
                       stderr=subprocess.PIPE, text=True, timeout=timeout)
    if p.returncode != 0:
        raise RuntimeError('Lean adapt driver failed: ' + p.stderr[-2000:])
    return p.stdout


def run_model(all_lines, timeout=3600, procs=8):
    """The Lean model's answers, per case id.  The cases are independent (a `case` line resets the
    driver), so they are dealt out to a few driver processes by size."""
    blocks = []
    for ln in all_lines:
        if ln.startswith('case ') or not blocks:
            blocks.append([])
        blocks[-1].append(ln)
    procs = max(1, min(procs, len(blocks) // 8 or 1, os.cpu_count() or 1))
    bins = [[0, []] for _ in range(procs)]
    for b in sorted(blocks, key=len, reverse=True):
        tgt = min(bins, key=lambda x: x[0])
        # the cost of a case grows faster than its length (the rationals grow along a run)
        tgt[0] += len(b) ** 1.5
        tgt[1] += b
    if procs == 1:
        outs = [_run_model_one(bins[0][1], timeout)]
    else:
        from concurrent.futures import ThreadPoolExecutor
        with ThreadPoolExecutor(procs) as ex:
            outs = list(ex.map(lambda b: _run_model_one(b[1], timeout), bins))
    cases = {}
    for out in outs:
        cur = None
        for ln in out.splitlines():
            if ln.startswith('case '):
                cur = ln[5:].strip()
                cases[cur] = []
            elif cur is not None:
                cases[cur].append(ln)
    return cases


def parse_model_line(ln):
    """`st raw=.. upd=.. dk=.. ev=.. amb=.. field=..` -> dict."""
    toks = ln.split(' ')
    out = {'tag': toks[0], 'fields': {}}
    if toks[0] != 'st':
        out['text'] = ln
        return out
    for t in toks[1:]:
        k, v = t.split('=', 1)
        if k in ('raw', 'upd', 'dk', 'ev', 'amb'):
            out[k] = int(v)
            continue
        if k == 'nacc':
            out['fields']['nacc'] = [Fraction(v)]
            continue
        if v[:2] in ('g:', 'c:', 'd:', 'f:'):
            v = v[2:]
        vals = []
        for row in v.split(';'):
            if row in ('-', ''):
                continue
            vals += [Fraction(x) for x in row.split(',')]
        out['fields'][k] = vals
    return out


def _close(real, model, scale):
    m = float(model)
    if not math.isfinite(real):
        return False
    return abs(real - m) <= 1e-9 * max(abs(m), abs(real)) + 1e-12 * scale


def _sign(x):
    return (x > 0) - (x < 0)


def compare(case, res, mlines):
    """First disagreement between the real run and the model's answers, or None.

    Exact: which steps raised, the `_nsteps` counter, whether the adaptive state changed at
    a step and the direction of the change of every scale component.  Values: rel. 1e-9."""
    kind = res['kind']
    real = res['real']
    prev_m = None
    prev_r = None
    dfield = DIRECTION_FIELD[kind]
    stats = {'upd': 0, 'noupd_before': 0, 'noupd_after': 0, 'noupd_nojump': 0, 'changed': 0,
             'up': 0, 'down': 0, 'raise': 0, 'amb': 0}
    for i, r in enumerate(real):
        if i >= len(mlines):
            return {'step': i, 'why': 'model stopped: ' + (mlines[-1] if mlines else '<no output>')}
        m = parse_model_line(mlines[i])
        if r.get('raise'):
            stats['raise'] += 1
            if m['tag'] != 'raise':
                return {'step': i, 'why': 'real code raised %s; model: %s' % (
                    res['error']['exception'], mlines[i] if i < len(mlines) else '<missing>')}
            return dict(ok=True, stats=stats)
        if m['tag'] != 'st':
            return {'step': i, 'why': 'real code stepped; model: ' + m.get('text', m['tag'])}
        if m.get('amb'):
            stats['amb'] += 1
            return dict(ok=True, stats=stats)     # a guard within 2^-40 of its threshold: stop comparing
        if m['raw'] != r['raw']:
            return {'step': i, 'why': '_nsteps: model %d real %d' % (m['raw'], r['raw'])}
        if m['dk'] != r['pre']['dk']:
            return {'step': i, 'why': 'dk: model %d real %d' % (m['dk'], r['pre']['dk'])}
        if m['upd']:
            stats['upd'] += 1
        elif not r['pre']['jump']:
            stats['noupd_nojump'] += 1
        elif r['pre']['dk'] <= 1:
            stats['noupd_before'] += 1
        else:
            stats['noupd_after'] += 1
        if m['upd'] and not r['pre']['jump']:
            return {'step': i, 'why': 'model updates at an iteration where the real proposal did not jump'}
        mf, rf = m['fields'], r['state']
        # values
        for name, rv in rf.items():
            if name not in mf:
                return {'step': i, 'why': 'model printed no field %s' % name}
            mv = mf[name]
            if len(mv) != len(rv):
                return {'step': i, 'why': 'field %s: %d model values, %d real' % (name, len(mv), len(rv))}
            scale = max([abs(float(x)) for x in mv] + [1e-300])
            for j, (a, b) in enumerate(zip(rv, mv)):
                if not _close(a, b, scale):
                    return {'step': i, 'why': 'field %s[%d]: model %.17g real %.17g' % (name, j, float(b), a)}
        # which steps changed, and which way (not across a reset: both sides jump back to the initial state)
        if r.get('reset'):
            stats['resets'] = stats.get('resets', 0) + 1
        if prev_m is not None and not r.get('reset'):
            m_changed = any(mf[k] != prev_m[k] for k in mf if k != 'scale')
            r_changed = any(rf[k] != prev_r[k] for k in rf if k != 'scale')
            if m_changed != r_changed:
                # a change below float resolution is not a disagreement
                big = False
                for k in mf:
                    if k == 'scale':
                        continue
                    for a, b in zip(mf[k], prev_m[k]):
                        if a != b and abs(float(a - b)) > 1e-13 * max(abs(float(a)), abs(float(b)), 1e-300):
                            big = True
                if big or r_changed:
                    return {'step': i, 'why': 'adaptive state changed: model %s real %s (upd=%d dk=%d)' % (
                        m_changed, r_changed, m['upd'], m['dk'])}
            if r_changed:
                stats['changed'] += 1
            for j, (a, b) in enumerate(zip(mf[dfield], prev_m[dfield])):
                sm = _sign(a - b)
                sr = _sign(rf[dfield][j] - prev_r[dfield][j])
                if sm != sr:
                    rel = abs(float(a - b)) / max(abs(float(a)), abs(float(b)), 1e-300)
                    if sm * sr < 0 or rel > 1e-12:
                        return {'step': i, 'why': 'direction of %s[%d]: model %+d real %+d' % (dfield, j, sm, sr)}
                if sr > 0:
                    stats['up'] += 1
                elif sr < 0:
                    stats['down'] += 1
            if not m['upd'] and r_changed and kind != 'ss':
                return {'step': i, 'why': 'real state changed although the model makes no update'}
        prev_m, prev_r = mf, rf
    return dict(ok=True, stats=stats)


# --------------------------------------------------------------------------
# correspondence cases
# --------------------------------------------------------------------------

def gen_corr_cases(seed, tier):
    """Every adaptive class x sub-variant x history x start step x jump interval, then every adaptive class
    x optional-argument variant (`o:*`, n >= 2 parameters where the class allows) x history, the histories
    of these led by long runs of rejections (forced, or a needle target)."""
    rng = random.Random(seed * 1009 + 17)
    patterns = ['A', 'R', 'AR', 'random', 'smooth']
    cases = []
    reps = 1 if tier == 'quick' else 4

    def add(fam, var, pat, opts=None, nmin=1, sharp=None):
        lo, hi = F.FAMILIES[fam][2], F.FAMILIES[fam][3]
        T = rng.randint(10, 60)
        k = rng.choice([1, 3])
        st = rng.choice([1, 1, rng.randint(2, 6)])
        if fam.startswith('ss_'):
            st = 1                       # Sivia-Skilling has no start_step argument
        nsteps = min(k * (st + T) + rng.randint(3, 12), 260)
        c = {'family': fam, 'variant': var, 'n': rng.randint(max(lo, min(nmin, hi)), hi), 'T': T,
             'start_step': st, 'k': k, 'seed': rng.randrange(10 ** 6),
             'model': pat, 'beta': 1.0, 'nsteps': nsteps}
        if opts is not None:
            c['opts'] = opts
        if sharp is not None:
            c['sharp'] = sharp
        c['id'] = 'adapt-%d' % len(cases)
        cases.append(c)

    for rep in range(reps):
        for fam in ADAPTIVE:
            for var in VARIANTS.get(fam, [None]):
                pats = list(patterns)
                if tier == 'quick':
                    # every family sees every pattern over the variants; two per (family, variant)
                    rng.shuffle(pats)
                    pats = pats[:2] if VARIANTS.get(fam) else pats
                for pat in pats:
                    add(fam, var, pat)
        for fam in ADAPTIVE:
            for var in OPT_VARIANTS[fam]:
                tag = var[2:]
                # first a history that starts with a run of rejections (the widths go down to the guard,
                # one parameter at a time when the initial widths are not proportional to the prior widths)
                pats = [rng.choice(REJECT_RUNS + ['peak'])]
                rest = [p for p in patterns + REJECT_RUNS[1:] + ['peak'] if p != pats[0]]
                if tier != 'quick':
                    pats += rng.sample(rest, 2)
                elif ALGO[fam] in ('ss', 'eig', 'vmf') or tag == 'all':
                    pats.append(rng.choice(rest))
                for pat in pats:
                    add(fam, var, pat, opts=gen_opts(fam, tag, rng, wide_decay=True), nmin=2,
                        sharp=rng.choice([1e-4, 1e-9]) if pat == 'peak' else None)
    return add_resets(cases, seed, 3, (8, 40), (15, 80))


def opt_coverage(cases):
    """How many cases set which optional constructor argument to a non-default value."""
    out = {'cases_with_non_default_arguments': 0, 'by_family': {}, 'by_argument': {}, 'with_two_or_more_parameters': 0}
    for c in cases:
        if not is_opt(c):
            continue
        out['cases_with_non_default_arguments'] += 1
        out['by_family'][c['family']] = out['by_family'].get(c['family'], 0) + 1
        if (c.get('n') or 1) >= 2:
            out['with_two_or_more_parameters'] += 1
        args = {'initial_std_rel': 'initial_std', 'decay_rel': 'adaptation_decay', 'max_std_rel': 'max_cov',
                'dur_rel': 'jump_interval_duration'}
        for key, val in (c.get('opts') or {}).items():
            if (key == 'dur_rel' and c.get('k', 1) == 1) or key in ('prior_widths', 'successive'):
                continue
            if key in ('cov', 'cov0'):
                key = '%s=%s' % (key, val)
            elif key in ('radec', 'degs') and not val:
                continue
            key = args.get(key, key)
            out['by_argument'][key] = out['by_argument'].get(key, 0) + 1
        flags = str(c.get('variant')).split(':')[2:]
        for fl in (flags[0].split('+') if flags else []):
            if fl in ('comp', 'diag'):
                key = {'comp': 'componentwise', 'diag': 'diagonal'}[fl]
                out['by_argument'][key] = out['by_argument'].get(key, 0) + 1
    return out


def _guard_split(res):
    """Number of real Veitch updates after which some widths had moved and others had not (the
    guard `newsigmas <= 0` decided per parameter)."""
    if res['kind'] != 'veitch':
        return 0
    cnt, prev = 0, None
    for r in res['real']:
        cur = r.get('state', {}).get('std')
        if prev is not None and cur is not None and len(cur) > 1:
            moved = [a != b for a, b in zip(cur, prev)]
            if any(moved) and not all(moved):
                cnt += 1
        prev = cur
    return cnt


def correspondence(chk, tier):
    """Runs the suite; returns (divergences, coverage dict)."""
    cases = gen_corr_cases(chk.seed, tier)
    results = {}
    all_lines = []
    build_errors = []
    for c in cases:
        try:
            res = drive(c, c['nsteps'])
        except Exception as e:                           # noqa: BLE001
            build_errors.append({'case': c, 'exception': repr(e)[:300], 'traceback': traceback.format_exc()[-1500:]})
            continue
        results[c['id']] = res
        all_lines += res['lines']
    model = run_model(all_lines)
    divs = []
    agg = {}
    fams = {}
    kinds = {}
    nsteps = 0
    guard_split = 0
    for c in cases:
        res = results.get(c['id'])
        if res is None:
            continue
        out = compare(c, res, model.get(c['id'], []))
        nsteps += len(res['real'])
        guard_split += _guard_split(res)
        if not out.get('ok'):
            divs.append({'case': c, 'step': out['step'], 'why': out['why'],
                         'real_error': res['error'] and res['error']['exception']})
            continue
        for k_, v in out['stats'].items():
            agg[k_] = agg.get(k_, 0) + v
        fams[c['family']] = fams.get(c['family'], 0) + 1
        kinds[res['kind']] = kinds.get(res['kind'], 0) + 1
    for b in build_errors:
        divs.append({'case': b['case'], 'step': -1, 'why': 'real code raised while building/driving: ' + b['exception']})
    cov = {'cases': len(cases), 'steps': nsteps, 'divergences': len(divs), 'branches': agg,
           'families': fams, 'kinds': kinds, 'optional_arguments': opt_coverage(cases),
           'guard_fired_for_some_widths_only': guard_split,
           'histories': sorted({c['model'] for c in cases}),
           'jump_intervals': sorted({c['k'] for c in cases}),
           'start_steps': sorted({c['start_step'] for c in cases}),
           'windows': [min(c['T'] for c in cases), max(c['T'] for c in cases)]}
    if cases and results:
        c0 = cases[-1]
        r0 = results.get(c0['id'])
        if r0:
            chk.samples.append({'case': c0, 'protocol_head': r0['lines'][:4] + r0['lines'][-2:],
                                'model_tail': model.get(c0['id'], [])[-2:]})
    return divs, cov


# --------------------------------------------------------------------------
# draw counting (C14) -- a counting wrapper around the generator
# --------------------------------------------------------------------------

class Stall(Exception):
    pass


class _CountingGen:
    def __init__(self, gen, counter):
        self._g = gen
        self._c = counter

    def _tick(self):
        c = self._c
        c['n'] += 1
        c['jump'] += 1
        if c['jump'] > c['budget']:
            raise Stall('more than %d draws in one jump' % c['budget'])

    def normal(self, *a, **k):
        self._tick()
        return self._g.normal(*a, **k)

    def uniform(self, *a, **k):
        self._tick()
        return self._g.uniform(*a, **k)

    def random(self, *a, **k):
        self._tick()
        return self._g.random(*a, **k)

    def multivariate_normal(self, *a, **k):
        self._tick()
        return self._g.multivariate_normal(*a, **k)

    def __getattr__(self, name):
        return getattr(self._g, name)


class CountDraws:
    """`with CountDraws(prop, budget) as c:` counts generator draws made through `prop`."""

    def __init__(self, prop, budget=10 ** 5):
        self.prop = prop
        self.counter = {'n': 0, 'jump': 0, 'budget': budget}

    def __enter__(self):
        self._orig = pbase.BaseRandom.__dict__['random_generator']
        orig, prop, counter = self._orig, self.prop, self.counter

        def random_generator(self_):
            g = orig.fget(self_)
            if self_ is prop:
                return _CountingGen(g, counter)
            return g
        pbase.BaseRandom.random_generator = property(random_generator)
        return self.counter

    def __exit__(self, *exc):
        pbase.BaseRandom.random_generator = self._orig
        return False


# --------------------------------------------------------------------------
# C14 search: usability on flat / peaked bounded targets
# --------------------------------------------------------------------------

STALL_SINGLE = 10 ** 5         # draws in one jump
STALL_BLOCK = 10 ** 3          # mean draws per jump over a 100-step block


def _admissible(prop, kind):
    """Problems with the scale attributes, or []."""
    bad = []
    st = read_state(prop, kind)
    for name, vals in st.items():
        for v in vals:
            if not math.isfinite(v):
                bad.append('%s not finite (%r)' % (name, v))
                break
    if kind == 'veitch' and any(v < 0 for v in st['std']):
        bad.append('negative width')
    if kind == 'ss':
        if prop.isdiagonal and any(v <= 0 for v in st['vals']):
            bad.append('non-positive width')
    if kind == 'at':
        if prop.isdiagonal:
            if any(not v > 0 for v in st['scale']):
                bad.append('non-positive variance')
        else:
            w = numpy.linalg.eigvalsh(numpy.array(prop._cov, dtype=float))
            if w.min() < -1e-9 * max(abs(w).max(), 1e-300):
                bad.append('covariance not positive semidefinite (min eigenvalue %g)' % w.min())
    if kind == 'eig':
        w = numpy.linalg.eigvalsh(numpy.array(prop._cov, dtype=float))
        if w.min() < -1e-9 * max(abs(w).max(), 1e-300):
            bad.append('covariance not positive semidefinite (min eigenvalue %g)' % w.min())
        if any(v < 0 for v in st['eig']):
            bad.append('negative eigenvalue scale')
    if kind == 'vmf':
        # the normalisation is an internal derived quantity that legitimately underflows to 0.0
        # for kappa > 707.94 (the density uses the log-space form): only a negative one is wrong
        if not st['kappa'][0] > 0:
            bad.append('non-positive concentration')
        if st['norm'][0] < 0:
            bad.append('negative normalisation')
        lognorm = getattr(prop, '_lognormalisation', None)
        if lognorm is not None and not math.isfinite(float(lognorm(prop.kappa))):
            bad.append('log-normalisation not finite at kappa=%r' % float(prop.kappa))
    return bad


def usability_run(case):
    """One real run.  Returns dict(findings=[(key, text)], steps, max_draws, ...).  Never waits
    for a stalled jump: the counting generator raises once a jump exceeds the budget."""
    ch, prop, model, names, boxes, conf = build_ex(case)
    kind = kind_of(prop)
    fam = case['family']
    T = case['T']
    nsteps = case['nsteps']
    findings = []
    out = {'steps': 0, 'max_draws': 0, 'block_mean_max': 0.0, 'accepted': 0, 'kind': kind}
    widths = True if kind == 'veitch' or (kind == 'ss' and prop.isdiagonal) else None
    # Sivia-Skilling: no entry of the scale ever exceeds max(initial scale, configured cap) (C14_ss_bounded);
    # the cap as the case CONFIGURES it (explicit max_cov, or the documented default 1.49 x widest box)
    ss_bound = None
    if kind == 'ss' and conf.get('max_cov') is not None:
        c0 = numpy.array(conf['cov'], dtype=float)
        ss_bound = max(float(c0.max()), conf['max_cov']) ** (0.5 if conf['diag'] else 1.0) * (1 + 1e-9)
    with CountDraws(prop, STALL_SINGLE) as cnt:
        block = 0
        resets = set(case.get('resets') or ())
        out['resets'] = 0
        for it in range(nsteps):
            cnt['jump'] = 0
            n0 = cnt['n']
            if it in resets:
                ch.reset_proposals()                     # the adaptation starts again from the initial scale
                out['resets'] += 1
            try:
                ch.step()
            except Stall as e:
                out['max_draws'] = max(out['max_draws'], cnt['jump'])
                findings.append((stall_key(fam, kind, case, prop, boxes),
                                 '%s: %s at step %d (adaptation_duration %d, beta %g, %s target, start %s); scale %s' % (
                                     fam, e, it, T, case['beta'], case['model'], case.get('start', 'interior'),
                                     _scale_text(prop, kind))))
                break
            except Exception as e:                       # noqa: BLE001 - any exception is the finding
                tb = traceback.format_exc()
                findings.append((raise_key(fam, kind, e, tb, case),
                                 '%s: step %d raised %s (adaptation_duration %d, beta %g, %s target, start %s); scale %s' % (
                                     fam, it, repr(e)[:160], T, case['beta'], case['model'],
                                     case.get('start', 'interior'), _scale_text(prop, kind))))
                break
            d = cnt['n'] - n0
            out['max_draws'] = max(out['max_draws'], d)
            block += d
            out['steps'] += 1
            if ss_bound is not None:
                top = float(prop._std.max() if prop.isdiagonal else prop._cov.max())
                if not top <= ss_bound:
                    findings.append(('exceeds-cap:' + fam, '%s: largest %s %.6g after step %d, above the initial scale and '
                                     'the configured cap (max_cov %.6g; %s target, beta %g, target_rate %g)' % (
                                         fam, 'width' if prop.isdiagonal else 'covariance entry', top, it,
                                         conf['max_cov'], case['model'], case['beta'], conf['xi'])))
                    break
            if widths is not None:
                # the widths after EVERY update (cheap); the full test of all attributes every 100 steps
                s = numpy.asarray(prop._std, dtype=float)
                if not (numpy.isfinite(s).all() and (s >= 0).all() and (kind == 'veitch' or (s > 0).all())):
                    findings.append(('inadmissible-scale:' + fam, '%s: widths %s after step %d (%s target, '
                                     'adaptation_duration %d, beta %g)' % (fam, ['%.4g' % v for v in s[:4]], it,
                                                                           case['model'], T, case['beta'])))
                    break
                if not (s > 0).all():
                    # a width of exactly 0 (impossible with the guard `newsigmas <= 0`, C14_veitch_pos; before
                    # repo fix 36b7cfa the guard tested `< 0`): not a positive width; what the next step makes
                    # of it depends on the class
                    cnt['jump'] = 0
                    try:
                        ch.step()
                        nxt = 'the next step proposed %s from %s' % (
                            [float(ch.proposed_position[p]) if ch.proposed_position else None for p in names][:3],
                            [float(ch.positions[-2][p]) if len(ch.positions) > 1 else None for p in names][:3])
                    except Stall:
                        nxt = 'the next jump did not return within %d draws' % STALL_SINGLE
                    except Exception as e:               # noqa: BLE001
                        nxt = 'the next step raised %s: %s' % (type(e).__name__, str(e).split('\n')[0][:60])
                    findings.append(('zero-width:' + fam, '%s: widths %s after step %d (target_rate %g, %s target, '
                                     'adaptation_duration %d, beta %g); %s' % (
                                         fam, ['%.4g' % v for v in s[:4]], it, float(prop.target_rate), case['model'],
                                         T, case['beta'], nxt)))
                    break
            out['accepted'] += bool(ch.acceptance[-1]['accepted'])
            if block > STALL_BLOCK * 100:
                # the mean over this 100-step block exceeds the budget whatever the rest of it does
                out['block_mean_max'] = max(out['block_mean_max'], block / 100.0)
                findings.append((stall_key(fam, kind, case, prop, boxes),
                                 '%s: %d draws in steps %d-%d, a mean of more than %d per jump over the block '
                                 '(adaptation_duration %d, beta %g, %s target, start %s); scale %s' % (
                                     fam, block, it - it % 100, it, STALL_BLOCK, T, case['beta'], case['model'],
                                     case.get('start', 'interior'), _scale_text(prop, kind))))
                break
            if (it + 1) % 100 == 0:
                out['block_mean_max'] = max(out['block_mean_max'], block / 100.0)
                block = 0
                bad = _admissible(prop, kind)
                if bad:
                    findings.append(('inadmissible-scale:' + fam, '%s: %s at step %d' % (fam, '; '.join(bad), it)))
                    break
        else:
            bad = _admissible(prop, kind)
            if bad:
                findings.append(('inadmissible-scale:' + fam, '%s: %s after %d steps' % (fam, '; '.join(bad), nsteps)))
    out['findings'] = findings
    return out


def _scale_text(prop, kind):
    st = read_state(prop, kind)
    return ', '.join('%s=%s' % (k, ['%.4g' % v for v in vs[:4]]) for k, vs in st.items() if k not in ('mean', 'mu', 'ucov', 'cov'))


def stall_key(fam, kind, case, prop, boxes):
    if kind == 'eig' and case.get('start', 'interior') != 'interior':
        # F22 is geometric (a start on the boundary, the scale still comparable with the box);
        # a stall with a scale far beyond the box is the uncapped-scale mechanism
        width = max(b[1] - b[0] for b in boxes.values())
        if float(numpy.max(prop.eigvals)) < 10 * width:
            return 'bounded-eigenvector-corner-stall'
    if kind in ('at', 'eig'):
        return 'at-bounded-stall:' + fam
    return 'stall:' + fam


def raise_key(fam, kind, exc, tb, case):
    txt = repr(exc)
    if kind == 'vmf' and 'normalisation must be > 0' in txt:
        return 'vmf-overflow'
    if 'NaN acceptance' in txt and 'eigenvector' in fam and case.get('start') in ('corner', 'lo', 'hi'):
        return 'bounded-eigenvector-corner-nan'
    where = 'update' if '_update' in tb or 'in update' in tb else ('jump' if '_jump' in tb else 'step')
    return 'raises-in-%s:%s:%s' % (where, fam, type(exc).__name__)


def gen_usability_cases(seed, tier, full=False):
    rng = random.Random(seed * 7919 + 3)
    thorough = tier == 'thorough' or full
    durations = [30, 300, 1500] if not thorough else [30, 300, 3000, 30000]
    cases = []
    for fam in ADAPTIVE:
        variants = VARIANTS.get(fam, [None])
        for var in variants:
            for T in durations:
                if fam == 'adaptive_bounded_eigenvector':
                    # every draw of this class costs ~0.1 ms: keep the runs that can only end in the
                    # cut-off short (the scale-driven stall shows from T = 300 on)
                    T = {1500: 150, 3000: 300, 30000: 1000}.get(T, T) if not thorough else {30000: 1000}.get(T, T)
                for mk, beta in (('flat', 0.0), ('flat', 1e-3), ('peak', 1.0), ('smooth', 1.0), ('peak', 1e-3)):
                    if not thorough and (mk, beta) in (('peak', 1e-3),):
                        continue
                    if not thorough and T == 1500:
                        # the long quick runs: only where one-sided histories are known to matter
                        if (fam, var) not in (('at_adaptive_bounded_normal', 'global'), ('at_adaptive_angular', 'global'),
                                              ('adaptive_isotropic_solid_angle', None), ('adaptive_bounded_normal', None),
                                              ('adaptive_bounded_eigenvector', None)):
                            continue
                        if (mk, beta) not in (('flat', 0.0), ('peak', 1.0)):
                            continue
                    if fam.startswith('ss_') and T not in (durations[0], durations[1] if not thorough else durations[-2]):
                        continue                         # no window: T is only the run length
                    starts = ['interior']
                    if F.FAMILIES[fam][1] in ('box', 'intbox', 'angle') and T == durations[1]:
                        starts = ['interior', 'lo', 'hi', 'corner']
                    if fam == 'adaptive_bounded_eigenvector' and not thorough and T > 30:
                        starts = ['interior']
                        if (mk, beta) not in (('flat', 0.0), ('peak', 1.0)):
                            continue
                    for start in starts:
                        if mk == 'peak' and start != 'interior':
                            continue
                        lo, hi = F.FAMILIES[fam][2], F.FAMILIES[fam][3]
                        n = rng.randint(lo, hi) if T <= 300 else lo
                        nsteps = T + 60 if not fam.startswith('ss_') else T
                        c = {'family': fam, 'variant': var, 'n': n, 'T': T, 'start_step': 1, 'k': 1,
                             'seed': rng.randrange(10 ** 6), 'model': mk, 'beta': beta, 'start': start,
                             'nsteps': nsteps}
                        c['id'] = 'use-%d' % len(cases)
                        cases.append(c)
    # the optional constructor arguments at non-default values (`o:*`): n >= 2 parameters with unequal boxes
    # where the class allows; flat (everything accepted), needle (long runs of rejections) and
    # always-rejected targets.  Arguments that change how far a scale can travel in a window
    # (adaptation_decay, target_rate, max_cov) stay with the short and medium durations; user supplied
    # initial widths (`o:init`) also see the long ones.
    for fam in ADAPTIVE:
        lo, hi = F.FAMILIES[fam][2], F.FAMILIES[fam][3]
        slow = fam == 'adaptive_bounded_eigenvector'
        for var in OPT_VARIANTS[fam]:
            durs = [30, 300] if not slow else [30, 100]
            if var == 'o:init':
                durs = durs + [durations[2]]
            if thorough and not slow:
                durs = durs + [1000]
            for T in durs:
                for mk, beta, sharp in (('flat', 0.0, None), ('peak', 1.0, 1e-4), ('peak', 1.0, 1e-9),
                                        ('smooth', 1.0, None), ('flat', 1e-3, None)):
                    if not thorough and (mk, beta) in (('smooth', 1.0), ('flat', 1e-3)) and T != 30:
                        continue
                    kind0 = F.FAMILIES[fam][1]
                    if T > 300 and not (mk == 'peak' or ((mk, beta) == ('flat', 0.0) and kind0 != 'real')):
                        continue
                    starts = ['interior']
                    if kind0 in ('box', 'intbox', 'angle') and T == 300 and mk == 'flat' and not slow:
                        starts = ['interior', 'corner']
                    for start in starts:
                        c = {'family': fam, 'variant': var, 'opts': gen_opts(fam, var[2:], rng, wide_decay=T <= 300),
                             'n': rng.randint(max(lo, min(2, hi)), hi), 'T': T, 'start_step': 1, 'k': 1,
                             'seed': rng.randrange(10 ** 6), 'model': mk, 'beta': beta, 'start': start,
                             'nsteps': T + 60 if not fam.startswith('ss_') else T}
                        if sharp is not None:
                            c['sharp'] = sharp
                        if (mk, beta) == ('flat', 0.0) and T >= 300 and kind0 in ('box', 'intbox', 'angle') and not slow:
                            # everything is accepted: the scales grow as far as the window / the cap lets them;
                            # as many parameters as the class takes (the draws of a jump add up over them)
                            c['n'] = hi
                            if kind0 == 'box' and ALGO[fam] == 'ss' and start == 'interior':
                                # very unequal boxes: the cap is relative to the widest one
                                ws = [round(rng.uniform(0.12, 0.25), 3)] + [round(rng.uniform(2, 3), 2) for _ in range(hi - 1)]
                                rng.shuffle(ws)
                                los = [round(rng.uniform(-2, 0), 2) for _ in ws]
                                c['doms'] = {'x%d' % i: [a, round(a + w, 3)] for i, (a, w) in enumerate(zip(los, ws))}
                        c['id'] = 'use-%d' % len(cases)
                        cases.append(c)
    # very unequal widths of the target (a needle of relative width 1e-8 in one parameter, 0.05 in the others):
    # the covariance learnt by the full-covariance Andrieu-Thoms proposals and by the eigenvector proposals
    # becomes singular to any tolerance (condition number > 1e10 after some hundred steps of a long window)
    for fam, var in (('at_adaptive_normal', 'full'), ('at_adaptive_normal', 'full+comp'),
                     ('at_adaptive_normal', 'o:rate:full'), ('at_adaptive_normal', 'diag'),
                     ('adaptive_eigenvector', None)):
        for beta in (1.0, 0.05):
            if not thorough and beta != 1.0 and var not in ('full',):
                continue
            T = durations[2]
            c = {'family': fam, 'variant': var, 'n': rng.randint(2, 3), 'T': T, 'start_step': 1, 'k': 1,
                 'seed': rng.randrange(10 ** 6), 'model': 'ridge', 'sharp': 1e-8, 'beta': beta, 'start': 'interior',
                 'nsteps': T + 60}
            if var and var.startswith('o:'):
                c['opts'] = gen_opts(fam, var[2:], rng)
            c['id'] = 'use-%d' % len(cases)
            cases.append(c)
    # target_rate = 1/2 with the default initial widths (C14_veitch_zero_width_excluded): the first rejected update
    # of the window subtracts exactly the initial width; the guard `<= 0` has to keep the old width (a
    # regression is reported as zero-width:<family>).  Prior width 6 (and 2 pi for the angles): the float
    # subtraction is then exact too.  Everything is rejected (a needle of relative width 1e-9).
    for fam in ADAPTIVE:
        if ALGO[fam] != 'veitch':
            continue
        c = {'family': fam, 'variant': 'o:rate',
             'opts': {'target_rate': 0.5, 'prior_widths': [6.0, 6.0], 'successive': 'default'}, 'n': 2,
             'T': 30, 'start_step': 1, 'k': 1, 'seed': rng.randrange(10 ** 6), 'model': 'peak', 'sharp': 1e-9,
             'beta': 1.0, 'start': 'interior', 'nsteps': 60}
        if F.FAMILIES[fam][1] in ('box', 'intbox'):
            c['doms'] = {'x0': [1.0, 7.0], 'x1': [-2.0, 4.0]}
        c['id'] = 'use-%d' % len(cases)
        cases.append(c)
    # F22: bounded eigenvector families kept exactly on a corner of the box (a needle centred on the
    # corner rejects every move away from it): one with the corner at 0 (only the absolute tolerance of
    # the `isclose` band admits a draw), one with non-zero bounds (points in the relative band)
    for fam in ('adaptive_bounded_eigenvector',):
        for i in range(2 if not thorough else 8):
            doms = {'x0': [0.0, 1.3], 'x1': [-1.1, 0.0]} if i % 2 == 0 else {'x0': [-1.5, 1.0], 'x1': [-2.0, 0.7]}
            corner = {'x0': doms['x0'][0], 'x1': doms['x1'][1]}
            c = {'family': fam, 'variant': None, 'n': 2, 'T': 30, 'start_step': 1, 'k': 1,
                 'seed': rng.randrange(10 ** 6), 'model': 'peak', 'sharp': 1e-6, 'centre': corner, 'doms': doms,
                 'beta': 1.0, 'start': 'corner', 'nsteps': 60}
            c['id'] = 'use-%d' % len(cases)
            cases.append(c)
    return add_resets(cases, seed, 4, (20, 60), (40, 150))


def _usability_worker(case):
    numpy.seterr(all='ignore')
    t0 = time.time()
    try:
        out = usability_run(case)
    except Exception as e:                               # noqa: BLE001 - construction problems
        out = {'findings': [('harness-error:' + case['family'], repr(e)[:200] + traceback.format_exc()[-600:])],
               'steps': 0, 'max_draws': 0, 'block_mean_max': 0.0, 'accepted': 0, 'kind': '?'}
    out['case'] = case
    out['wall'] = time.time() - t0
    return out


class Background:
    """A worker pool started now, collected later (the correspondence runs meanwhile)."""

    def __init__(self, fn, items, procs=None):
        import multiprocessing as mp
        self.items = items
        self.fn = fn
        procs = procs or min(16, os.cpu_count() or 1, max(1, len(items)))
        self.pool = None
        if procs > 1 and len(items) > 1:
            self.pool = mp.get_context('fork').Pool(procs)
            self.res = self.pool.map_async(fn, items, chunksize=1)

    def get(self):
        if self.pool is None:
            return [self.fn(x) for x in self.items]
        try:
            return self.res.get()
        finally:
            self.pool.close()
            self.pool.join()


def pool_map(fn, items, procs=None):
    return Background(fn, items, procs).get()


class usability_search:
    """`h = usability_search(seed, tier)` starts the runs; `h.result()` -> (findings, coverage)."""

    def __init__(self, seed, tier, full=False):
        self.cases = gen_usability_cases(seed, tier, full)
        # long runs first so that the pool is balanced
        order = sorted(self.cases, key=lambda c: -c['nsteps'] * (20 if 'bounded_eigenvector' in c['family'] else 1))
        self.bg = Background(_usability_worker, order)

    def result(self):
        return _usability_collect(self.cases, self.bg.get())


def _usability_collect(cases, outs):
    findings = {}
    cov = {'runs': len(outs), 'steps': 0, 'max_draws_per_jump': 0, 'families': {}, 'targets': {},
           'optional_arguments': opt_coverage(cases), 'rejected_steps': sum(o['steps'] - o['accepted'] for o in outs),
           'adaptation_resets': sum(o.get('resets', 0) for o in outs),
           'runs_with_resets': sum(1 for o in outs if o.get('resets')),
           'needle_widths': sorted({c.get('sharp', 1e-4) for c in cases if c['model'] == 'peak'}),
           'durations': sorted({c['T'] for c in cases}), 'betas': sorted({c['beta'] for c in cases}),
           'starts': sorted({c.get('start', 'interior') for c in cases}), 'max_draws_by_family': {}}
    for o in outs:
        c = o['case']
        cov['steps'] += o['steps']
        cov['families'][c['family']] = cov['families'].get(c['family'], 0) + 1
        cov['targets'][c['model']] = cov['targets'].get(c['model'], 0) + 1
        cov['max_draws_per_jump'] = max(cov['max_draws_per_jump'], o['max_draws'])
        m = cov['max_draws_by_family']
        m[c['family']] = max(m.get(c['family'], 0), o['max_draws'])
        for key, text in o['findings']:
            # keep, per key, the smallest failing configuration
            if key not in findings or (c['T'], c['nsteps']) < (findings[key][1]['T'], findings[key][1]['nsteps']):
                findings[key] = (text, c)
    return findings, cov


# --------------------------------------------------------------------------
# C13 search: direction inside the window, bit-identical ever after
# --------------------------------------------------------------------------

def direction_run(case):
    """Forced always-accept / always-reject / alternating / random history on the real code.

    Oracle (from the property, not from the model):
      * always accepted: no scale component ever narrows, and after the window's updates the
        proposal is wider than at the start (kappa: smaller); always rejected: the reverse;
      * every single update moves the scale in the direction its own record dictates
        (Veitch: accepted flag; Andrieu-Thoms / eigenvector / vMF: acceptance ratio vs target;
        Sivia-Skilling: rate so far vs target, subject to the documented cap for widening);
      * after the window (all but Sivia-Skilling): all scale attributes bit-identical for ever;
      * an iteration at which the proposal did not jump never changes anything."""
    ch, prop, model, names, boxes, conf = build_ex(case)
    kind = kind_of(prop)
    fam = case['family']
    pat = case['model']
    # the clock and the target rate as the case configures them (not as the object reports them)
    T = conf['T'] if kind != 'ss' else 0
    k, st0 = conf['k'], conf['st']
    findings = []
    out = {'steps': 0, 'updates': 0, 'post_window_steps': 0, 'kind': kind}
    init = read_state(prop, kind)
    prev = init
    prev_bytes = scale_bytes(prop, kind)
    frozen_bytes = None
    n_acc = 0
    xi = conf['xi']
    first = 1 if kind == 'veitch' else 2
    # a checkpoint is part of a chain's own history: `set_state(state)` of the proposal's own state, once inside
    # the window and once after it, must leave the proposal distribution and the rest of the run's oracle alone
    rt_at = set()
    if case.get('roundtrip'):
        rt_at = {k * (st0 + max(T // 2, 1)), k * (st0 + T - 1) + 2} if kind != 'ss' else {case['nsteps'] // 2}
    out['roundtrips'] = 0
    resets = set(case.get('resets') or ())
    out['resets'] = 0
    since = {'steps': 0, 'updates': 0}            # since the last reset
    with CountDraws(prop, STALL_SINGLE) as cnt:
        for it in range(case['nsteps']):
            cnt['jump'] = 0
            if it in resets:
                # the adaptation starts again: initial scale, and the window / the Sivia-Skilling count measured
                # from start_step = max(nsteps, 1) with nsteps = it // k; the oracle applies from here on
                ch.reset_proposals()
                out['resets'] += 1
                st0 = max(it // k, 1)
                init = prev = read_state(prop, kind)
                prev_bytes = scale_bytes(prop, kind)
                frozen_bytes = None
                n_acc = 0
                since = {'steps': 0, 'updates': 0}
            if it in rt_at:
                prop.set_state(prop.state)
                out['roundtrips'] += 1
                if scale_bytes(prop, kind) != prev_bytes:
                    findings.append(('state-roundtrip-changes-scale:' + fam,
                                     '%s: set_state(state) of its own state before iteration %d changed its '
                                     'scale attributes' % (fam, it)))
                    break
            dk = prop.nsteps - prop.start_step + 1
            jumped = bool(prop._call_jump())
            n_iter = it // k - (st0 - 1) + 1         # Sivia-Skilling: counted from the configured / reset start step
            try:
                ch.step()
            except (Stall, Exception) as e:              # noqa: BLE001 - usability is C14's subject
                out['cut'] = repr(e)[:120]
                break
            out['steps'] += 1
            since['steps'] += 1
            cur = read_state(prop, kind)
            cur_bytes = scale_bytes(prop, kind)
            changed = cur_bytes != prev_bytes
            acc = bool(ch.acceptance[-1]['accepted'])
            ar = float(ch.acceptance['acceptance_ratio'][-1])
            n_acc += acc
            if changed:
                out['updates'] += 1
                since['updates'] += 1
            if changed and not jumped:
                findings.append(('update-without-jump:' + fam,
                                 '%s: adaptive state changed at iteration %d although the proposal did not jump '
                                 '(jump_interval %d)' % (fam, it, k)))
                break
            if kind != 'ss':
                # from the configuration alone (C13_window_exact / C13_frozen_after_window_jump_interval): the
                # first update is absorbed at iteration k (start_step + first - 1), the last one before
                # iteration k (start_step + T - 1)
                if changed and not k * (st0 + first - 1) <= it < k * (st0 + T - 1):
                    findings.append(('adapts-outside-configured-window:' + fam,
                                     '%s: scale attributes changed at iteration %d; start_step %d (as configured / set by the last reset), '
                                     'adaptation_duration %d, jump_interval %d: the window is iterations %d..%d' % (
                                         fam, it, st0, T, k, k * (st0 + first - 1), k * (st0 + T - 1) - 1)))
                    break
                if changed and dk < first:
                    findings.append(('adapts-before-start:' + fam,
                                     '%s: scale attributes changed at iteration %d, proposal step %d, dk=%d: before the '
                                     'adaptation starts (start_step %d, jump_interval %d)' % (
                                         fam, it, prop.nsteps, dk, prop.start_step, k)))
                    break
                after = dk >= T
                if after:
                    out['post_window_steps'] += 1
                    if frozen_bytes is None:
                        frozen_bytes = prev_bytes
                    if cur_bytes != frozen_bytes:
                        findings.append(('adapts-after-window:' + fam,
                                         '%s: scale attributes changed at iteration %d, proposal step %d, dk=%d >= '
                                         'adaptation_duration=%d (start_step %d, jump_interval %d)' % (
                                             fam, it, prop.nsteps, dk, T, prop.start_step, k)))
                        break
            # direction of this update
            f = DIRECTION_FIELD[kind]
            want = 0
            if kind == 'veitch':
                want = +1 if acc else -1
            elif kind in ('at', 'eig'):
                want = _sign(ar - xi)
            elif kind == 'vmf':
                want = -_sign(ar - xi)
            elif kind == 'ss':
                rate = prop.n_accepted / n_iter if n_iter > 0 else 0.0
                want = _sign(rate - xi)
            comp = kind == 'at' and prop._iscomponentwise
            if changed and not comp:
                for j, (a, b) in enumerate(zip(cur[f], prev[f])):
                    # Sivia-Skilling rescales a full covariance: widening = larger in magnitude
                    s = _sign(abs(a) - abs(b)) if kind == 'ss' else _sign(a - b)
                    if s * want < 0:
                        findings.append(('wrong-direction:' + fam,
                                         '%s: %s[%d] moved %+d at iteration %d (dk=%d) where its record (accepted=%s, '
                                         'ar=%.4g, target %.3g) dictates %+d' % (fam, f, j, s, it, dk, acc, ar, xi, want)))
                        break
                if findings:
                    break
            prev, prev_bytes = cur, cur_bytes
    # the net effect of a sustained one-sided history
    one_sided = n_acc in (0, since['steps'])
    if not findings and pat in ('A', 'R') and one_sided and since['updates'] > 0 and 'cut' not in out:
        f = DIRECTION_FIELD[kind]
        widen = n_acc > 0
        sgn =(+1 if widen else -1) * (-1 if kind == 'vmf' else 1)
        comp = kind == 'at' and prop._iscomponentwise
        if not comp:
            for j, (a, b) in enumerate(zip(prev[f], init[f])):
                if (_sign(abs(a) - abs(b)) if kind == 'ss' else _sign(a - b)) * sgn < 0:
                    findings.append(('wrong-direction:' + fam,
                                     '%s: after an always-%s history %s[%d] went from %.6g to %.6g' % (
                                         fam, 'accepted' if widen else 'rejected', f, j, b, a)))
    if not findings and pat == 'R' and n_acc == 0 and kind == 'ss' and 'cut' not in out and since['steps'] >= 20:
        if all(a == b for a, b in zip(prev['vals'], init['vals'])):
            findings.append(('ss-cap-blocks-narrowing:' + fam,
                             '%s: %d always-rejected steps (rate 0 < target %.3g) left the scale at %s; '
                             'max_std=%.4g: the cap test `alpha*std.max() <= max_std` also blocks narrowing '
                             'when the scale is above max_std/alpha' % (
                                 fam, since['steps'], xi, ['%.4g' % v for v in init['vals'][:3]], prop.max_std)))
    out['findings'] = findings
    return out


def own_history_run(case):
    """A chain driven alone and the same chain driven interleaved with a second chain of the
    same class under a different history must adapt bit-identically."""
    ch1, p1, _, _, _ = build(case)
    kind = kind_of(p1)
    trace1 = []
    try:
        for _ in range(case['nsteps']):
            ch1.step()
            trace1.append(scale_bytes(p1, kind))
    except Exception:                                    # noqa: BLE001 - usability is C14's subject
        pass
    ch2, p2, _, _, _ = build(case)
    other = dict(case, seed=case['seed'] + 1, model='R' if case['model'] != 'R' else 'A')
    ch3, p3, _, _, _ = build(other)
    for i in range(len(trace1)):
        try:
            ch3.step()
        except Exception:                                # noqa: BLE001
            pass
        try:
            ch2.step()
        except Exception:                                # noqa: BLE001
            break
        if scale_bytes(p2, kind) != trace1[i]:
            return [('foreign-history:' + case['family'],
                     '%s: the adaptive state at iteration %d depends on whether another chain of the same '
                     'class is stepped in between' % (case['family'], i))]
    return []


def gen_direction_cases(seed, tier, full=False):
    rng = random.Random(seed * 6007 + 5)
    thorough = tier == 'thorough' or full
    cases = []
    for fam in ADAPTIVE:
        kind0 = F.FAMILIES[fam][1]
        loops = fam.startswith('at_adaptive_b') or fam.startswith('at_adaptive_ang') or fam == 'adaptive_bounded_eigenvector'
        for var in VARIANTS.get(fam, [None]):
            for pat in ('A', 'R', 'AR', 'random'):
                for (k, st) in ((1, 1), (3, 1), (1, 4), (3, 3)):
                    if not thorough and (k, st) == (3, 3) and pat in ('AR', 'random'):
                        continue
                    if fam.startswith('ss_') and st != 1:
                        continue
                    if thorough:
                        T = rng.choice([40, 400, 4000]) if not loops else rng.choice([40, 150, 400])
                        total = 20000 if (k, st) in ((1, 1), (3, 3)) and pat in ('A', 'R') else 6000
                        if loops and pat != 'R':
                            total = 3000
                    else:
                        T = rng.choice([25, 120]) if not loops else rng.choice([25, 80])
                        total = 500
                        if fam == 'adaptive_bounded_eigenvector':
                            T, total = rng.choice([25, 50]), 400        # ~0.1 ms per draw in its rejection loop
                    nsteps = max(total, k * (st + T) + 50)
                    if thorough:
                        nsteps = min(nsteps, 20000)
                    lo, hi = F.FAMILIES[fam][2], F.FAMILIES[fam][3]
                    c = {'family': fam, 'variant': var, 'n': rng.randint(lo, hi), 'T': T, 'start_step': st,
                         'k': k, 'seed': rng.randrange(10 ** 6), 'model': pat, 'beta': 1.0, 'nsteps': nsteps}
                    if k != 1 or len(cases) % 4 == 0:
                        c['roundtrip'] = True
                    c['id'] = 'dir-%d' % len(cases)
                    cases.append(c)
    # the optional constructor arguments at non-default values: n >= 2 parameters where the class allows,
    # one-sided histories, long runs of rejections, alternating and random ones
    for fam in ADAPTIVE:
        lo, hi = F.FAMILIES[fam][2], F.FAMILIES[fam][3]
        slow = fam.startswith('at_adaptive_b') or fam.startswith('at_adaptive_ang') or fam == 'adaptive_bounded_eigenvector'
        for var in OPT_VARIANTS[fam]:
            for pat in ['A', 'R', 'AR', 'ARR', 'random'] + REJECT_RUNS[1:]:
                combos = ((1, 1), (3, 2)) if not thorough else ((1, 1), (3, 1), (1, 4), (3, 3))
                if not thorough:
                    # every (variant, history) once; the jump interval / start step alternate
                    combos = (combos[rng.randrange(2)],)
                for (k, st) in combos:
                    if fam.startswith('ss_'):
                        st = 1
                    T = rng.choice([25, 80] if not thorough else ([40, 400, 2000] if not slow else [40, 150]))
                    total = (300 if not slow else 200) if not thorough else (5000 if not slow else 1500)
                    nsteps = max(total, k * (st + T) + 50)
                    c = {'family': fam, 'variant': var, 'opts': gen_opts(fam, var[2:], rng),
                         'n': rng.randint(max(lo, min(2, hi)), hi), 'T': T, 'start_step': st, 'k': k,
                         'seed': rng.randrange(10 ** 6), 'model': pat, 'beta': 1.0, 'nsteps': nsteps}
                    if k != 1 or len(cases) % 4 == 0:
                        c['roundtrip'] = True
                    c['id'] = 'dir-%d' % len(cases)
                    cases.append(c)
    # the default-covariance Sivia-Skilling bounded normal on a narrow box
    c = {'family': 'ss_adaptive_bounded_normal', 'variant': 'default-cov', 'n': 1, 'T': 30, 'start_step': 1,
         'k': 1, 'seed': 4242, 'model': 'R', 'beta': 1.0, 'nsteps': 400, 'doms': {'x0': [0.0, 0.1]}}
    c['id'] = 'dir-%d' % len(cases)
    cases.append(c)
    return add_resets(cases, seed, 3, (20, 60), (40, 150))


def _direction_worker(case):
    numpy.seterr(all='ignore')
    t0 = time.time()
    try:
        out = direction_run(case)
        if case.get('own') and not out['findings']:
            out['findings'] += own_history_run(dict(case, nsteps=min(case['nsteps'], 150)))
    except Exception as e:                               # noqa: BLE001
        out = {'findings': [('harness-error:' + case['family'], repr(e)[:200] + traceback.format_exc()[-600:])],
               'steps': 0, 'updates': 0, 'post_window_steps': 0, 'kind': '?'}
    out['case'] = case
    out['wall'] = time.time() - t0
    return out


class direction_search:
    """`h = direction_search(seed, tier)` starts the runs; `h.result()` -> (findings, coverage)."""

    def __init__(self, seed, tier, full=False):
        cases = gen_direction_cases(seed, tier, full)
        self.seen = set()
        for c in cases:                     # one own-history probe per family
            if c['family'] not in self.seen and c['model'] == 'AR':
                c['own'] = True
                self.seen.add(c['family'])
        order = sorted(cases, key=lambda c: -c['nsteps'])
        self.bg = Background(_direction_worker, order)

    def result(self):
        return _direction_collect(self.seen, self.bg.get())


def _direction_collect(seen, outs):
    findings = {}
    cov = {'runs': len(outs), 'steps': 0, 'updates': 0, 'post_window_steps': 0, 'families': {},
           'cut_short': 0, 'own_history_probes': len(seen),
           'state_round_trips': sum(o.get('roundtrips', 0) for o in outs),
           'adaptation_resets': sum(o.get('resets', 0) for o in outs),
           'runs_with_resets': sum(1 for o in outs if o.get('resets')),
           'optional_arguments': opt_coverage([o['case'] for o in outs]),
           'histories': sorted({o['case']['model'] for o in outs})}
    for o in outs:
        c = o['case']
        cov['steps'] += o['steps']
        cov['updates'] += o['updates']
        cov['post_window_steps'] += o['post_window_steps']
        cov['families'][c['family']] = cov['families'].get(c['family'], 0) + 1
        if 'cut' in o:
            cov['cut_short'] += 1
            cov.setdefault('cut_examples', []).append('%s/%s %s T=%d step %d: %s' % (
                c['family'], c['variant'], c['model'], c['T'], o['steps'], o['cut']))
        for key, text in o['findings']:
            if key not in findings or c['nsteps'] < findings[key][1]['nsteps']:
                findings[key] = (text, c)
    return findings, cov


def finding_family(key):
    """The proposal family a finding key is about."""
    if key == 'vmf-overflow':
        return 'adaptive_isotropic_solid_angle'
    if key.startswith('bounded-eigenvector-corner'):
        return 'adaptive_bounded_eigenvector'
    parts = key.split(':')
    return parts[1] if len(parts) > 1 else None


# --------------------------------------------------------------------------
# replay of a stored case
# --------------------------------------------------------------------------

def replay_case(d):
    """Re-run the input stored in a replay file.  Returns 1 if it still fails."""
    case = d.get('case')
    if not case:
        print('replay file carries no case:', d.get('how_to_replay') or d.get('no_longer_checks'))
        return 0
    what = d.get('search')
    if what == 'usability':
        out = usability_run(case)
    elif what == 'direction':
        out = direction_run(case)
        if case.get('own') and not out['findings']:
            out['findings'] += own_history_run(dict(case, nsteps=min(case['nsteps'], 150)))
    else:
        res = drive(case, case['nsteps'])
        model = run_model(res['lines'])
        cmp_ = compare(case, res, model.get(case['id'], []))
        if cmp_.get('ok'):
            print('model and real code agree on this case now')
            return 0
        print('DIVERGENCE at step %s: %s' % (cmp_['step'], cmp_['why']))
        return 1
    for key, text in out['findings']:
        print('FAILS [%s] %s' % (key, text))
    if not out['findings']:
        print('the stored input no longer fails')
    return 1 if out['findings'] else 0


# --------------------------------------------------------------------------
# directed: acceptance RATES sustained on one side of the target (not only all-accepted /
# all-rejected histories), and the documented optional decay of the Veitch scheme
# --------------------------------------------------------------------------
SS_FAMILIES = ['ss_adaptive_normal', 'ss_adaptive_bounded_normal', 'ss_adaptive_angular',
               'ss_adaptive_discrete', 'ss_adaptive_bounded_discrete']
VEITCH_FAMILIES = ['adaptive_normal', 'adaptive_bounded_normal', 'adaptive_angular',
                   'adaptive_discrete', 'adaptive_bounded_discrete']


def _scale_of(prop):
    import numpy
    v = getattr(prop, '_std', None)
    if v is None:
        v = numpy.sqrt(numpy.diag(numpy.atleast_2d(prop._cov)))
    return numpy.array(v, dtype=float).copy()


def sustained_rate_findings(seed, full=False):
    """C13 with an acceptance rate that stays below (above) the target without being 0 (1):
    (i) Sivia-Skilling proposals with a jump interval k > 1, after their slow phase: one step in six is
        accepted (rate 1/6 < 0.234); once even an all-accepted slow phase cannot lift the rate of the
        updates so far to the target, no update may WIDEN the proposal;
    (ii) Veitch proposals with a user supplied adaptation_decay above the default, every step
        accepted: inside the window no update may NARROW the proposal.
    Oracles come from the property statement (direction against the sustained rate), not from the
    code's own rate estimate."""
    import numpy
    import forcing
    rng = random.Random(seed * 104729 + 13)
    findings, stats = {}, {'ss_runs': 0, 'ss_updates_checked': 0, 'veitch_runs': 0, 'veitch_updates_checked': 0}
    xi = 0.234
    fams = SS_FAMILIES if full else rng.sample(SS_FAMILIES, 3)
    for fam in fams:
        for k in ((2, 4) if full else (rng.choice([2, 3, 4]),)):
            d = 5
            ch, prop, model = forcing.make_chain(fam, rng=random.Random(rng.randrange(10 ** 6)), pattern='RRRRRA',
                                                 jump_interval=k, window=None, seed=rng.randrange(1, 10 ** 6))
            d = int(prop.jump_interval_duration)
            # from here on even an all-accepted slow phase leaves the rate of the updates below the target
            first = k * d + int((d * (1 - xi) + 2) / (xi - 1.0 / 6.0)) + 12
            stats['ss_runs'] += 1
            for it in range(first + (240 if full else 90)):
                before = _scale_of(prop)
                ch.step()
                after = _scale_of(prop)
                if it >= first:
                    stats['ss_updates_checked'] += 1
                    if numpy.any(after > before * (1 + 1e-12)):
                        findings.setdefault(
                            'ss-widens-below-target-rate:' + fam,
                            ('%s with jump interval %d (slow phase of %d proposal steps over), one step in six accepted '
                             '(rate 0.167 < target %.3f since the start): the update at iteration %d widened the '
                             'proposal (%r -> %r)' % (fam, k, d, prop.target_rate, it + 1, before.tolist(), after.tolist()),
                             {'family': fam, 'jump_interval': k, 'pattern': 'RRRRRA', 'iteration': it + 1,
                              'search': 'sustained_rate'}))
                        break
    # (iii) a reset in the middle of an all-accepted history: the count of the Sivia-Skilling scheme restarts
    # with the window, so the rate stays 1 > target and no update after the reset may narrow the proposal
    for fam in (SS_FAMILIES if full else rng.sample(SS_FAMILIES, 2)):
        ch, prop, model = forcing.make_chain(fam, rng=random.Random(rng.randrange(10 ** 6)), pattern='RRA' * 12 + 'A' * 400,
                                             jump_interval=1, window=None, seed=rng.randrange(1, 10 ** 6))
        stats['ss_reset_runs'] = stats.get('ss_reset_runs', 0) + 1
        for it in range(36):
            ch.step()
        ch.reset_proposals()
        for it in range(36, 36 + (60 if full else 30)):
            before = _scale_of(prop)
            ch.step()
            after = _scale_of(prop)
            stats['ss_updates_checked'] += 1
            if numpy.any(after < before * (1 - 1e-12)):
                findings.setdefault(
                    'ss-narrows-after-reset-under-acceptance:' + fam,
                    ('%s: 36 steps with one in three accepted, Chain.reset_proposals(), then every step accepted: the '
                     'update at iteration %d narrowed the proposal (%r -> %r) although every step since the reset '
                     'was accepted' % (fam, it + 1, before.tolist(), after.tolist()),
                     {'family': fam, 'iteration': it + 1, 'search': 'sustained_rate'}))
                break
    vf = VEITCH_FAMILIES if full else rng.sample(VEITCH_FAMILIES, 3)
    for fam in vf:
        cls, kind, lo, hi = F.FAMILIES[fam]
        T = 120
        for rel in (1.6, 2.3):
            decay = rel / math.log10(T)
            names = ['x0']
            prng = random.Random(rng.randrange(10 ** 6))
            dom = F.domain_for(kind, prng, 0)
            kw = dict(adaptation_decay=decay)
            try:
                if fam in ('adaptive_normal', 'adaptive_discrete'):
                    prop = cls(names, {'x0': 2.0}, T, **kw)
                elif fam == 'adaptive_angular':
                    prop = cls(names, T, **kw)
                else:
                    prop = cls(names, {'x0': dom}, T, **kw)
            except TypeError:
                continue
            model = forcing.ForcedModel('A')
            from epsie.chain import Chain
            ch = Chain(names, model, [prop], bit_generator=rng.randrange(1, 10 ** 6))
            ch.start_position = {'x0': F.start_value(kind, dom, prng, 0)}
            stats['veitch_runs'] += 1
            for it in range(T - 2):
                before = _scale_of(prop)
                try:
                    ch.step()
                except Exception:
                    break
                after = _scale_of(prop)
                stats['veitch_updates_checked'] += 1
                if numpy.any(after < before * (1 - 1e-12)):
                    findings.setdefault(
                        'veitch-narrows-under-acceptance:' + fam,
                        ('%s with adaptation_duration %d and adaptation_decay %.4f (%.1f x the default): every step '
                         'accepted, yet the update at iteration %d (inside the window) narrowed the proposal '
                         '(%r -> %r)' % (fam, T, decay, rel, it + 1, before.tolist(), after.tolist()),
                         {'family': fam, 'adaptation_duration': T, 'adaptation_decay': decay, 'iteration': it + 1,
                          'search': 'sustained_rate'}))
                    break
    return findings, stats


def large_magnitude_findings(seed, full=False):
    """C14 with parameters whose VALUES are large numbers (time stamps in seconds, frequencies in Hz:
    x ~ 1.2e9, y ~ 3.7e8) on a bounded box, narrow target (almost everything rejected) and flat target
    (almost everything accepted): the unbounded adaptive families must keep finite, admissible scales and
    no step may raise.  (The bounded eigenvector family's stall is the recorded finding.)"""
    import epsie.proposals as P
    from epsie.chain import Chain
    rng = random.Random(seed * 4441 + 7)
    findings, stats = {}, {'runs': 0, 'steps': 0}
    X0, Y0 = 1.2e9, 3.7e8
    box = {'x': (1.1e9, 1.3e9), 'y': (3.0e8, 4.0e8)}
    fams = {
        'adaptive_eigenvector': lambda: P.AdaptiveEigenvector(['x', 'y'], adaptation_duration=200),
        'adaptive_normal': lambda: P.AdaptiveNormal(['x', 'y'], {'x': 2e8, 'y': 1e8}, 200),
        'at_adaptive_normal': lambda: P.ATAdaptiveNormal(['x', 'y'], 200),
        'ss_adaptive_normal': lambda: P.SSAdaptiveNormal(['x', 'y'], cov=[1e12, 1e12]),
    }
    for fam in (sorted(fams) if full else ['adaptive_eigenvector'] + rng.sample(sorted(set(fams) - {'adaptive_eigenvector'}), 1)):
        for width in (1e-3, 1e30):
            def model(x, y, width=width):
                inbox = box['x'][0] <= x <= box['x'][1] and box['y'][0] <= y <= box['y'][1]
                return -0.5 * (((x - X0) / width) ** 2 + ((y - Y0) / width) ** 2), (0. if inbox else -numpy.inf)
            prop = fams[fam]()
            ch = Chain(['x', 'y'], model, [prop], bit_generator=rng.randrange(1, 10 ** 6))
            ch.start_position = {'x': X0, 'y': Y0}
            stats['runs'] += 1
            for it in range(120 if full else 60):
                try:
                    ch.step()
                except Exception as e:      # noqa: BLE001
                    tb = traceback.extract_tb(e.__traceback__)
                    where = [f for f in tb if '/epsie/' in f.filename]
                    findings.setdefault(
                        'large-values-raise:' + fam,
                        ('%s on parameters of magnitude 1e9 (box x in [1.1e9, 1.3e9], y in [3e8, 4e8], target width %g): '
                         'step %d raised %s: %s (%s)' % (fam, width, it + 1, type(e).__name__, str(e)[:120],
                                                          ('%s:%d' % (os.path.basename(where[-1].filename), where[-1].lineno)) if where else '?'),
                         {'family': fam, 'target_width': width, 'iteration': it + 1, 'search': 'large_magnitude'}))
                    break
                stats['steps'] += 1
                p = ch.proposal_dist.proposals[0]
                vals = [numpy.asarray(getattr(p, a)) for a in ('_std', '_cov', 'eigvals') if getattr(p, a, None) is not None]
                if not all(numpy.all(numpy.isfinite(v)) for v in vals):
                    findings.setdefault('large-values-nonfinite-scale:' + fam,
                                        ('%s on parameters of magnitude 1e9: a scale attribute is not finite after step %d'
                                         % (fam, it + 1), {'family': fam, 'target_width': width, 'search': 'large_magnitude'}))
                    break
    return findings, stats
