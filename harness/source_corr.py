"""source_corr.py -- differential check of the TRANSLATION: the kernels that harness/gen_source.py
translates from the Python AST (lean/EpsieModel/Generated/Source.lean), evaluated by lean/DriverSource.lean
on concrete arguments, against what the REAL methods return when called on real epsie objects put into
the same state.  This validates what the tie theorems cannot: the translator's reading of Python (`//`,
`%`, negative indices, loop order, item assignment) and the kernels' bind tables (that `self._nsteps` is
the parameter `raw`, that `stats['logl']` is `logls`, ...).

    requests, judges = build(seed, n)   -> lines for the driver + one judge per line
    run(chk, seed, n)                   -> list of findings-like divergences, coverage dict
"""
import math
import os
import random
import subprocess
from fractions import Fraction

import numpy

import common

DYADIC = [Fraction(i, 8) for i in range(-24, 25)]


def fr(x):
    f = Fraction(x)
    return str(f.numerator) if f.denominator == 1 else '%d/%d' % (f.numerator, f.denominator)


def frl(xs):
    return ','.join(fr(x) for x in xs) if len(xs) else '-'


def run_driver(lines, timeout=900):
    env = dict(os.environ)
    env.pop('LEAN_PATH', None)
    p = subprocess.run(['lake', 'env', 'lean', '--run', 'DriverSource.lean'], cwd=common.LEAN_DIR, env=env,
                       input='\n'.join(lines) + '\n', stdout=subprocess.PIPE, stderr=subprocess.STDOUT,
                       text=True, timeout=timeout)
    return p.stdout.splitlines()


def _close(a, b, rtol=1e-11):
    return abs(a - b) <= rtol * max(1.0, abs(a), abs(b))


def _rat(tok):
    return float(Fraction(tok))


class _Gen:
    def __init__(self, us):
        self.us = list(us)
        self.used = 0

    def uniform(self, *a, **k):
        self.used += 1
        return self.us.pop(0)


class patched:
    """Class-level patch that restores the class exactly: an attribute the class inherited is removed
    again (re-assigning the inherited object would pin a copy onto the subclass and hide later patches of
    the base class, e.g. the scripted generators other suites install on BaseRandom)."""

    def __init__(self, cls, name, value):
        self.cls, self.name, self.value = cls, name, value

    def __enter__(self):
        self.own = self.name in self.cls.__dict__
        self.saved = self.cls.__dict__.get(self.name)
        setattr(self.cls, self.name, self.value)
        return self

    def __exit__(self, *a):
        if self.own:
            setattr(self.cls, self.name, self.saved)
        else:
            delattr(self.cls, self.name)
        return False


def build(seed, n):
    """Returns (requests, judges): judges[i](answer) -> None or a text saying how the real code differs."""
    import epsie.proposals as P
    from epsie.chain import Chain
    from epsie.chain.ptchain import ParallelTemperedChain
    from epsie.samplers import MetropolisHastingsSampler, ParallelTemperedSampler
    rng = random.Random(seed * 65537 + 99)
    req, judges, hist = [], [], {}

    def add(line, judge):
        req.append(line)
        judges.append(judge)
        k = line.split()[0]
        hist[k] = hist.get(k, 0) + 1

    def eq(expected, what):
        def j(ans, expected=expected, what=what):
            return None if ans.strip() == expected else '%s: real code gives %r, the translated kernel %r' % (what, expected, ans.strip())
        return j

    # ---- the proposal clock: real proposal objects put at a given counter
    for _ in range(n):
        k = rng.choice([1, 1, 2, 3, 4, 7])
        dur = rng.randint(1, 9)
        raw = rng.randint(0, 60)
        adaptive = rng.random() < 0.5
        if adaptive:
            st = rng.randint(1, 6)
            T = rng.randint(3, 12)
            p = P.AdaptiveNormal(['x'], {'x': 2.}, T, start_step=st, jump_interval=k)
            p.start_step = st
            if k != 1:
                p._jump_interval_duration = dur
            sts = str(st)
        else:
            p = P.Normal(['x'], jump_interval=k, jump_interval_duration=dur)
            sts = 'none'
        p._nsteps = raw
        d = dur if k != 1 else 0
        if k == 1:
            p._jump_interval_duration = 0
        add('nsteps %d %d' % (raw, k), eq(str(int(p.nsteps)), 'BaseProposal.nsteps at _nsteps=%d k=%d' % (raw, k)))
        add('callJump %d %d %d %s' % (raw, k, d, sts),
            eq('T' if p._call_jump() else 'F', '_call_jump raw=%d k=%d dur=%d start=%s' % (raw, k, d, sts)))
        add('jump %d %d %d %s' % (raw, k, d, sts), eq(_real_jump(p), 'jump raw=%d k=%d dur=%d start=%s' % (raw, k, d, sts)))
        lp = rng.choice(DYADIC)
        add('logpdf %d %d %d %s %s' % (raw, k, d, sts, fr(lp)),
            eq(fr(Fraction(_real_logpdf(p, float(lp)))), 'logpdf raw=%d k=%d dur=%d start=%s' % (raw, k, d, sts)))
        upd, raw2 = _real_update(p)
        add('update %d %d %d %s' % (raw, k, d, sts), eq('%s %d' % ('T' if upd else 'F', raw2), 'update raw=%d k=%d' % (raw, k)))
        if adaptive:
            p._nsteps = raw
            p._reset_adaptation()
            add('resetStart %d %d' % (raw, k), eq(str(int(p.start_step)), '_reset_adaptation start_step at raw=%d k=%d' % (raw, k)))

    # ---- chain length and index arithmetic on a real chain that has run
    def model(x):
        return -math.floor(x * x * 8) / 16.0, 0.0

    for hb in (False, True):
        def mb(x):
            return -math.floor(x * x * 8) / 16.0, 0.0, {'b': x}
        ch = Chain(['x'], mb if hb else model, [P.Normal(['x'])], bit_generator=rng.randrange(1, 10 ** 6))
        ch.start_position = {'x': 0.25}
        for _ in range(4):
            ch.step()
        ch.clear()
        nrun = rng.randint(3, 7)
        for _ in range(nrun):
            ch.step()
        add('chainLen %d %d' % (ch.iteration, ch.lastclear), eq(str(len(ch)), 'len(chain)'))
        for i in range(-2 * nrun, 2 * nrun):
            def j(ans, ch=ch, i=i, hb=hb):
                got = ch[i]
                want_names = ['positions', 'stats', 'acceptance'] + (['blobs'] if hb else [])
                ents = [e.split(':') for e in ans.split()]
                if [e[0] for e in ents] != want_names:
                    return 'chain[%d] reads %s, the translated kernel %s' % (i, want_names, [e[0] for e in ents])
                for nm, idx in ents:
                    arr = getattr(ch, '_' + nm)
                    if not (0 <= int(idx) < len(ch)) or repr(got[nm]) != repr(arr[int(idx)]):
                        return 'chain[%d][%r] is not row %s of the scratch array' % (i, nm, idx)
                return None
            add('getitem %d %d %s' % (i, len(ch), 'T' if hb else 'F'), j)

    # ---- sweep schedule, record / row indices, rows viewed, run growth: real tempered samplers with a recorder
    for _ in range(max(3, n // 6)):
        nt = rng.choice([1, 2, 3, 4])
        s = rng.choice([1, 2, 3])
        betas = [1.0, 0.5, 0.25, 0.125][:nt]
        smp = ParallelTemperedSampler(['x'], model, 1, betas=numpy.array(betas), swap_interval=s,
                                      proposals=[P.Normal(['x'])], seed=rng.randrange(1, 10 ** 6))
        smp.start_position = {'x': numpy.full((nt, 1), 0.5)}
        pt = smp.chains[0]
        log = []
        orig = ParallelTemperedChain.swap_temperatures

        def rec(self, log=log, orig=orig):
            from epsie.chain.chaindata import ChainData
            writes = []
            osi = ChainData.__setitem__

            def si(cd, index, value, writes=writes, osi=osi):
                writes.append((id(cd), index))
                return osi(cd, index, value)
            ChainData.__setitem__ = si
            try:
                it, lc = self.iteration, self.lastclear
                orig(self)
            finally:
                ChainData.__setitem__ = osi
            rows = [ix for i_, ix in writes if i_ == id(self._temperature_swaps)]
            recs = [ix for i_, ix in writes if i_ == id(self.chains[0]._positions)]
            log.append((it, lc, rows, recs))
        ParallelTemperedChain.swap_temperatures = rec
        try:
            plan = [rng.randint(1, 5) for _ in range(3)]
            for part, m in enumerate(plan):
                sl0, ln0 = pt.chains[0].scratchlen, len(pt)
                it0 = pt.iteration
                smp.run(m)
                pt = smp.chains[0]
                add('runGrowth %d %d %d' % (m, sl0, ln0), eq(str(int(pt.chains[0].scratchlen)), 'scratch length after run(%d)' % m))
                swept = {e[0] for e in log}
                for it in range(it0 + 1, it0 + m + 1):
                    add('sweepDue %d %d %d' % (nt, it, s), eq('T' if it in swept else 'F',
                                                             'sweep at iteration %d (ntemps %d, interval %d)' % (it, nt, s)))
                if nt > 1:
                    try:
                        nrows = pt.temperature_swaps.shape[-1]
                    except Exception:
                        nrows = None
                    if nrows is not None:
                        add('rowsViewed %d %d' % (len(pt), s), eq(str(nrows), 'rows shown by temperature_swaps (len %d, interval %d)' % (len(pt), s)))
                if part == 1 and rng.random() < 0.7:
                    smp.clear()
                    pt = smp.chains[0]
            for it, lc, rows, recs in log:
                if rows and recs:
                    add('sweepRow %d %d %d' % (it, lc, s), eq('%d %d' % (recs[0], rows[0]),
                                                            'record / row index written by the sweep at iteration %d (last clear %d)' % (it, lc)))
        finally:
            ParallelTemperedChain.swap_temperatures = orig

    # ---- the acceptance rule: real Chain._acceptance_ratio with a stub proposal distribution
    class _PD:
        def __init__(self, sym, rev, fwd, gen):
            self.symmetric = sym
            self._rev, self._fwd = rev, fwd
            self.random_generator = gen
            self.state = {}

        def logpdf(self, a, b):
            return self._rev if (a, b) == ('cur', 'prop') else self._fwd if (a, b) == ('prop', 'cur') else float('nan')

    for _ in range(2 * n):
        logp, logl, clp, cll, rev, fwd = [rng.choice(DYADIC) for _ in range(6)]
        beta = rng.choice([Fraction(0), Fraction(1, 8), Fraction(1, 4), Fraction(1, 2), Fraction(1)])
        sym = rng.random() < 0.5
        logar = logp + logl * beta - clp - cll * beta + (0 if sym else rev - fwd)
        u = None
        us = []
        if logar <= 0:
            e = math.exp(float(logar))
            u = min(0.999, e * rng.choice([0.5, 0.7, 1.4, 2.0])) if e > 1e-300 else 0.5
            if abs(u - e) < 1e-9 * e:
                u = e * 0.5
            us = [Fraction(math.log(u))]
        ch = Chain(['x'], model, [P.Normal(['x'])], bit_generator=3, beta=float(beta))
        gen = _Gen([u] if u is not None else [])
        ch.proposal_dist = _PD(sym, float(rev), float(fwd), gen)
        try:
            acc, ar = Chain._acceptance_ratio(ch, float(logp), float(logl), 'prop', float(clp), float(cll), 'cur')
        except Exception as ex:      # noqa: BLE001
            acc, ar = None, repr(ex)

        def j(ans, acc=acc, ar=ar, gen=gen, us=us):
            t = ans.split()
            if acc is None:
                return 'the real _acceptance_ratio raised %s' % ar
            if (t[0] == 'T') != bool(acc):
                return 'accept: real %r, translated %s' % (acc, t[0])
            if t[1] == 'one':
                ok = ar == 1.0
            elif t[1] == 'zero':
                ok = ar == 0.0
            else:
                ok = _close(ar, math.exp(_rat(t[1][4:])), 1e-9)
            if not ok:
                return 'acceptance probability: real %r, translated %s' % (ar, t[1])
            if gen.used != len(us) - int(t[2]):
                return 'uniforms consumed: real %d, translated %d' % (gen.used, len(us) - int(t[2]))
            return None
        add('accept %s %s %s %s %s %s %s %s %s' % (fr(logp), fr(logl), fr(beta), fr(clp), fr(cll), 'T' if sym else 'F',
                                                  fr(rev), fr(fwd), frl(us)), j)

    # ---- the sweep loop: real swap_temperatures on a started tempered chain with scripted uniforms
    for _ in range(n):
        nt = rng.choice([2, 3, 4, 5])
        betas = sorted(rng.sample([Fraction(i, 16) for i in range(0, 17)], nt), reverse=True)
        xs = [rng.choice([Fraction(i, 4) for i in range(0, 13)]) for _ in range(nt)]
        logls = [-x for x in xs]

        def lm(x):
            return -x, 0.0
        pt = ParallelTemperedChain(['x'], lm, [P.Normal(['x'])], betas=numpy.array([float(b) for b in betas]),
                                   bit_generator=rng.randrange(1, 10 ** 6))
        pt.start_position = {'x': numpy.array([float(x) for x in xs])}
        for lv in pt.chains:
            lv.step()
        # the levels' current logls after one real step
        cur = [Fraction(float(lv.current_stats['logl'])) for lv in pt.chains]
        us_f, us_r = [], []
        loglk = cur[-1]
        for tk in range(nt - 1, 0, -1):
            tj = tk - 1
            la = (betas[tk] - betas[tj]) * (cur[tj] - loglk)
            # the loop's own carried value depends on the decisions; draw a uniform for every pair (unused
            # ones stay in the stream on both sides)
            e = math.exp(min(0.0, float(la)))
            u = min(0.999, max(1e-6, e * rng.choice([0.4, 0.7, 1.5, 2.5])))
            us_f.append(u)
            us_r.append(Fraction(math.log(u)))
        gen = _Gen(us_f)
        try:
            with patched(ParallelTemperedChain, 'random_generator', property(lambda self, gen=gen: gen)):
                pt.swap_temperatures()
            idx = [int(v) for v in numpy.atleast_1d(pt._temperature_swaps[0]['swap_index'])]
            ars = [float(v) for v in numpy.atleast_1d(pt._temperature_acceptance[0]['acceptance_ratio'])]
            err = None
        except Exception as ex:      # noqa: BLE001
            err = repr(ex)

        def j(ans, idx=None if err else idx, ars=None if err else ars, gen=gen, err=err, nus=len(us_r)):
            if err:
                return 'the real swap_temperatures raised %s' % err
            t = ans.split()
            if [int(v) for v in t[0].split(',')] != idx:
                return 'swap_index: real %s, translated %s' % (idx, t[0])
            for a, m in zip(ars, t[1].split(',')):
                want = 1.0 if m == 'one' else 0.0 if m == 'zero' else math.exp(_rat(m[4:]))
                if not _close(a, want, 1e-9):
                    return 'acceptance ratios: real %s, translated %s' % (ars, t[1])
            if gen.used != nus - int(t[2]):
                return 'uniforms consumed by the sweep: real %d, translated %d' % (gen.used, nus - int(t[2]))
            return None
        add('sweepLoop %d %s %s %s' % (nt, frl(betas), frl(cur), frl(us_r)), j)

    # ---- Veitch and vMF updates on real proposals with a stub chain
    class _Ch:
        def __init__(self, accepted, ar):
            self.acceptance = numpy.array([(ar, accepted)], dtype=[('acceptance_ratio', float), ('accepted', bool)])

    for _ in range(n):
        T = rng.randint(4, 30)
        st = rng.randint(1, 4)
        nst = rng.randint(0, T + 6)
        acc = rng.random() < 0.5
        xi = rng.choice([0.234, 0.5, 0.1])
        width = rng.choice([1.0, 2.0, 0.5])
        p = P.AdaptiveNormal(['x'], {'x': width}, T, start_step=st, target_rate=xi)
        p._nsteps = nst
        sigma0 = float(p._std[0])
        dk = nst - st + 1
        g = (float(dk) ** (-p.adaptation_decay) - p._decay_const) if dk >= 1 else 0.0
        p._update(_Ch(acc, 1.0 if acc else 0.0))
        new = float(p._std[0])
        add('veitch %d %d %d %s %s %s %s %s' % (nst, st, T, 'T' if acc else 'F', fr(xi), fr(g), fr(float(p.deltas[0])), fr(sigma0)),
            (lambda ans, new=new, nst=nst, st=st, T=T: None if _close(new, _rat(ans)) else
             'Veitch update at nsteps=%d start=%d T=%d: real width %r, translated %r' % (nst, st, T, new, _rat(ans))))
        q = P.AdaptiveIsotropicSolidAngle('a', 'b', T, start_step=st, target_rate=xi)
        q._nsteps = nst
        lk0 = float(q._log_kappa)
        ar = rng.choice([0.0, 0.25, 0.5, 1.0])
        g2 = (float(dk) ** (-0.6) - q._decay_const) if dk > 1 else 0.0
        q._update(_Ch(ar >= 0.5, ar))
        add('vmf %d %d %d %s %s %s %s' % (nst, st, T, fr(xi), fr(g2), fr(ar), fr(lk0)),
            (lambda ans, new=float(q._log_kappa), nst=nst, st=st, T=T: None if _close(new, _rat(ans)) else
             'vMF update at nsteps=%d start=%d T=%d: real log kappa %r, translated %r' % (nst, st, T, new, _rat(ans))))


    # ---- the annealer's ladder recursion: real DynamicalAnnealer.__call__ inside real runs, recorded
    from epsie.chain.ptchain import DynamicalAnnealer
    for _ in range(max(2, n // 4)):
        nt = rng.choice([3, 4, 5])
        betas = sorted(rng.sample([i / 16.0 for i in range(1, 16)], nt - 1) + [1.0], reverse=True)
        ann = DynamicalAnnealer(tau=rng.choice([20, 50]), nu=rng.choice([0.5, 2, 10]), Tmax_prior=rng.random() < 0.5)
        smp = ParallelTemperedSampler(['x'], model, 1, betas=numpy.array(betas), swap_interval=1,
                                      proposals=[P.Normal(['x'])], adaptive_annealer=ann, seed=rng.randrange(1, 10 ** 6))
        smp.start_position = {'x': numpy.array([[rng.uniform(-1, 1)] for _ in range(nt)])}
        calls = []
        ocall = DynamicalAnnealer.__call__

        def rec(self, chain, calls=calls, ocall=ocall):
            before = [float(b) for b in chain.betas]
            ocall(self, chain)
            calls.append((before, [float(v) for v in self._S], [float(b) for b in chain.betas],
                          [float(l.beta) for l in chain.chains]))
        DynamicalAnnealer.__call__ = rec
        try:
            smp.run(3)
        finally:
            DynamicalAnnealer.__call__ = ocall
        for before, S, after, levels in calls:
            es = [math.exp(v) for v in S]

            def j(ans, after=after, levels=levels, nt=nt):
                t = ans.split()
                got = [_rat(v) for v in t[0].split(',')]
                if len(got) != len(after) or not all(_close(a, b) for a, b in zip(got, after)):
                    return 'annealed ladder: real %s, translated %s' % (after, got)
                wl = [] if t[1] == '-' else [(int(e.split(':')[0]), _rat(e.split(':')[1])) for e in t[1].split(',')]
                if [i for i, _ in wl] != list(range(1, nt - 1)) or not all(_close(levels[i], v) for i, v in wl):
                    return 'levels written by the annealer: real level betas %s, translated write log %s' % (levels, wl)
                if not all(_close(levels[i], after[i]) for i in range(nt)):
                    return 'real levels %s differ from the real ladder %s' % (levels, after)
                return None
            add('annealLoop %d %s %s' % (nt, frl(before), frl(es)), j)

    # ---- the reported density of a transdimensional move: real NestedTransdimensional._logpdf
    K = 4
    names = ['a%d' % i for i in range(1, K + 1)]
    births = [P.UniformBirth([nm], {nm: (0., 4.)}) for nm in names]
    inner = [P.Normal([nm], cov=[rng.choice([0.25, 1.0])]) if i % 2 else P.BoundedNormal([nm], {nm: (0., 4.)}, cov=[0.5])
             for i, nm in enumerate(names)]
    mp = P.BoundedDiscrete(['k'], boundaries={'k': (0, K)}, successive={'k': True})
    ntp = P.NestedTransdimensional(names + ['k'], mp, inner, births)
    for _ in range(n):
        cur = [rng.random() < 0.5 for _ in range(K)]
        prop = list(cur)
        mv = rng.choice(['same', 'birth', 'death'])
        cand = [i for i in range(K) if (not cur[i] if mv == 'birth' else cur[i])]
        if mv != 'same' and cand:
            for i in rng.sample(cand, rng.randint(1, len(cand))):
                prop[i] = not prop[i]
        gx = {nm: (rng.uniform(0.5, 3.5) if cur[i] else numpy.nan) for i, nm in enumerate(names)}
        xi = {nm: (rng.uniform(0.5, 3.5) if prop[i] else numpy.nan) for i, nm in enumerate(names)}
        gx['k'], xi['k'] = sum(cur), sum(prop)
        gx['_state'], xi['_state'] = numpy.array(cur), numpy.array(prop)
        idx = float(mp.logpdf({'k': xi['k']}, {'k': gx['k']}))
        bl = [float(inner[i].birth_distribution.logpdf({nm: xi[nm]})) if prop[i] else 0.0 for i, nm in enumerate(names)]
        im = [float(inner[i].logpdf({nm: xi[nm]}, {nm: gx[nm]})) if (cur[i] and prop[i]) else 0.0 for i, nm in enumerate(names)]
        real = float(ntp._logpdf(xi, gx))
        if not all(math.isfinite(v) for v in [idx] + bl + im + [real]):
            continue
        add('tdLogpdf %d %s %d %d %s %s %s %s' % (K, fr(idx), xi['k'], gx['k'], ','.join('T' if b else 'F' for b in cur),
                                               ','.join('T' if b else 'F' for b in prop), frl(bl), frl(im)),
            (lambda ans, real=real, cur=cur, prop=prop: None if _close(real, _rat(ans), 1e-10) else
             'NestedTransdimensional._logpdf for states %s -> %s: real %r, translated %r' % (cur, prop, real, _rat(ans))))

    # ---- the transdimensional move: real NestedTransdimensional._jump with the index jump and the choice scripted
    class _CG:
        def __init__(self, chosen):
            self.chosen = chosen
            self.requests = []

        def choice(self, a, size=None, replace=True):
            self.requests.append(([int(v) for v in a], int(size)))
            return numpy.array(self.chosen, dtype=int)
    for _ in range(n):
        cur = [rng.random() < 0.5 for _ in range(K)]
        kk = sum(cur)
        mv = rng.choice(['same', 'birth', 'death'])
        cand = [i for i in range(K) if (not cur[i] if mv == 'birth' else cur[i])]
        if mv == 'same' or not cand:
            newk, chosen = kk, []
        else:
            chosen = rng.sample(cand, rng.randint(1, len(cand)))
            newk = kk + (len(chosen) if mv == 'birth' else -len(chosen))
        fx = {nm: (rng.uniform(0.5, 3.5) if cur[i] else numpy.nan) for i, nm in enumerate(names)}
        fx['k'] = kk
        fx['_state'] = numpy.array(cur)
        cg = _CG(chosen)
        mp.jump = lambda d, newk=newk: {'k': newk}
        try:
            with patched(P.NestedTransdimensional, 'random_generator', property(lambda self, cg=cg: cg)):
                out = ntp._jump(dict(fx))
            err = None
        except Exception as ex:      # noqa: BLE001
            err = repr(ex)
        finally:
            del mp.__dict__['jump']

        def j(ans, out=None if err else out, fx=fx, cur=cur, cg=cg, err=err, newk=newk):
            if err:
                return 'the real _jump raised %s' % err
            t = ans.split()
            st = [bool(b) for b in out['_state']]
            if int(t[0]) != int(out['k']) or [c == 'T' for c in t[1].split(',')] != st:
                return 'proposed index/state: real %r %s, translated %s %s' % (out['k'], st, t[0], t[1])
            reqs = [] if t[2] == '-' else [([int(v) for v in r.split(':')[0].split(';') if v != '-'], int(r.split(':')[1])) for r in [t[2]]]
            if reqs != cg.requests:
                return 'request made to choice(): real %s, translated %s' % (cg.requests, reqs)
            lst = lambda tok: [] if tok == '-' else [int(v) for v in tok.split(',')]     # noqa: E731
            born = [i for i, nm in enumerate(names) if numpy.isnan(fx[nm]) and not numpy.isnan(out[nm])]
            killed = [i for i, nm in enumerate(names) if not numpy.isnan(fx[nm]) and numpy.isnan(out[nm])]
            moved = [i for i, nm in enumerate(names) if cur[i] and st[i]]
            if lst(t[3]) != born or lst(t[4]) != killed or lst(t[5]) != moved:
                return 'born/killed/moved: real %s %s %s, translated %s %s %s' % (born, killed, moved, t[3], t[4], t[5])
            if not all(out[names[i]] != fx[names[i]] for i in moved):
                return 'a component active on both sides did not make an in-model jump'
            return None
        add('tdJump %d %d %d %s %s' % (K, kk, newk, ','.join('T' if b else 'F' for b in cur),
                                     ','.join(str(c) for c in chosen) if chosen else '-'), j)

    # ---- Chain.clear: which arrays are cleared to which length, what becomes the start state
    from epsie.chain.chaindata import ChainData
    for hb in (False, True):
        def mb2(x):
            return -math.floor(x * x * 8) / 16.0, 0.0, {'b': x}
        for nsteps_ in (0, 3):
            ch = Chain(['x'], mb2 if hb else model, [P.Normal(['x'])], bit_generator=rng.randrange(1, 10 ** 6))
            ch.start_position = {'x': 0.25}
            ch.scratchlen = rng.randint(4, 9)
            for _ in range(nsteps_):
                ch.step()
            it, lc, sl = ch.iteration, ch.lastclear, ch.scratchlen
            cur = dict(ch.current_position) if nsteps_ else None
            old_start = dict(ch._start)
            log = []
            names_ = {id(ch._positions): 'positions', id(ch._stats): 'stats', id(ch._acceptance): 'acceptance'}
            if ch._blobs is not None:
                names_[id(ch._blobs)] = 'blobs'
            with patched(ChainData, 'clear', (lambda self, newlen=None, log=log, names_=names_, oc=ChainData.clear:
                                               (log.append((names_.get(id(self), '?'), newlen)), oc(self, newlen))[1])):
                ch.clear()

            def j(ans, ch=ch, log=log, cur=cur, old_start=old_start, it=it):
                t = ans.split()
                want_start = 'cur' if it > 0 else 'old'
                real_start = 'cur' if (cur is not None and dict(ch._start) == cur and it > 0) else 'old' if dict(ch._start) == old_start else '?'
                if t[0] != want_start and it > 0 or (it > 0 and real_start != t[0]) or (it == 0 and t[0] != 'old'):
                    return 'start position after clear(): real %s, translated %s' % (real_start, t[0])
                got = [] if t[3] == '-' else [(e.split(':')[0], int(e.split(':')[1])) for e in t[3].split(',')]
                if got != [(a, int(b)) for a, b in log]:
                    return 'arrays cleared: real %s, translated %s' % (log, got)
                if int(t[4]) != ch.lastclear:
                    return 'lastclear after clear(): real %d, translated %s' % (ch.lastclear, t[4])
                return None
            add('clear %s %d %d %d' % ('T' if hb else 'F', it, lc, sl), j)

    # ---- Sivia-Skilling update: real SSAdaptiveNormal._update with a stub chain
    for _ in range(n):
        nst = rng.randint(0, 30)
        nacc0 = rng.randint(0, nst + 1)
        acc = rng.random() < 0.5
        p = P.SSAdaptiveNormal(['x'], cov=[rng.choice([0.25, 1.0, 4.0])], max_cov=rng.choice([None, 2.0, 100.0]))
        p._nsteps = nst
        p.n_accepted = nacc0
        xi = float(p.target_rate)
        scale0 = float(p._std[0])
        mx = float(p._std.max())
        nacc1 = nacc0 + int(acc)
        n_iter = nst - (p.start_step - 1) + 1
        eUp = float(numpy.exp(1 / nacc1)) if nacc1 > 0 else 1.0
        eDown = float(numpy.exp(-1 / (n_iter - nacc1))) if n_iter - nacc1 > 0 else 1.0
        sUp, sDown = eUp ** 0.5, eDown ** 0.5
        if eUp == 1.0 or eDown == 1.0 or eUp == eDown:
            continue
        try:
            p._update(_Ch(acc, 1.0 if acc else 0.0))
        except Exception:      # noqa: BLE001
            continue
        ms = float(p.max_std)
        if not math.isfinite(ms):
            ms = 1e30
        add('ss %d %d %s T %s %s %s %d %s %s %s %s %s' % (nst, p.start_step, 'T' if acc else 'F', fr(xi), fr(mx), fr(ms), nacc0,
                                                        fr(scale0), fr(eUp), fr(eDown), fr(sUp), fr(sDown)),
            (lambda ans, new=float(p._std[0]), na=int(p.n_accepted), nst=nst, nacc0=nacc0: None
             if (int(ans.split()[0]) == na and _close(new, _rat(ans.split()[1]), 1e-10)) else
             'Sivia-Skilling update at nsteps=%d n_accepted=%d: real (%d, %r), translated %s' % (nst, nacc0, na, new, ans)))

    # ---- the acceptance rule where a likelihood vanishes: real _acceptance_ratio with -inf arguments
    def tok(v):
        return '-inf' if v == -math.inf else 'inf' if v == math.inf else 'nan' if v != v else fr(v)
    for _ in range(n):
        logp, clp = [rng.choice(DYADIC) for _ in range(2)]
        logl = rng.choice([rng.choice(DYADIC), -math.inf, -math.inf])
        cll = rng.choice([rng.choice(DYADIC), rng.choice(DYADIC), -math.inf])
        beta = rng.choice([Fraction(0), Fraction(0), Fraction(1, 4), Fraction(1)])
        u = rng.choice([0.05, 0.3, 0.7, 0.95])
        ch = Chain(['x'], model, [P.Normal(['x'])], bit_generator=3, beta=float(beta))
        gen = _Gen([u])
        ch.proposal_dist = _PD(True, 0.0, 0.0, gen)
        try:
            acc, ar = Chain._acceptance_ratio(ch, float(logp), float(logl), 'prop', float(clp), float(cll), 'cur')
            raised = False
        except ValueError:
            acc, ar, raised = False, float('nan'), True

        def j(ans, acc=acc, ar=ar, raised=raised, gen=gen):
            t = ans.split()
            if t[1] == 'nan':
                return None if raised else 'the translated kernel raises (nan) but the real method returned %r' % ((acc, ar),)
            if raised:
                return 'the real method raised but the translated kernel gives %s' % ans
            want = 1.0 if t[1] == 'one' else 0.0 if t[1] == 'zero' else math.exp(_rat(t[1][4:]))
            if not _close(ar, want, 1e-9):
                return 'acceptance probability: real %r, translated %s' % (ar, t[1])
            if (t[0] == 'T') != bool(acc):
                return 'accept: real %r, translated %s' % (acc, t[0])
            if gen.used != 1 - int(t[2]):
                return 'uniforms consumed: real %d, translated %d' % (gen.used, 1 - int(t[2]))
            return None
        add('acceptX %s %s %s %s %s T 0 0 %s' % (tok(float(logp)), tok(logl), fr(beta), tok(float(clp)), tok(cll),
                                                 fr(Fraction(math.log(u)))), j)

    # ---- Chain.state keys and the keys set_state reads
    ch = Chain(['x'], model, [P.Normal(['x'])], bit_generator=5)
    ch.start_position = {'x': 0.5}
    ch.step()
    st = ch.state
    add('stateKeys', eq(','.join(st.keys()), 'keys of Chain.state'))

    class _Rec(dict):
        reads = []

        def __getitem__(self, k):
            _Rec.reads.append(k)
            return dict.__getitem__(self, k)
    ch2 = Chain(['x'], model, [P.Normal(['x'])], bit_generator=6)
    _Rec.reads = []
    ch2.set_state(_Rec(st))
    add('stateReads', eq(','.join(_Rec.reads), 'keys read by Chain.set_state, in order'))
    return req, judges, hist


def _real_jump(p):
    saved = p.__dict__.get('_jump')
    p._jump = lambda fromx: 'jumped'
    try:
        return p.jump('copied')
    finally:
        if saved is None:
            del p.__dict__['_jump']


def _real_logpdf(p, lp):
    p._logpdf = lambda xi, givenx: lp
    try:
        return p.logpdf({}, {})
    finally:
        del p.__dict__['_logpdf']


def _real_update(p):
    flag = []
    p._update = lambda chain: flag.append(1)
    try:
        p.update(None)
        return bool(flag), int(p._nsteps)
    finally:
        del p.__dict__['_update']


KERNEL_PROPERTY = {
    'nsteps': 'C15', 'callJump': 'C15', 'jump': 'C15', 'logpdf': 'C15', 'update': 'C15', 'resetStart': 'C19',
    'chainLen': 'C08', 'getitem': 'C08', 'runGrowth': 'C06', 'sweepDue': 'C09', 'rowsViewed': 'C09',
    'sweepRow': 'C09', 'accept': 'C01', 'sweepLoop': 'C03', 'veitch': 'C13', 'vmf': 'C13',
    'stateKeys': 'C05', 'stateReads': 'C05', 'annealLoop': 'C17', 'tdLogpdf': 'C11', 'tdJump': 'C10', 'clear': 'C06', 'ss': 'C13', 'acceptX': 'C01'}


def run(seed, n, prop=None):
    """-> (divergences: list of text, stats); with `prop`, only the kernels tied under that property."""
    import logging
    logging.disable(logging.WARNING)
    try:
        req, judges, hist = build(seed, n)
    finally:
        logging.disable(logging.NOTSET)
    if prop is not None:
        keep = [i for i, l in enumerate(req) if KERNEL_PROPERTY.get(l.split()[0]) == prop]
        req = [req[i] for i in keep]
        judges = [judges[i] for i in keep]
        hist = {k: v for k, v in hist.items() if KERNEL_PROPERTY.get(k) == prop}
    if not req:
        return [], {'requests': 0, 'by_kernel': {}, 'divergences': 0}
    out = run_driver(req)
    divs = []
    if len(out) != len(req):
        divs.append('the driver answered %d of %d requests; last output: %r' % (len(out), len(req), out[-1:] and out[-1][:300]))
    for line, judge, ans in zip(req, judges, out):
        if ans.startswith('bad-op'):
            divs.append('%s -> %s' % (line, ans))
            continue
        try:
            r = judge(ans)
        except Exception as ex:      # noqa: BLE001
            r = 'judge failed on %r: %r' % (ans, ex)
        if r:
            divs.append('%s: %s' % (line, r))
    return divs, {'requests': len(req), 'by_kernel': hist, 'divergences': len(divs)}
