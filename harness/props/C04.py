"""C04 — same seed and inputs give bit-identical results in any process; different chains
draw from different streams; every random decision of a chain comes from its own stream.

proof:   EpsieProps/C04.lean (C04_chain_owns_its_draw_sites, C04_chains_distinct,
         C04_env_independent for every code variant; C04_pinned_counterexample_* showing
         that each hypothesis is necessary; C04_generated_* = `decide` over the tables
         regenerated from /repo: draw-site partition of real samplers = model, scan sites
         accounted for)
tie:     harness/gen_sharing.py (tables, measured variant) + suite `streams`
         (harness/streams.py): model vs real object graph on random constructions,
         draw log (which generator object served which decision)
search:  digests across independent interpreter sessions (PYTHONHASHSEED, global seeds,
         decoys), pairwise coinciding streams, ownership of every draw — on the real code,
         with oracles that come from the property statement; proposals / births / nested
         inner proposals that were used (generator read, jump, logpdf, birth, update) before
         the sampler got them, and re-used for a second sampler: the run must equal the run
         with untouched objects, whatever generator the objects had before (the sessions run
         the code under test unpatched: verified in every session)
"""
import streams


def run(chk, tier, proof_ok):
    proof_ok, info, excluded = streams.refresh_tables(chk, proof_ok)
    chk.assumptions += excluded
    chk.assumptions += ['numpy: different SeedSequence spawn keys give independent streams; equal generator state '
                        'gives equal numbers (trusted)',
                        'determinism of run() given the built object graph is not an obligation of the pure model; '
                        'it is exercised by the cross-session digests']
    # the independent interpreter sessions run while this process does the correspondence
    started = streams.c04_sessions_start(chk, tier)
    n = 60 if tier == 'quick' else 600
    divs, findings = streams.correspondence(chk, n, info['variant'])
    # the search always runs (a failing input on the real code is a violation whether or not the
    # model noticed); in full as soon as a proof obligation or the correspondence is broken
    full = tier if (proof_ok and not divs) else 'thorough'
    findings += streams.c04_inprocess(chk, full)
    found = streams.c04_search(chk, tier, started)
    if full != tier and not found:
        found = streams.c04_search(chk, full)
    findings += found
    streams.report(chk, proof_ok, divs, findings)


def replay(path):
    return streams.replay(path)
