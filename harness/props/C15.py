"""C15 — a slow parameter moves only every jump_interval-th step, then every step.

proof:   EpsieProps/C15.lean (schedule characterisation, counter invariant, non-jump effects,
         others unaffected, clear/resume invariance) + EpsieProps/C15Table.lean (generated
         obligation: every class honours a requested jump_interval)
tie:     plumbing correspondence with slow proposals (J oracle entries appear exactly when the
         model says the proposal is due; Q entries only for due non-symmetric ones; nev counts)
search:  per-parameter moved/not-moved against the schedule stated in the property, adaptation
         digests and recorded acceptance ratios on non-due iterations, with clear/resume interruptions
"""
import realsearch
from props import _plumb


def run(chk, tier, proof_ok):
    n = 40 if tier == 'quick' else 400
    divs, errs = _plumb.correspondence(chk, n, dict(allow_saveload=True, allow_slow=True, max_ops=10, allow_reset=True,
                                                    allow_loadinto=True, window_choices=[2, 3, 4, 6]))
    full = tier == 'thorough' or not proof_ok or bool(divs) or bool(errs)
    findings, st = realsearch.schedule_findings(chk.seed * 13 + 5, full=full)
    chk.coverage['search'] = dict(st, oracle='closed-form schedule from the property statement; moved/not-moved per '
                                  'parameter, adaptation digest, acceptance ratio on non-due iterations; '
                                  'interruptions by clear and by resume at a random cut')
    chk.coverage['evaluations'] = chk.coverage.get('evaluations', 0) + st['configurations']
    _plumb.report(chk, proof_ok, divs, errs, findings)


def replay(path):
    return _plumb.replay_case(path)
