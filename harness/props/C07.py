"""C07 — chains are independent of the pool, of scheduling and of each other.

proof:   EpsieProps/C07.lean (C07_pool_irrelevant, C07_pool_irrelevant_runs, C07_chain_local over
         any framed system with an empty Shared store; C07_built_sampler_shares_only_the_annealer,
         C07_built_sampler_pool_irrelevant for the construction of /repo, every variant;
         C07_pinned_counterexample_*; C07_generated_* = `decide` over the tables regenerated
         from /repo: cross-chain mutable objects of real samplers = model)
tie:     harness/gen_sharing.py + suite `streams` (model vs pickle-style traversal of the real object
         graph, fresh and after start + run; draw log: only generators of the running chain advance,
         global generators untouched)
search:  per-chain histories under pool=None vs deep-copying map, chunked copies, reversed / shuffled
         evaluation, multiprocessing.Pool(k), with and without reset_after_swap; perturbed start of one
         chain vs every other chain; a fresh interpreter that creates its pools (fork and spawn) before
         anything of epsie exists, then builds the samplers (reset_after_swap, adaptive proposals, dynamic
         ladder) and compares serial with pooled runs; resets compared with the values each proposal was
         constructed with; unrelated proposals constructed in the process; class-level attributes before / after;
         sequences of run / clear / run(0) / state reloads through every pool kind, everything readable compared
         after every run; the caller's input objects (start arrays, betas, proposals, model) digested before /
         after every construction, start and run for every proposal family, and samplers given the SAME input
         objects against a sampler with copies of its own
"""
import streams
import gen_sharing as G


def run(chk, tier, proof_ok):
    proof_ok, info, excluded = streams.refresh_tables(chk, proof_ok)
    chk.assumptions += [e for e in excluded if e.startswith('C07')]
    chk.assumptions += ['frame condition: a chain\'s step touches only objects reachable from the chain (no module-level '
                        'mutable state): tied by the scan table and the draw log, not proved',
                        'OS scheduling and pickling fidelity are exercised (process pools), not proved; a pool that '
                        'hangs is exit code 2']
    pf = streams.poolfirst_start(chk, tier)     # a session of its own: runs while this process works
    n = 40 if tier == 'quick' else 300
    divs, fnd = streams.correspondence(chk, n, info['variant'])
    findings = [f for f in fnd if f[0] == 'global-rng-consumed']
    # the real object graph after start and run vs the model's Shared store
    after = streams.sharing_findings(tier)
    models = streams.lean_reports([(info['variant'], cfg, []) for _, cfg, _ in after])
    for (name, cfg, kinds), m in zip(after, models):
        want = [k for k in m.split(';; shared ')[-1].strip().split(',') if k]
        if sorted(want) != sorted(kinds):
            divs.append({'cfg': cfg, 'model': 'shared after run: %s' % want, 'real': 'shared after run: %s' % kinds,
                         'order': []})
    # the search always runs (a failing input on the real code is a violation whether or not the model
    # noticed): first the cases about state that no pickle carries (pools that exist before the sampler,
    # fork and spawn; class-level attributes), then pools / orders / perturbations in this process; when a
    # proof obligation or the correspondence is broken and the tier's search found no failing input, in full
    broken = not (proof_ok and not divs)
    for t in [tier] + (['thorough'] if broken and tier != 'thorough' else []):
        started = pf if pf['tier'] == t else streams.poolfirst_start(chk, t)
        found = streams.class_state_search(chk, t)
        found += streams.inputs_search(chk, t)
        found += streams.c07_search(chk, t)
        found += streams.poolfirst_search(chk, t, started)
        findings += found
        if found:
            break
    cs = info.get('class_state', [])
    chk.coverage['class_level_state_scan'] = dict(info.get('class_bindings', {}), mutated=[list(x[:5]) for x in cs])
    streams.report(chk, proof_ok, divs, findings)


def replay(path):
    return streams.replay(path)
