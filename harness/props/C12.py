"""C12 — proposed points always lie in the proposal's declared domain.

proof:   EpsieProps/C12.lean over the model EpsieModel/Domain.lean
         (C12_bounded_in_bounds[_discrete], C12_bounded_eigen_tolerance*, C12_outside_refuses*,
          C12_discrete_integer, C12_nonsuccessive_moves*, C12_angular_*, C12_vmf_*,
          C12_rotation_*, C12_spherical_ranges*, C12_solid_angle_jump_ranges_partial,
          C12_birth_*, pinned counterexamples)
tie:     harness/domain.py — real jump()/birth under scripted base draws against the Lean
         driver DriverDomain.lean (decisions, integers, draw counts exact; float-vs-exact values 1e-9)
search:  harness/domain.py — the property's own oracle (membership, integrality, not the current
         integer, no NaN, refusal from outside, own density positive) on the real code over grids
         of boundary positions, poles, scales 1e-12..1e+12 x width, extreme base draws,
         1..3 parameters, all conventions, adaptive variants at adapted scales; plus
         proposed_position along runs of real chains of every family
streaks: harness/domain.py (gen_streaks) — every rejection loop (bounded normal / bounded discrete /
         zero-draw loop of the discrete family / angular / bounded eigenvector and all adaptive
         variants), each parameter position, is served 99..65536 (thorough: ..250001) out-of-domain
         draws and then a landing one: the output must be the image of the landing draw after
         streak+1 draws (walk over the generator log + the Lean model, whose loops are unbounded)
types:   harness/domain.py (gen_start_types, case field xtype) — every discrete family jumps from
         integers, integer-valued and non-integer floats (k+-0.5, k+-1e-9, negative: int() truncates
         toward zero), numpy int/float scalars, 0-d arrays, bools: proposals must be integers (in
         bounds, not the current integer) and equal the model's truncZ x + step
by name: harness/domain.py (gen_named, spec field cfg) — boundaries / successive / prior widths /
         birth means and stds handed over as dicts in another key order than `parameters`, with
         extra keys, and set again after construction: same scripted call, same outcome as with
         dicts in parameter order (metamorphic check on the real code), usual oracle and model on top
"""
import json
import time

import domain


def run(chk, tier, proof_ok):
    t0 = time.time()
    full = tier == 'thorough' or not proof_ok
    stats = {}
    cases = domain.all_cases(chk.seed, tier, full)
    every = 1 if full else 10
    findings, divs, stats = domain.run_suite(cases, do_model=True, stats=stats, model_every=every)
    if [d for d in divs if not d.get('flagged')] and not full:
        # the correspondence broke on a case that is not itself a failing input found above:
        # run the full search (and the full correspondence)
        full = True
        every = 1
        cases = domain.all_cases(chk.seed, 'thorough', True)
        stats = {}
        findings, divs, stats = domain.run_suite(cases, do_model=True, stats=stats, model_every=1)

    run_findings = domain.random_runs(chk.seed, 'thorough' if full else 'quick', stats)
    have = {k for k, _, _ in findings}
    findings += [f for f in run_findings if f[0] not in have]

    cov = chk.coverage
    ncalls = sum(v['calls'] for k, v in stats.items() if not k.startswith('_'))
    cov['evaluations'] = ncalls + stats.get('_random_run_proposals', 0)
    cov['random_run_proposals'] = stats.get('_random_run_proposals', 0)
    cov['distinct_nontrivial'] = stats.get('_distinct', 0)
    cov['rule'] = ('one evaluation = one real jump()/birth call under a scripted generator, judged by the '
                   'property\'s own oracle; non-trivial = consumed at least one base draw or refused; '
                   'distinct = distinct (family, configuration, start point, script) descriptions; the directed '
                   'rejection-streak and name-keyed-configuration cases are part of these numbers and are '
                   'itemised under rejection_streaks / name_keyed_configuration')
    cov['correspondence'] = {
        'compared_with_model': stats.get('_compared', 0), 'divergences': len(divs),
        'model_answers': stats.get('_model_answers', {}), 'sampling': 'every %d-th case, and every rejection-streak / name-keyed case marked for it' % every}
    cov['search'] = {
        'mode': 'full' if full else 'light',
        'oracle': 'bounded: lo <= y <= hi (eigenvector: within its isclose tolerance); discrete: int type, '
                  'integer bounds, != current integer unless successive; angular: 0 <= y <= 2pi; solid angle: '
                  'azimuth/polar in the ranges of the convention, not NaN; births: own logpdf finite; '
                  'start outside the bounds: must raise',
        'per_group': {k: v for k, v in stats.items() if not k.startswith('_')},
        'failing_inputs_per_key': stats.get('_finding_counts', {}),
        'skipped': stats.get('_skipped_reasons', {})}
    # the two directed suites: measured numbers of this run
    cov['rejection_streaks'] = dict(stats.get('_streaks', {}), rule=(
        'one case = one real jump() whose generator serves, at one loop position, a streak of draws with image '
        'outside the declared domain and then a landing draw (2..4 rejections at the other positions); lengths '
        'are measured on the log of the real call; judged_by_walk = outcome compared with the first conforming '
        'draw of the logged stream; compared_with_model = the same through DriverDomain (streaks over %d only '
        'at the first position of a family)' % domain.STREAK_MODEL_MAX))
    cov['name_keyed_configuration'] = dict(stats.get('_named', {}), rule=(
        'variant = real object configured from dicts laid out as per_layout says (key order relative to '
        '`parameters`, two extra keys, set again through the setters); pairs_compared = the same scripted call on '
        'the object configured in parameter order; pairs_identical = same kind of outcome, same values, same '
        'number of base draws; variant_not_accepted = layouts the code under test refused to construct (no alarm)'))
    cov['start_point_types'] = dict(stats.get('_start_types', {}), rule=(
        'one case = one real jump() of a discrete family from a current point whose values are handed over as the '
        'types counted in per_type_of_start (same numbers to the model); judged by the usual oracle: integer type, '
        'in bounds, not the current integer int(x) without successive jumps, refusal from outside'))
    picks = cases[:: max(1, len(cases) // 6)][:6]
    picks += [c for c in cases if c.get('xtype') and 'array0d' in c['xtype'].values()][:1]
    picks += [c for c in cases if domain.is_streak(c) and max(c['tail'][1]) <= 101][:1]
    picks += [c for c in cases if domain.cfg_is_variant(c['spec'].get('cfg')) and c['spec'].get('cfg', {}).get('extra')][:1]
    for c in picks:
        try:
            prop, res = domain.run_case(c)
            pr = domain.protocol(c['spec'], prop, c['fromx'], res) if prop is not None else None
            chk.samples.append({'case': domain.describe(c), 'real': res['kind'] if prop is not None else res,
                                'out': repr(res['out']) if prop is not None else None,
                                'request': pr[0][:400] if pr else None})
        except Exception as e:       # noqa: BLE001
            chk.samples.append({'case': domain.describe(c), 'error': repr(e)})

    # ---- report
    new_findings = 0
    for key, text, payload in findings:
        if key not in chk.known:
            new_findings += 1
        payload = dict(payload)
        payload['count_this_run'] = stats.get('_finding_counts', {}).get(key)
        chk.violation(key, text, payload, True)
    broken = []
    if not proof_ok:
        broken += ['lean: ' + str(o[0]) + ' ' + str(o[2]) for o in chk.broken_obligations()]
    # the model follows the code also where the code is defective (NaN outcomes, zero draws), so a
    # divergence is never "explained" by a recorded finding; only a case that is itself a failing
    # input reported above needs no second report
    unexplained = [d for d in divs if not d.get('flagged')]
    if unexplained:
        d = unexplained[0]
        broken.append('correspondence suite domain: %d diverging case(s); first (%s): %s; model %r vs real %r' % (
            len(unexplained), d['case']['spec']['family'], d['why'], d['model'][:200], d['real']))
    if broken:
        payload = {'no_longer_checks': broken, 'suite': 'correspondence',
                   'case': unexplained[0]['case'] if unexplained else None,
                   'request': unexplained[0]['request'] if unexplained else None,
                   'how_to_replay': './check C12 --replay <this file>'}
        if new_findings == 0:
            chk.violation('unproved', '; '.join(broken)[:1500], payload, False)
        else:
            chk.notes.append('also broken (a failing input was found, so no separate report): ' + '; '.join(broken)[:800])
    cov['wall_domain_s'] = round(time.time() - t0, 1)


def replay(path):
    d = json.load(open(path))
    c = d.get('case')
    if not c:
        print('replay file carries no case; it names what no longer checks:', d.get('no_longer_checks'))
        return 0
    return domain.replay_case(c)
