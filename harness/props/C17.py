"""C17 — ladder coherence.

proof:   EpsieProps/C17.lean (C17_sorted_in_range, C17_out_of_range_rejected, C17_coherent,
         C17_fresh_coherent, C17_step_uses_level_beta, C17_endpoints_fixed, C17_anneal_keeps_endpoints,
         C17_order_preserved)
tie:     plumbing correspondence on parallel-tempered configurations incl. dynamically annealed
         ladders (the dump compares the ladder array AND every level's beta, and every recorded
         acceptance ratio is recomputed by the model with the level's beta); `setbetas` / `anneal`
         driver ops against the real setter and the real annealer with numpy's exp(S) as oracle
search:  ladder array vs level betas vs sampler report after every iteration, end points, order
"""
import random

import numpy

import common
import realsearch
from props import _plumb


def _setter_and_annealer(chk):
    """Model ops `setbetas` / `anneal` against the real code."""
    from epsie.chain.ptchain import ParallelTemperedChain, DynamicalAnnealer
    from epsie.proposals import Normal
    rng = random.Random(chk.seed * 23 + 9)
    lines, expect = ['case ladder'], ['case ladder']
    for _ in range(40):
        n = rng.randint(1, 6)
        bs = [rng.choice([0.0, 0.125, 0.25, 0.5, 0.75, 1.0, 1.0, 1.5, -0.25]) for _ in range(n)]
        lines.append('op setbetas %s' % common.csv(bs))
        try:
            ch = ParallelTemperedChain(['x'], lambda **k: (0.0, 0.0), [Normal(['x'])], betas=numpy.array(bs),
                                       bit_generator=1)
            expect.append('setbetas %s' % common.csv(float(b) for b in ch.betas))
        except ValueError:
            expect.append('setbetas raise')
    out = common.run_driver(lines)
    divs = []
    d = common.first_divergence(out, expect)
    if d is not None:
        divs.append('ladder setter: model %r vs real %r' % (d[1], d[2]))
    # annealer recursion with numpy's exp(S) as the oracle
    nann = 0
    batch = []
    for _ in range(30):
        n = rng.randint(3, 6)
        betas = numpy.array(sorted([1.0] + [rng.uniform(0.05, 0.95) for _ in range(n - 2)] + [rng.choice([0.0, 0.01])],
                                   reverse=True))

        class FakeChain:
            pass
        ann = DynamicalAnnealer(tau=rng.choice([20, 100]), nu=rng.choice([2, 10]), Tmax_prior=False)
        b0 = betas.copy()
        if b0[-1] == 0.0:
            b0[-1] = 0.01
        ann.setup_annealing(b0)
        fc = FakeChain()
        fc.iteration = rng.randint(1, 50)
        fc.swap_interval = 1
        fc.ntemps = n
        fc.betas = b0.copy()
        fc.lastclear = 0
        ars = numpy.array([rng.random() for _ in range(n - 1)])
        fc.temperature_acceptance = ars.reshape(-1, 1)

        class Row(dict):
            pass

        class Scratch:
            def __getitem__(self_, i):
                return {'acceptance_ratio': ars}
        fc._temperature_acceptance = Scratch()
        fc.__class__.__len__ = lambda self_: self_.iteration - self_.lastclear
        fc.chains = [type('L', (), {'beta': float(b)})() for b in b0]
        old = fc.betas.copy()
        try:
            ann(fc)
        except Exception as e:      # the annealer's interface changed: reported as a correspondence break
            divs.append('annealer call raised %r on a stand-in chain' % (e,))
            break
        es = numpy.exp(ann._S)
        batch.append((old, es, [float(b) for b in fc.betas]))
        nann += 1
    if batch:
        lines = ['case a'] + ['op anneal %s %s' % (common.csv(o), common.csv(e)) for o, e, _ in batch]
        ml = [l for l in common.run_driver(lines) if l.startswith('anneal ')]
        for (o, e, real), line in zip(batch, ml):
            got = [float(common.parse_frac(x)) for x in line.split(' ')[1].split(',')]
            if len(got) != len(real) or not all(abs(g - r) <= 1e-9 * max(abs(r), 1e-300) for g, r in zip(got, real)):
                divs.append('annealer recursion: model %s vs real %s' % (got, real))
                break
        if len(ml) != len(batch):
            divs.append('annealer recursion: the model answered %d of %d cases' % (len(ml), len(batch)))
    chk.coverage.setdefault('correspondence', {})['ladder'] = {'setter_cases': 40, 'annealer_cases': nann,
                                                               'divergences': len(divs)}
    return divs


def run(chk, tier, proof_ok):
    n = 40 if tier == 'quick' else 400
    divs, errs = _plumb.correspondence(chk, n, dict(kinds=('pt',), allow_saveload=False, allow_dynamic=True,
                                                    ntemps_choices=(2, 3, 4, 5), max_ops=8))
    extra = _setter_and_annealer(chk)
    full = tier == 'thorough' or not proof_ok or bool(divs) or bool(errs) or bool(extra)
    findings, st = realsearch.ladder_findings(chk.seed * 29 + 6, full=full)
    # adapted ladders that are no longer monotone (finite hottest temperature), saved and loaded: the
    # ladder array must come back as it was saved and equal the levels' betas
    lf, nl = realsearch.ladder_state_roundtrip_findings(chk.seed * 41 + 5, 40 if full else 8)
    findings = findings + [f for f in lf if f[0] in ('state-roundtrip-ladder-incoherent', 'state-roundtrip-ladder-raises')]
    st['nonmonotone_ladder_roundtrips'] = nl
    rf, rst = realsearch.ladder_reassign_findings(chk.seed)
    findings = findings + rf
    st['reassigned_ladders'] = rst
    chk.coverage['search'] = dict(st, oracle='ptchain.betas == [level.beta] == sampler.betas after every iteration; '
                                  'end points fixed; strict order with the default infinite hottest temperature')
    chk.coverage['evaluations'] = chk.coverage.get('evaluations', 0) + st['configurations']
    if extra and not findings:
        divs = divs or [{'case': None, 'model_line': extra[0], 'real_line': '', 'index': 0}]
        if divs and divs[0]['case'] is None:
            chk.violation('unproved', 'correspondence suite ladder no longer checks: ' + '; '.join(extra)[:800],
                          {'no_longer_checks': extra}, False)
            divs = []
    _plumb.report(chk, proof_ok, divs, errs, findings)


def replay(path):
    return _plumb.replay_case(path)
