"""C18 — the model is evaluated once per step per level and never otherwise.

proof:   EpsieProps/C18.lean (C18_start_one_call, C18_step_one_call, C18_no_extras,
         C18_others_no_call, C18_sweep_no_call, C18_iteration_calls, C18_run_count,
         C18_recorded_from_that_call)
tie:     plumbing correspondence: the oracle queue carries one E entry per real evaluation, in
         order; the model consumes exactly the entries it expects (a missing or extra
         evaluation is a DESYNC) and the dump compares the running total
search:  counting + stateful model on real runs (partitions, clears, resumes, swaps, blobs)
"""
import realsearch
from props import _plumb


def run(chk, tier, proof_ok):
    n = 40 if tier == 'quick' else 400
    divs, errs = _plumb.correspondence(chk, n, dict(allow_saveload=True, max_ops=8))
    full = tier == 'thorough' or not proof_ok or bool(divs) or bool(errs)
    cases = realsearch.gen_cases(chk.seed * 11 + 3, 600 if full else 60, allow_saveload=True)
    # directed: componentwise Andrieu-Thoms scaling through and past its adaptation window
    import random
    import plumbing
    drng = random.Random(chk.seed * 47 + 3)
    for fam in ('at_adaptive_normal', 'at_adaptive_bounded_normal', 'at_adaptive_angular'):
        for _ in range(4 if full else 2):
            c = plumbing.gen_case(drng, 'comp', families=[fam], allow_saveload=True, allow_slow=False)
            for _, _, kw in c.props:
                kw['componentwise'] = True
                kw['window'] = drng.choice([3, 4, 5, 6])
            c.ops = [('run', 1), ('run', 2), ('run', 1), ('run', 1), ('run', 1), ('run', 1), ('run', 2), ('dump',),
                     ('saveload',), ('run', 3)]
            cases.append(c)
    findings = []
    for c in cases:
        for key, text, payload in realsearch.call_count_findings(c):
            if not any(k == key for k, _, _ in findings):
                findings.append((key, text, payload))
    chk.coverage['search'] = {'cases': len(cases), 'oracle': 'call counter and stateful blobs (call index) on real samplers; '
                              'expected counts from the property statement'}
    chk.coverage['evaluations'] = chk.coverage.get('evaluations', 0) + len(cases)
    _plumb.report(chk, proof_ok, divs, errs, findings)


def replay(path):
    return _plumb.replay_case(path)
