"""C05 — resuming from a saved state continues exactly as the uninterrupted run.

proof:   EpsieProps/C05.lean (C05_proposal_roundtrip, C05_resume_level, C05_related_save_equal,
         C05_resume_bisim — every cut, every continuation —, C05_resume_of_resume,
         C05_incomplete_state_counterexample) + EpsieProps/C05Table.lean (StateComplete of the
         tables regenerated from the live classes on every run)
tie:     plumbing correspondence with save / load-into-a-fresh-sampler operations at random cuts
search:  every-cut resume on the real code (fresh sampler with another seed, pickled state),
         suffix history and final structural state compared bit for bit; chains of two resumes
"""
import random

import plumbing
import realsearch
from props import _plumb


def run(chk, tier, proof_ok):
    n = 50 if tier == 'quick' else 400
    divs, errs = _plumb.correspondence(chk, n, dict(allow_saveload=True, max_ops=9, allow_dynamic=True))
    full = tier == 'thorough' or not proof_ok or bool(divs) or bool(errs)
    rng = random.Random(chk.seed * 31 + 8)
    findings, ncuts, ncfg = [], 0, 0
    import families as F
    fams = sorted(F.FAMILIES)
    # every family at least once (rotating), plus random mixes
    todo = []
    for i, fam in enumerate(fams):
        if full or (i + chk.seed) % 3 == 0:
            todo.append(dict(families=[fam]))
    for _ in range(40 if full else 8):
        todo.append(dict())
    todo += [dict(td=True)] * (8 if full else 2)
    for kw in todo:
        if kw.get('td'):
            c = plumbing.gen_td_case(rng, 'resume-td', allow_saveload=False)
        else:
            c = plumbing.gen_case(rng, 'resume', allow_saveload=False, allow_dynamic=True,
                                  window_choices=[5, 9, 20, 40], **kw)
        N = rng.choice([24, 48, 96]) if full else 14
        ncfg += 1
        f, k = realsearch.resume_findings(c, N, double=rng.random() < 0.3)
        ncuts += k
        for key, text, payload in f:
            if not any(k_ == key for k_, _, _ in findings):
                findings.append((key, text, payload))
    # dynamically annealed ladders with large adjustments (nu = 1) and a finite hottest temperature:
    # the adapted ladder transiently loses its order, and must be restored as it is
    for _ in range(30 if full else 6):
        c = plumbing.gen_case(rng, 'resume-ladder', families=['normal'], kinds=('pt',), allow_dynamic=True,
                              ntemps_choices=(3, 4, 5), allow_slow=False, allow_saveload=False)
        c.dynamic, c.ann_nu, c.ann_tmax_prior, c.swap_interval, c.nchains = True, 1, False, 1, 1
        c.betas = sorted(c.betas, reverse=True)
        if c.betas[-1] == 0.0:
            c.betas[-1] = 0.0625
        ncfg += 1
        f, k = realsearch.resume_findings(c, 40)
        ncuts += k
        for key, text, payload in f:
            if not any(k_ == key for k_, _, _ in findings):
                findings.append((key, text, payload))
    lf, nl = realsearch.ladder_state_roundtrip_findings(chk.seed * 41 + 2, 40 if full else 8)
    chk.coverage['ladder_state_roundtrips'] = nl
    for key, text, payload in lf:
        if not any(k_ == key for k_, _, _ in findings):
            findings.append((key, text, payload))
    chk.coverage['search'] = {'configurations': ncfg, 'cuts': ncuts,
                              'oracle': 'bit-exact suffix history and final state of a fresh sampler (other seed) resumed '
                              'from the pickled state at EVERY iteration boundary vs the uninterrupted run'}
    chk.coverage['evaluations'] = chk.coverage.get('evaluations', 0) + ncuts
    _plumb.report(chk, proof_ok, divs, errs, findings)


def replay(path):
    return _plumb.replay_case(path)
