"""C01 — each chain step is an exact Metropolis-Hastings move at its temperature.

proof:   EpsieProps/C01.lean (C01_logspace_test, C01_model_test_is_code_test,
         C01_accept_probability, C01_ar_formula(_exp), C01_zero_prior_rejected,
         C01_reject_keeps_state, C01_joint_hastings(_rat), C01_joint_flag_any_is_wrong,
         C01_model_acceptance_is_kernel, C01_detailed_balance, C01_kernel_stochastic,
         C01_stationary) about EpsieModel/Chain.lean
tie:     (a) logged plumbing correspondence: real samplers on real random streams, every
             draw logged, replayed by the model (decisions, ar, records, uniforms consumed);
         (b) scripted step suite (scripted_steps.step_suite): real Chain.step() with the
             acceptance uniform placed just below / above exp(logar), ties, prior holes,
             beta in {0,..,1}, every family, joint mixes, blobs on/off
search:  kernels.acceptance_oracle (recorded ar vs min(1, exp(dlogp + beta dlogl) r) from a second
         pure model and the constituents' reported densities; decision vs the drawn uniform;
         reject leaves the chain in place) and kernels.exact_kernel (transition matrices on
         lattices from real jumps and real steps: detailed balance and f P = f)
"""
import json

import kernels
import scripted_steps
from props import _plumb


def run(chk, tier, proof_ok):
    quick = tier == 'quick'
    divs, errs = _plumb.correspondence(
        chk, 25 if quick else 400,
        dict(allow_saveload=False, allow_reset=False, max_ops=5, ntemps_choices=(2, 3)))
    sdivs, serrs, sstats, ssamples = scripted_steps.step_suite(chk.seed, tier)
    broken = (not proof_ok) or bool(divs or errs or sdivs or serrs)
    full = (not quick) or broken
    f1, st1 = kernels.acceptance_oracle(chk.seed, tier, full)
    f2, st2 = kernels.exact_kernel(chk.seed, tier, full)
    f3, st3 = kernels.zero_likelihood_findings(chk.seed, tier, full)
    cov = chk.coverage
    cov.setdefault('correspondence', {})['scripted-step'] = dict(
        sstats, divergences=len(sdivs), real_code_exceptions=len(serrs))
    cov['search'] = {
        'acceptance_oracle': st1, 'exact_kernel': st2, 'zero_likelihood': st3, 'full': full,
        'oracle': 'recorded acceptance_ratio vs min(1, exp(dlogp + beta*dlogl) * r) with dlogp/dlogl from a '
                  'second pure model instance and r from the constituents\' reported densities; accepted <=> '
                  'u <= ar; zero prior => ar = 0; rejected => record repeats; lattices: f_x P_xy = f_y P_yx '
                  'and fP = f within the quantile-grid counting bound'}
    cov['evaluations'] = cov.get('evaluations', 0) + sstats['runs'] + st1.get('steps', 0) + st2.get('steps', 0)
    cov['distinct_nontrivial'] = cov.get('distinct_nontrivial', 0) + sstats['runs'] + st1.get('ar_checked', 0) \
        + st2.get('db_pairs', 0)
    cov['rule'] = (cov.get('rule', '') + '; scripted-step: one run = one real Chain.step() history ending in a '
                   'scripted final step (probe / just-below / just-above / top), all distinct by construction; '
                   'oracle: one evaluation = one real step whose recorded ar was compared with the closed form '
                   '(well-conditioned ones); kernel: one evaluation = one pair (x, y) of lattice states with '
                   'both fluxes measured')
    cov['branches'] = {k: sstats[k] for k in ('forced', 'sure', 'draw_accept', 'draw_reject', 'ties',
                                               'edge_below', 'edge_above', 'edge_top', 'symmetric',
                                               'nonsymmetric', 'with_queries', 'blobs', 'beta0', 'joint')}
    chk.samples.extend(ssamples)
    chk.assumptions += [
        'Generator.uniform() is uniform on [0,1) and numpy.exp is monotone (C01_accept_probability is about Lebesgue measure)',
        'the densities the proposals report are the law of their jumps: property C02 (C01 is proved for the reported ratio)']
    _plumb.report(chk, proof_ok, sdivs + divs, serrs + errs, f1 + f2 + f3, suite='scripted-step+plumbing')


def replay(path):
    d = json.load(open(path))
    case = d.get('case') or {}
    if case.get('suite') in ('scripted-step', 'scripted-sweep'):
        divs = scripted_steps.replay_description(case)
        for dv in divs:
            print('DIVERGENCE at output line %d\n  model: %s\n  real:  %s' % (dv['index'], dv['model_line'], dv['real_line']))
        if not divs:
            print('model and real code agree on this case now')
        return 1 if divs else 0
    f = kernels.replay(d)
    if f is not None:
        for key, text, _ in f:
            print('FAILING INPUT', key, text)
        if not f:
            print('the stored input no longer fails')
        return 1 if f else 0
    return _plumb.replay_case(path)
