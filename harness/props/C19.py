"""C19 — resetting adaptation restores the initial adaptive state, every time.

proof:   EpsieProps/C19.lean (C19_reset_restores[_spec|_with_loads], C19_reset_always_succeeds,
         C19_window_restarts, C19_window_full, C19_window_step0_as_fresh, C19_window_same_as_fresh,
         C19_window_length,
         C19_non_adaptive_untouched[_chain], C19_reset_after_swap_exact, ...) over
         EpsieModel/Alias.lean + Proposal/Chain/PTChain.
tie:     tables re-measured on every run; the reset discipline re-decided about them by building
         EpsieProps/C19Table.lean here; C19_table_model_sound checks the model's prediction
         against the measured behaviour over three resets.
search:  harness/alias.py on the REAL code: steps and resets interleaved on real chains (0-4 resets,
         back to back, before any step / before the first proposal step of a proposal with a jump
         interval: a reset never raises), every distribution attribute against its construction-time
         value, the following trajectory against a fresh proposal with the same clock, untouched
         non-adaptive proposals / chain data / random stream, and PT samplers with
         reset_after_swap=True under a recorder of which levels were reset.
"""
import json
import os

import alias
from props import C16 as _c16


def summarise(chk, units, results):
    hist = dict(suite={}, family={}, resets_per_case={}, window_phase_at_reset={}, jump_interval={}, start_step={})
    evals = nontriv = resets = rejected = traj = sweeps = exch = ptresets = 0
    errors = []
    for u, (f, info) in zip(units, results):
        if 'error' in info:
            errors.append(info)
            continue
        evals += 1
        hist['suite'][u[0]] = hist['suite'].get(u[0], 0) + 1
        for v in u[1].vnames:
            hist['family'][v] = hist['family'].get(v, 0) + 1
        hist['jump_interval'][u[1].k] = hist['jump_interval'].get(u[1].k, 0) + 1
        hist['start_step'][u[1].start_step] = hist['start_step'].get(u[1].start_step, 0) + 1
        if u[0] == 'reset':
            r = info['resets']
            hist['resets_per_case'][r] = hist['resets_per_case'].get(r, 0) + 1
            for ph in info['phases']:
                hist['window_phase_at_reset'][ph] = hist['window_phase_at_reset'].get(ph, 0) + 1
            resets += r
            rejected += info['rejected']
            traj += info['traj']
            if info['nontrivial'] > 0:
                nontriv += 1
        else:
            sweeps += info['sweeps']
            exch += info['exchanged_sweeps']
            ptresets += info['resets']
            if info['exchanged_sweeps'] > 0:
                nontriv += 1
    chk.coverage['evaluations'] = evals
    chk.coverage['distinct_nontrivial'] = nontriv
    chk.coverage['rule'] = ('a reset case is non-trivial when some distribution attribute differed from its '
                            'construction-time value just before a reset; a PT case when a sweep exchanged levels')
    chk.coverage['resets_checked'] = resets
    chk.coverage['resets_that_raised_at_nsteps_0'] = rejected
    chk.coverage['post_reset_trajectories_compared'] = traj
    chk.coverage['pt_sweeps'] = sweeps
    chk.coverage['pt_sweeps_with_exchange'] = exch
    chk.coverage['pt_level_resets_observed'] = ptresets
    chk.coverage['histogram'] = hist
    chk.coverage['unit_errors'] = len(errors)
    chk.coverage['resets_before_first_proposal_step'] = sum(info.get('at_nsteps0', 0) for _, info in results
                                                            if 'error' not in info)
    if errors:
        chk.notes.append('search units that could not be evaluated (not violations): %d; first: %s' % (
            len(errors), errors[0]['error'][-300:]))
    for u in units[:3] + units[-2:]:
        chk.samples.append({'suite': u[0], 'setup': u[1].describe(), 'seed': u[2], 'rest': repr(u[3:])[:300]})


def run(chk, tier, proof_ok):
    tbl = _c16.table_obligations('C19', chk)
    _c16.record_table(chk, tbl)
    trouble = not proof_ok or bool(tbl['failed'])
    procs = min(16, os.cpu_count() or 1)
    units = alias.c19_cases(chk.seed, tier, False)
    results = alias.run_units(units, procs)
    findings = _c16.collect(results)
    if trouble and not findings and tier != 'thorough':
        # an obligation broke and the light search found no failing input: the full search
        more = alias.c19_cases(chk.seed + 1, 'thorough', True)
        units, results = units + more, results + alias.run_units(more, procs)
        findings = _c16.collect(results)
    summarise(chk, units, results)
    import realsearch
    rf, rst = realsearch.reset_after_swap_findings(chk.seed * 59 + 3, 4 if tier == 'quick' else 24)
    chk.coverage['tall_ladder_reset_after_swap'] = rst
    findings = list(findings) + rf
    nf, nst = realsearch.nested_reset_findings(chk.seed, full=(tier != 'quick') or trouble)
    chk.coverage['nested_transdimensional_reset'] = nst
    findings = findings + nf
    for key, text, payload in findings:
        chk.violation(key, text, payload, True)
    broken = []
    if not proof_ok:
        broken += ['lean: ' + str(o[0]) + ' ' + str(o[2]) for o in chk.broken_obligations()
                   if not str(o[0]).startswith('C19_table_') and str(o[0]) != 'lake build EpsieProps.C19Table']
    if tbl['failed']:
        broken.append('table obligations of EpsieProps/C19Table.lean no longer hold: %s; offending entries: %s' % (
            ', '.join(tbl['failed']), '; '.join(tbl['offenders'][:12]) or '<see build log>'))
    if broken and not findings and not chk.known_hit:
        chk.violation('unproved', '; '.join(broken)[:1500], {
            'no_longer_checks': broken, 'build_log': tbl['log'][-1500:],
            'how_to_replay': './check C19 --replay <this file>'}, False)
    elif broken:
        chk.notes.append('broken obligations accompanied by failing inputs on the real code: ' + '; '.join(broken)[:800])


def replay(path):
    d = json.load(open(path))
    if d.get('suite'):
        f = alias.replay_payload(d)
        for key, text, _ in f or []:
            print('STILL FAILING %s\n  %s' % (key, text))
        if not f:
            print('the stored input no longer fails')
        return 1 if f else 0
    tbl = _c16.table_obligations('C19')
    print('table obligations:', tbl['theorems'])
    for o in tbl['offenders']:
        print('  offending entry:', o)
    return 1 if tbl['failed'] else 0
