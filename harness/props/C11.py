"""C11 — transdimensional moves are reversible for the intended target f/C.

proof:   EpsieProps/C11.lean (C11_choose_identity, C11_ways_balance, C11_code_ratio,
         C11_hastings_applied, C11_hastings_skipped_when_symmetric, C11_acceptance,
         C11_reversible, C11_reversible_forced_reject, C11_stationary, C11_index_marginal)
tie:     correspondence suite `transdim`, acceptance part: for scripted composite moves the
         log-densities reported by the real constituents (captured right before
         Chain._acceptance_ratio) go to the model, whose `logqCode` / `hastings` / `logAR`
         must reproduce the recorded acceptance_ratio (rel. 1e-9), the numbers of `choice`
         outcomes and C(K, k); plus the class-level fact that every bounded discrete
         proposal has symmetric = False
search:  pairwise exact detailed balance on the real code: forward move x -> x' and reverse
         move x' -> x scripted on fresh chains, both recorded acceptance ratios read, q_true
         computed independently of every logpdf in the repo (index law by push-forward of the
         real BoundedDiscrete.jump, births and in-model draws from the arguments observed at
         the draw sites, 1/C by counting), and
         (f/C)(x) q(x'|x) a(x,x') = (f/C)(x') q(x|x') a(x',x) checked to 1e-9
"""
import transdim


def run(chk, tier, proof_ok):
    built, log = transdim.ensure_built()
    if not built:
        proof_ok = False
        chk.obligations.append(('lake-build EpsieModel.Transdim', False, [log[-400:]]))
    bad_sym = transdim.symmetric_flags_ok()
    chk.obligations.append(('table: every exported bounded discrete class has symmetric = False '
                            '(hypothesis modelSym = false of C11_acceptance)', not bad_sym, bad_sym))
    if bad_sym:
        proof_ok = False
    n = 70 if tier == 'quick' else 1500
    divs, errs = ([], [])
    if built:
        divs, errs = transdim.correspondence(chk, n, ignore_acc=False)
    full = tier == 'thorough' or not proof_ok or divs or errs or not built
    ncfg, per = (36, 10) if not full else ((600, 24) if tier == 'thorough' else (72, 16))
    findings, cov, samples = transdim.c11_search(chk.seed, ncfg, per)
    chk.coverage['search'] = cov
    chk.coverage['evaluations'] = chk.coverage.get('evaluations', 0) + cov['pairs']
    chk.coverage['distinct_nontrivial'] = chk.coverage.get('distinct_nontrivial', 0) + cov['pairs'] - cov['forced_reject']
    chk.samples += samples[:3]
    chk.assumptions += [
        'numpy Generator.choice(a, size, replace=False) is uniform over the subsets of that size; '
        'Generator.normal/uniform/lognormal draw from the distributions they name',
        'the law of a rejection loop is the proposal law conditioned on acceptance',
        'the index-jump law is computed from the real jump code assuming it is a step function of its '
        'normal draw (verified on a grid of 512 quantile midpoints and a uniform grid of step 1/16)',
        'in-model jumps of the families not used in the search are covered by C02']
    transdim.report(chk, proof_ok, divs, errs, findings)


def replay(path):
    return transdim.replay_file(path, 'C11')
