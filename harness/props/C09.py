"""C09 — swaps exchange whole states, hot to cold, on schedule, fully recorded.

proof:   EpsieProps/C09.lean (C09_due_iff, C09_schedule, C09_whole_state_permuted,
         C09_reset_exactly_swapped, C09_colder_moves_up_at_most_one, C09_rows_stored_in_order,
         C09_rows_view_partial, C09_rows_view_bounds, C09_pinned_counterexample)
tie:     plumbing correspondence on parallel-tempered configurations (sweep oracle entries appear
         exactly when the model's schedule says; rows, swap indices, permuted records compared)
search:  harness-side capture of every level immediately before/after each real
         swap_temperatures(), the stored rows, and the row views against an independent log
known finding (F6): the views temperature_swaps/temperature_acceptance return len//swap_interval rows,
         one short after a clear that does not fall on a multiple of the swap interval; the repo's own
         test test_ptsampler::test_clear_memory asserts that count, so it cannot be repaired without
         editing the suite.
"""
import realsearch
from props import _plumb


def run(chk, tier, proof_ok):
    n = 50 if tier == 'quick' else 500
    divs, errs = _plumb.correspondence(chk, n, dict(kinds=('pt',), allow_saveload=True, max_ops=9,
                                                    ntemps_choices=(2, 3, 4, 5), allow_dynamic=True))
    full = tier == 'thorough' or not proof_ok or bool(divs) or bool(errs)
    # (dynamically annealed ladders included: the annealer reads the row a sweep has just written and
    # rewrites the ladder the next sweep is decided with)
    cases = realsearch.gen_cases(chk.seed * 17 + 2, 500 if full else 60, kinds=('pt',), allow_saveload=True,
                                 ntemps_choices=(2, 3, 4, 5, 6), max_ops=9, allow_dynamic=True)
    # directed: clears at every residue of the swap interval, followed by several sweeps
    import random
    import plumbing
    drng = random.Random(chk.seed * 43 + 7)
    for s_int in (2, 3, 4, 5):
        for res in range(s_int):
            if not full and drng.random() < 0.5:
                continue
            c = plumbing.gen_case(drng, 'clear-res', kinds=('pt',), allow_saveload=False, ntemps_choices=(3, 4))
            c.swap_interval = s_int
            c.ops = [('run', s_int + res), ('clear',), ('run', 3 * s_int + 1), ('dump',), ('clear',),
                     ('run', 2 * s_int), ('dump',)]
            cases.append(c)
    findings, nsw = [], 0
    for c in cases:
        f, k = realsearch.sweep_findings(c)
        nsw += k
        for key, text, payload in f:
            if not any(k_ == key for k_, _, _ in findings):
                findings.append((key, text, payload))
    chk.coverage['search'] = {'cases': len(cases), 'sweeps_observed': nsw,
                              'oracle': 'states of all levels captured before/after each real swap_temperatures(); '
                              'stored rows; row views against an independent per-chain log of sweeps since the last clear'}
    chk.coverage['evaluations'] = chk.coverage.get('evaluations', 0) + len(cases)
    tf, tst = realsearch.tall_ladder_rows_findings(chk.seed, 140 if tier == 'quick' else 300, 3)
    findings = findings + tf
    chk.coverage['search']['tall_ladder'] = tst
    _plumb.report(chk, proof_ok, divs, errs, findings)


def replay(path):
    return _plumb.replay_case(path)
