"""C03 — temperature swaps leave the joint tempered distribution invariant.

proof:   EpsieProps/C03.lean (C03_sweep_refines_sequential, C03_sweep_eq_sequential_spec,
         C03_every_outcome_is_a_path, C03_pair_ratio, C03_exchange_detailed_balance,
         C03_path_probability, C03_pair_event_is_model_decision, C03_sweep_kernel_is_path_sum,
         C03_sweep_kernel_stochastic, C03_sweep_invariant) about EpsieModel/Swap.lean and
         the apply block of EpsieModel/PTChain.lean
tie:     (a) logged plumbing correspondence on parallel-tempered samplers (sweeps on real streams);
         (b) scripted sweep suite (scripted_steps.sweep_suite): real swap_temperatures() on every
             decision path of ladders of 3..5 (thorough ..7) levels, uniforms at the edges of the
             pair ratios, ties, duplicate betas, beta_hottest = 0, blobs on/off
search:  kernels.sweep_kernel: exact sweep kernel assembled from real calls on 3-state
         configuration spaces, rows sum to 1 and pi K = pi to 1e-12 (betas of the levels)
"""
import json

import kernels
import realsearch
import scripted_steps
from props import _plumb


def run(chk, tier, proof_ok):
    quick = tier == 'quick'
    divs, errs = _plumb.correspondence(
        chk, 20 if quick else 300,
        dict(kinds=('pt',), allow_saveload=False, allow_reset=False, max_ops=5, allow_slow=False,
             ntemps_choices=(3, 4, 5), families=['normal', 'bounded_normal', 'angular', 'discrete',
                                                 'eigenvector', 'adaptive_normal', 'at_adaptive_normal']))
    sdivs, serrs, sstats, ssamples = scripted_steps.sweep_suite(chk.seed, tier)
    broken = (not proof_ok) or bool(divs or errs or sdivs or serrs)
    full = (not quick) or broken
    f, st = kernels.sweep_kernel(chk.seed, tier, full)
    f2, st2 = realsearch.caller_ladder_findings(chk.seed, 6 if quick else 40)
    f = f + f2
    cov = chk.coverage
    cov['caller_ladder'] = st2
    if broken and not f:
        # an obligation or the correspondence broke and the kernel / caller-ladder searches are quiet: also the
        # ladders a chain can get by OTHER routes (dynamical annealer, a state with another ladder loaded into
        # it) with every sweep replayed against the ladder in force (the C17 searches, read for C03: a sweep
        # decided with other betas than the levels sample at is not the exchange the property describes)
        lf, lst = realsearch.ladder_findings(chk.seed * 29 + 6, full=True)
        rf, nl = realsearch.ladder_state_roundtrip_findings(chk.seed * 41 + 5, 40)
        keep = ('swap-ratio-not-from-current-ladder', 'level-beta-differs-from-ladder', 'state-roundtrip-ladder-incoherent')
        f = f + [x for x in lf + rf if x[0] in keep]
        cov['ladder_routes_after_breakage'] = dict(lst, roundtrips=nl)
    cov.setdefault('correspondence', {})['scripted-sweep'] = dict(
        sstats, divergences=len(sdivs), real_code_exceptions=len(serrs))
    cov['search'] = {
        'sweep_kernel': st, 'full': full,
        'oracle': 'K(c, .) = sum over decision paths (decoded from the recorded swap index) of the product of the '
                  'recorded ratios ar / (1 - ar), outcome read from the levels; rows sum to 1 and pi K = pi to 1e-12 '
                  'for pi(c) = prod_t p(c_t) L(c_t)^beta_t with the betas of the level chains'}
    cov['evaluations'] = cov.get('evaluations', 0) + sstats['runs'] + st.get('sweeps', 0)
    cov['distinct_nontrivial'] = cov.get('distinct_nontrivial', 0) + sstats['runs'] + st.get('paths', 0)
    cov['rule'] = (cov.get('rule', '') + '; scripted-sweep: one run = one real sweep on a (ladder, log-likelihoods, '
                   'decision path) triple, all distinct by construction; kernel: sweeps = real '
                   'ParallelTemperedChain.step() calls (3^n configurations x 2^(n-1) uniform vectors), '
                   'paths = distinct (configuration, decision path) pairs reached')
    cov['branches'] = {k: sstats[k] for k in ('paths', 'feasible', 'infeasible', 'pairs_sure', 'pairs_draw',
                                               'pairs_tie', 'swaps', 'noswaps', 'beta_hot_0', 'dup_betas',
                                               'blobs', 'two_iterations', 'plan_mismatch', 'by_n')}
    chk.samples.extend(ssamples)
    chk.assumptions += [
        'Generator.uniform() is uniform on [0,1) with independent successive draws (C03_path_probability is about Lebesgue product measure)',
        'the ladder entries are the betas the levels sample at (property C17); the apply block moves whole states (property C09)']
    _plumb.report(chk, proof_ok, sdivs + divs, serrs + errs, f, suite='scripted-sweep+plumbing')


def replay(path):
    d = json.load(open(path))
    case = d.get('case') or {}
    if case.get('suite') in ('scripted-step', 'scripted-sweep'):
        divs = scripted_steps.replay_description(case)
        for dv in divs:
            print('DIVERGENCE at output line %d\n  model: %s\n  real:  %s' % (dv['index'], dv['model_line'], dv['real_line']))
        if not divs:
            print('model and real code agree on this case now')
        return 1 if divs else 0
    f = kernels.replay(d)
    if f is not None:
        for key, text, _ in f:
            print('FAILING INPUT', key, text)
        if not f:
            print('the stored input no longer fails')
        return 1 if f else 0
    return _plumb.replay_case(path)
