"""C13 -- adaptation follows acceptance in the documented direction and then stops.

proof:   EpsieProps/C13.lean over EpsieModel/Adapt.lean + the clock of EpsieModel/Proposal.lean
         (C13_gain_pos_at, C13_gain_pos_veitch, C13_veitch_dir, C13_ss_dir,
         C13_ss_narrows, C13_ss_widens_within_cap, C13_ss_sustained_reject, C13_at_dir, C13_eig_dir, C13_vmf_dir, the *_sustained_*
         theorems, C13_window_exact, C13_one_update_per_clock_tick, C13_frozen_after_window,
         C13_fixed_kernel, C13_own_history_only, C13_reset_restarts_window, ...)
tie:     suite `adapt` (harness/adapt.py + lean/DriverAdapt.lean): all 16 adaptive classes and
         their sub-variants under forced and free histories, start steps, jump intervals,
         windows 10-60; which steps change the scale, in which direction (exact), values 1e-9.
         Every class also with its OPTIONAL constructor arguments at non-default values (variants
         `o:*`: initial_std per parameter and not proportional to the prior widths, target_rate,
         adaptation_decay, cov / max_cov / jump_interval_duration, cov0 / shuffle_rate, radec /
         degs; n >= 2 parameters), led by long runs of rejections.  The model's constants (clock,
         target rate, prior widths, decay, initial widths, cap) are those the case CONFIGURES,
         not read back from the object.
search:  forced always-accepted / always-rejected / alternating / random / long-rejection-run
         histories on the real classes, default and non-default optional arguments: direction of
         every update from its own record (target rate as configured), net direction of one-sided
         histories, bit-identical scale attributes after the window (Sivia-Skilling exempt), no
         change outside the window computed from the configured start step / duration / jump
         interval, no change without a jump, no dependence on another chain's history; in the runs
         with a jump interval > 1 (and a quarter of the others) the proposal's own state is written
         back with set_state once inside and once after the window (a checkpoint is part of a
         chain's own history): the scale attributes must not change and the oracle stays the same;
         a third of the runs (and of the correspondence cases, `reset` line of the driver) call
         Chain.reset_proposals() once or twice (tens of steps in, and later): the adaptation restarts from
         the initial scale, the window and the Sivia-Skilling count are measured from
         start_step = max(nsteps, 1) (C13_reset_restarts_window) and the oracle applies from there on
"""
import json

import adapt


def run(chk, tier, proof_ok):
    search = adapt.direction_search(chk.seed, tier, full=not proof_ok)      # runs while the correspondence does
    divs, cov = adapt.correspondence(chk, tier)
    findings, scov = search.result()
    sf, sst = adapt.sustained_rate_findings(chk.seed, full=(tier != 'quick') or not proof_ok)
    for k_, v in sf.items():
        findings.setdefault(k_, v)
    scov['sustained_rates'] = sst
    if divs and tier != 'thorough' and proof_ok:
        # the correspondence broke: the full search
        more, mcov = adapt.direction_search(chk.seed + 1, tier, full=True).result()
        for k_, v in more.items():
            findings.setdefault(k_, v)
        scov['full_search_after_divergence'] = mcov
    c = chk.coverage
    c['correspondence'] = {'adapt': cov}
    c['search'] = dict(scov, oracle='direction of each update from the step\'s own record (accepted flag / acceptance '
                       'ratio vs target / rate so far vs target); net direction of always-accepted and always-rejected '
                       'histories; bit-identical scale attributes for every iteration after the window (all but '
                       'Sivia-Skilling); no change outside the window computed from the configured start step, '
                       'duration and jump interval; no change at iterations without a jump; interleaving with a '
                       'foreign chain')
    c['evaluations'] = cov['steps'] + scov['steps']
    c['distinct_nontrivial'] = cov['cases'] - cov['divergences'] + scov['runs']
    c['rule'] = ('one evaluation = one real Chain.step() whose adaptive state was read and checked; a case/run is '
                 'non-trivial when its window was entered (every generated case runs past the end of its window); '
                 'distinct = distinct (family, variant, optional arguments, history, start step, jump interval, '
                 'window, seed) tuples generated from VERIF_SEED; the cases with non-default optional constructor '
                 'arguments are counted under optional_arguments (correspondence and search)')
    c['optional_arguments'] = {'correspondence': cov.get('optional_arguments'), 'search': scov.get('optional_arguments')}
    c['branches'] = cov['branches']
    chk.assumptions += [
        'float evaluation of dk**-0.6 - T**-0.6, dk**-decay - 0.1, exp(+-1/n) has the sign / the enclosure the exact '
        'value has (checked by DriverAdapt on every oracle value used: algebraic identity (g+c)^5 dk^3 = 1, Taylor '
        'enclosure of exp)',
        'for the Andrieu-Thoms and eigenvector families "widens/narrows" is about the scale factor lambda '
        '(DESIGN 2.8); every positive user supplied adaptation_decay is inside the quantifier (C13_gain_pos_veitch_decay; '
        'the constant of the Veitch gain follows the decay since the repo fix of the third session; the sustained-rate '
        'search drives decays of 1.6 and 2.3 times the default)',
    ]
    for key, (text, case) in sorted(findings.items()):
        chk.violation(key, text, {'case': case, 'search': 'direction',
                                  'expected': 'scale moves as the chain\'s own record dictates and is frozen after the window',
                                  'how_to_replay': './check C13 --replay <this file>'}, True)
    broken = []
    if not proof_ok:
        broken += ['lean: %s %s' % (o[0], o[2]) for o in chk.broken_obligations()]
    if divs:
        d = divs[0]
        broken.append('correspondence suite adapt: %d diverging case(s); first: %s/%s history %s step %d: %s' % (
            len(divs), d['case']['family'], d['case'].get('variant'), d['case']['model'], d['step'], d['why'][:400]))
    # a finding explains a broken correspondence only if it is about a family that diverged
    div_fams = {d['case']['family'] for d in divs}
    explained = proof_ok and bool(divs) and div_fams <= {adapt.finding_family(key) for key in findings}
    if broken and not explained:
        chk.violation('unproved', '; '.join(broken)[:1500],
                      {'no_longer_checks': broken, 'case': divs[0]['case'] if divs else None,
                       'how_to_replay': './check C13 --replay <this file>'}, False)
    elif broken:
        chk.notes.append('also broken: ' + '; '.join(broken)[:800])


def replay(path):
    return adapt.replay_case(json.load(open(path)))
