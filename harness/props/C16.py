"""C16 — a state snapshot is a value: running cannot change it, it couples nothing.

proof:   EpsieProps/C16.lean over the alias model EpsieModel/Alias.lean
         (C16_snapshot_immutable[_spec], C16_separation, C16_no_coupling[_spec|_fine], ...)
         for every history and every interleaving, under the copy discipline of the
         measured tables.
tie:     the tables are re-measured on the live classes on every run
         (harness/gen_tables.py, harness/gen_alias.py) and the discipline is re-decided about
         them by building EpsieProps/C16Table.lean here (`lake build EpsieProps.C16Table`);
         its theorem C16_table_model_sound checks the model's prediction against the measured
         behaviour of every variant.
search:  harness/alias.py on the REAL code: bit-exact re-digest of state objects after further
         running; source + k samplers set from one state object, all interleavings of bursts,
         each against its solo run.  Always on (light), full when an obligation broke.
"""
import fcntl
import json
import os
import re
import subprocess
import time

import common
import alias


# --------------------------------------------------------------------------
# the table obligations (shared with props/C19.py)
# --------------------------------------------------------------------------

def _offenders(rows, prop_id):
    """Plain-text list of the table entries that break the discipline (for the report only;
    the Lean build decides)."""
    out = []
    for r in rows:
        for f in r.get('fields', []):
            if prop_id == 'C16':
                bad = (f['inplace'] and (not f['hot'] or f['aliasedByLoad'])) or (f['hot'] and f['liveInState'])
                if bad:
                    out.append('%s.%s(inplace=%d hot=%d liveInState=%d aliasedByLoad=%d)' % (
                        r['name'], f['attr'], f['inplace'], f['hot'], f['liveInState'], f['aliasedByLoad']))
            elif r.get('adaptive'):
                bad = (f['inplace'] and (f['reset'] == 'alias' or f['storeAliases'])) or \
                      (f['hot'] and f['storeAliases']) or (f['adapted'] and f['reset'] == 'none')
                if bad:
                    out.append('%s.%s(inplace=%d hot=%d storeAliases=%d adapted=%d reset=%s)' % (
                        r['name'], f['attr'], f['inplace'], f['hot'], f['storeAliases'], f['adapted'], f['reset']))
        if 'probeError' in r:
            out.append('%s: probe failed: %s' % (r['name'], r['probeError']))
        if not r.get('known', True):
            out.append('%s: exported family unknown to the harness' % r['name'])
    return out


def table_obligations(prop_id, chk=None):
    """Which theorems of EpsieProps/<id>Table.lean no longer hold on the tables just regenerated
    from the live classes.  `run_check` builds that module by name (after running the
    generators); its log is reused when available, otherwise the module is built here.
    Returns dict(theorems=[(name, ok)], failed=[...], log=str, offenders=[...], wall=s)."""
    import gen_alias
    t0 = time.time()
    module = 'EpsieProps.%sTable' % prop_id
    path = os.path.join(common.LEAN_DIR, 'EpsieProps', prop_id + 'Table.lean')
    res = dict(theorems=[], failed=[], log='', offenders=[], wall=0.0, built=False)
    src = open(path).read()
    src_nc = re.sub(r'/-.*?-/', lambda m: '\n' * m.group(0).count('\n'), src, flags=re.S)
    decl = [(src_nc.count('\n', 0, m.start()) + 1, m.group(1))
            for m in re.finditer(r'^\s*theorem\s+(%s_\w+)' % prop_id, src_nc, re.M)]
    build = getattr(chk, 'build', None) if chk is not None else None
    tried = (list(getattr(build, 'built', []) or []) + list(getattr(build, 'failed_modules', []) or [])) if build else []
    if build is not None and module in tried:
        log, ok = build.log, module in build.built
    else:
        os.makedirs(os.path.join(common.LEAN_DIR, '.lake'), exist_ok=True)
        lockf = open(os.path.join(common.LEAN_DIR, '.lake', 'verif.lock'), 'w')
        fcntl.flock(lockf, fcntl.LOCK_EX)
        try:
            text = gen_alias.render(gen_alias.rows())
            old = open(gen_alias.OUT).read() if os.path.exists(gen_alias.OUT) else None
            if old != text:
                with open(gen_alias.OUT, 'w') as fh:
                    fh.write(text)
            env = dict(os.environ)
            env.pop('LEAN_PATH', None)
            p = subprocess.run(['lake', 'build', module], cwd=common.LEAN_DIR, env=env, stdout=subprocess.PIPE,
                               stderr=subprocess.STDOUT, text=True, timeout=3600)
        finally:
            fcntl.flock(lockf, fcntl.LOCK_UN)
            lockf.close()
        log, ok = p.stdout, p.returncode == 0
    res['log'] = log[-4000:]
    res['built'] = ok
    bad_lines = [int(m.group(1)) for m in re.finditer(
        r'error: (?:\S*/)?EpsieProps/%sTable\.lean:(\d+):\d+' % prop_id, log)]
    failed = set()
    for ln in bad_lines:
        owner = [n for l, n in decl if l <= ln]
        failed.add(owner[-1] if owner else '<preamble>')
    if not ok and not failed:
        failed = {n for _, n in decl} | {'<dependency of %s did not build>' % module}
    if ok:
        failed = set()
    res['failed'] = sorted(failed)
    res['theorems'] = [(n, n not in failed) for _, n in decl]
    if failed:
        res['offenders'] = _offenders(gen_alias.rows(), prop_id)
    res['wall'] = round(time.time() - t0, 2)
    return res


def record_table(chk, tbl):
    have = {o[0] for o in chk.obligations}
    for name, ok in tbl['theorems']:
        if name not in have:
            chk.obligations.append((name, ok, ['compiled; module not importable for the axiom audit'] if ok else
                                    ['decide: the proposition is false on the measured table']))
    for name in tbl['failed']:
        if not any(name == n for n, _ in tbl['theorems']):
            chk.obligations.append((name, False, []))
    chk.coverage['table_obligations'] = dict(module='EpsieProps/%sTable.lean' % chk.prop, wall_s=tbl['wall'],
                                             failed=tbl['failed'], offenders=tbl['offenders'][:40])


# --------------------------------------------------------------------------
# correspondence of the alias model's operational semantics with the real objects:
# random interleavings of construct / update / state / set_state / reset on 2-3 real
# proposals of every measured variant; after every operation the partition of ALL
# references (live attributes, stored initial values, entries of every state object)
# into shared arrays, observed with numpy.shares_memory, must be the partition the model
# computes from the measured spec bits.  Oracle inputs: which attributes an update wrote,
# which attributes are born sharing an array.
# --------------------------------------------------------------------------

def _partition_text(fields, samplers, snaps, nk):
    import numpy
    classes = []          # representative arrays

    def cid(obj):
        if isinstance(obj, numpy.ndarray):
            for i, rep in enumerate(classes):
                if isinstance(rep, numpy.ndarray) and numpy.shares_memory(rep, obj):
                    return i
        classes.append(obj if isinstance(obj, numpy.ndarray) else None)
        return len(classes) - 1

    out = []
    for s in sorted(samplers):
        prop, ipp = samplers[s]
        toks = []
        for f in fields:
            toks.append('c%d' % cid(prop.__dict__[f['attr']]))
            if f['reset'] in ('alias', 'copy') and f['attr'] in ipp:
                toks.append('i%d' % cid(ipp[f['attr']]))
            else:
                toks.append('i-')
        out.append('s%d: %s' % (s, ' '.join(toks)))
    for s in sorted(samplers):
        for k in range(nk):
            if (s, k) not in snaps:
                continue
            obj, keys = snaps[(s, k)]
            toks = [('%d' % cid(obj[keys[f['attr']]])) if f['attr'] in keys else '-' for f in fields]
            if any(t != '-' for t in toks):
                out.append('snap%d.%d: %s' % (s, k, ' '.join(toks)))
    return ' | '.join(out)


def _alias_case(row, build, rng, cid):
    """Drive real proposals; return (protocol lines, expected output lines)."""
    import numpy
    import gen_alias
    fields = sorted(row['fields'], key=lambda f: (not f['inplace'], f['attr']))
    lines = ['case %d' % cid]
    expect = ['case %d' % cid]
    for f in fields:
        lines.append('field %s %d %d %d %d %d %d %d %s' % (
            f['attr'], f['adapted'], f['inplace'], f['hot'], f['inState'], f['liveInState'], f['aliasedByLoad'],
            f['storeAliases'], f['reset']))
    ns = rng.choice([2, 3])
    chains, samplers, snaps, nsnap = {}, {}, {}, {}
    NK = 4

    def dump():
        lines.append('dump %d %d' % (ns, NK))
        expect.append(_partition_text(fields, samplers, snaps, NK))

    for s in range(ns):
        ch, prop, _ = build(seed=11 + s)
        raw = prop.__dict__.get('_initial_proposal_params') or {}
        ipp = {(k if k in prop.__dict__ or '_' + k not in prop.__dict__ else '_' + k): v for k, v in raw.items()}
        chains[s], samplers[s], nsnap[s] = ch, (prop, ipp), 0
        shares = []
        for j, f in enumerate(fields):
            sh = '-'
            cur = prop.__dict__[f['attr']]
            if f['hot'] and isinstance(cur, numpy.ndarray):
                for j0 in range(j):
                    other = prop.__dict__[fields[j0]['attr']]
                    if fields[j0]['inplace'] and isinstance(other, numpy.ndarray) and numpy.shares_memory(cur, other):
                        sh = str(j0)
                        break
            shares.append(sh)
        lines.append('new %d %s' % (s, ' '.join(shares)))
        expect.append('ok new')
    dump()
    nops = rng.choice([6, 9, 12])
    for _ in range(nops):
        s = rng.randrange(ns)
        prop, ipp = samplers[s]
        kind = rng.choice(['upd', 'upd', 'upd', 'snap', 'load', 'reset'])
        if kind == 'upd':
            before = [(prop.__dict__[f['attr']], gen_alias.vdigest(prop.__dict__[f['attr']])) for f in fields]
            with numpy.errstate(all='ignore'):
                chains[s].step()
            mask = []
            for f, (obj, dg) in zip(fields, before):
                now = prop.__dict__[f['attr']]
                wrote = (now is not obj and isinstance(now, numpy.ndarray)) or gen_alias.vdigest(obj) != dg or \
                        gen_alias.vdigest(now) != dg
                mask.append('1' if wrote else '0')
            lines.append('upd %d %s' % (s, ' '.join(mask)))
            expect.append('ok upd')
        elif kind == 'snap' and nsnap[s] < NK:
            obj = prop.state
            keys = {}
            for key in obj:
                a = gen_alias.attr_of_key(prop, key)
                if a is not None:
                    keys[a] = key
            snaps[(s, nsnap[s])] = (obj, keys)
            lines.append('snap %d %d' % (s, nsnap[s]))
            expect.append('ok snap')
            nsnap[s] += 1
        elif kind == 'load' and snaps:
            src, k = rng.choice(sorted(snaps))
            prop.set_state(snaps[(src, k)][0])
            lines.append('load %d %d %d' % (s, src, k))
            expect.append('ok load')
        elif kind == 'reset' and row.get('adaptive'):
            prop._reset_adaptation()
            lines.append('reset %d' % s)
            expect.append('ok reset')
        else:
            continue
        dump()
    return lines, expect


def correspondence(chk, per_variant):
    """Returns (divergences, number of cases, number of compared partitions)."""
    import random
    import numpy
    import gen_alias
    rng = random.Random(chk.seed * 7919 + 1601)
    cases, cid = [], 0
    builders = {v: b for v, _, b in gen_alias.variants()}
    with numpy.errstate(all='ignore'):
        rows = [r for r in gen_alias.rows() if 'fields' in r and r['fields'] and builders.get(r['name'])]
        for r in rows:
            for _ in range(per_variant):
                cid += 1
                try:
                    cases.append((r['name'], cid) + _alias_case(r, builders[r['name']], rng, cid))
                except Exception as e:       # the real code raised inside a step: case not evaluated
                    chk.notes.append('alias correspondence case on %s not evaluated: %r' % (r['name'], e))
    lines = [l for c in cases for l in c[2]]
    p = subprocess.run(['lake', 'env', 'lean', '--run', 'DriverAlias.lean'], cwd=common.LEAN_DIR,
                       input='\n'.join(lines) + '\n', stdout=subprocess.PIPE, stderr=subprocess.PIPE, text=True,
                       timeout=1800)
    if p.returncode != 0:
        return [dict(variant='<driver>', index=0, model_line=p.stderr[-400:], real_line='', protocol=[])], len(cases), 0
    got = p.stdout.splitlines()
    divs, pos, ncmp = [], 0, 0
    for name, cid, proto, expect in cases:
        mine = got[pos:pos + len(expect)]
        pos += len(expect)
        for i, (m, e) in enumerate(zip(mine + ['<model output ended>'] * (len(expect) - len(mine)), expect)):
            ncmp += 1
            if m != e:
                divs.append(dict(variant=name, index=i, model_line=m, real_line=e, protocol=proto))
                break
    chk.coverage['alias_correspondence'] = dict(
        cases=len(cases), partitions_compared=ncmp, variants=len(rows), diverging=len(divs),
        what='partition of all array references (live attributes, stored initial values, state entries) after every '
             'operation: numpy.shares_memory on the real objects vs the model run on the measured spec bits')
    if cases:
        chk.samples.append({'alias_protocol_head': cases[0][2][:8], 'expected_head': cases[0][3][:4]})
    return divs, len(cases), ncmp


def summarise(chk, units, results):
    hist = dict(kind={}, suite={}, family={}, mode={})
    evals = nontriv = orders = 0
    errors = []
    for u, (f, info) in zip(units, results):
        if 'error' in info:
            errors.append(info)
            continue
        evals += 1
        hist['suite'][u[0]] = hist['suite'].get(u[0], 0) + 1
        hist['kind'][u[1].kind] = hist['kind'].get(u[1].kind, 0) + 1
        for v in u[1].vnames:
            hist['family'][v] = hist['family'].get(v, 0) + 1
        if u[0] == 'coupling':
            hist['mode'][u[7]] = hist['mode'].get(u[7], 0) + 1
            orders += info.get('orders', 0)
        if info.get('nontrivial', 0) > 0:
            nontriv += 1
    chk.coverage['evaluations'] = evals
    chk.coverage['distinct_nontrivial'] = nontriv
    chk.coverage['rule'] = ('a unit is non-trivial when a distribution attribute of some proposal changed between the '
                            'moment the state object was taken / loaded and the end of the run (so an alias would show)')
    chk.coverage['interleavings_run'] = orders
    chk.coverage['histogram'] = hist
    chk.coverage['unit_errors'] = len(errors)
    if errors:
        chk.notes.append('search units that could not be evaluated (not violations): %d; first: %s' % (
            len(errors), errors[0]['error'][-300:]))
    for u in units[:3] + units[-2:]:
        chk.samples.append({'suite': u[0], 'setup': u[1].describe(), 'seed': u[2], 'rest': repr(u[3:])[:300]})


def collect(results):
    findings = []
    for f, _ in results:
        for key, text, payload in f:
            if not any(k == key for k, _, _ in findings):
                findings.append((key, text, payload))
    return findings


def run(chk, tier, proof_ok):
    tbl = table_obligations('C16', chk)
    record_table(chk, tbl)
    divs, _, _ = correspondence(chk, 2 if tier == 'quick' else 12)
    trouble = not proof_ok or bool(tbl['failed']) or bool(divs)
    procs = min(16, os.cpu_count() or 1)
    units = alias.c16_cases(chk.seed, tier, False)
    results = alias.run_units(units, procs)
    findings = collect(results)
    if trouble and not findings and tier != 'thorough':
        # an obligation broke and the light search found no failing input: the full search
        more = alias.c16_cases(chk.seed + 1, 'thorough', True)
        units, results = units + more, results + alias.run_units(more, procs)
        findings = collect(results)
    summarise(chk, units, results)
    import realsearch
    tdf, nsnap = realsearch.td_snapshot_findings(chk.seed * 37 + 1, 8 if tier == 'quick' else 60)
    chk.coverage['transdimensional_snapshots'] = nsnap
    ptf, nobj = realsearch.pt_snapshot_findings(chk.seed * 53 + 5, 6 if tier == 'quick' else 40)
    chk.coverage['pt_state_objects'] = nobj
    findings = list(findings) + tdf + ptf
    for key, text, payload in findings:
        chk.violation(key, text, payload, True)
    broken = []
    if not proof_ok:
        broken += ['lean: ' + str(o[0]) + ' ' + str(o[2]) for o in chk.broken_obligations()
                   if not str(o[0]).startswith('C16_table_') and str(o[0]) != 'lake build EpsieProps.C16Table']
    if tbl['failed']:
        broken.append('table obligations of EpsieProps/C16Table.lean no longer hold: %s; offending entries: %s' % (
            ', '.join(tbl['failed']), '; '.join(tbl['offenders'][:12]) or '<see build log>'))
    if divs:
        d = divs[0]
        broken.append('correspondence suite alias: %d diverging case(s); first on %s at output line %d: model %r vs '
                      'real %r' % (len(divs), d['variant'], d['index'], d['model_line'][:300], d['real_line'][:300]))
    if broken and not findings and not chk.known_hit:
        chk.violation('unproved', '; '.join(broken)[:1500], {
            'no_longer_checks': broken, 'build_log': tbl['log'][-1500:],
            'alias_protocol': divs[0]['protocol'] if divs else None,
            'how_to_replay': './check C16 --replay <this file>'}, False)
    elif broken:
        chk.notes.append('broken obligations accompanied by failing inputs on the real code: ' + '; '.join(broken)[:800])


def replay(path):
    d = json.load(open(path))
    if d.get('suite'):
        f = alias.replay_payload(d)
        for key, text, _ in f or []:
            print('STILL FAILING %s\n  %s' % (key, text))
        if not f:
            print('the stored input no longer fails')
        return 1 if f else 0
    tbl = table_obligations(d.get('property', 'C16'))
    print('table obligations:', tbl['theorems'])
    for o in tbl['offenders']:
        print('  offending entry:', o)
    return 1 if tbl['failed'] else 0
