"""C16 — a state snapshot is a value: running cannot change it, it couples nothing.

proof:   EpsieProps/C16.lean over the alias model EpsieModel/Alias.lean
         (C16_snapshot_immutable[_spec], C16_separation, C16_no_coupling[_spec|_fine], ...)
         for every history and every interleaving, under the copy discipline of the
         measured tables.
tie:     the tables are re-measured on the live classes on every run
         (harness/gen_tables.py, harness/gen_alias.py) and the discipline is re-decided about
         them by building EpsieProps/C16Table.lean here (`lake build EpsieProps.C16Table`);
         its theorem C16_table_model_sound checks the model's prediction against the measured
         behaviour of every variant.
search:  harness/alias.py on the REAL code: bit-exact re-digest of state objects after further
         running; source + k samplers set from one state object, all interleavings of bursts,
         each against its solo run.  Always on (light), full when an obligation broke.
"""
import fcntl
import json
import os
import re
import subprocess
import time

import common
import alias


# --------------------------------------------------------------------------
# the table obligations (shared with props/C19.py)
# --------------------------------------------------------------------------

def _offenders(rows, prop_id):
    """Plain-text list of the table entries that break the discipline (for the report only;
    the Lean build decides)."""
    out = []
    for r in rows:
        for f in r.get('fields', []):
            if prop_id == 'C16':
                bad = (f['inplace'] and (not f['hot'] or f['aliasedByLoad'])) or (f['hot'] and f['liveInState'])
                if bad:
                    out.append('%s.%s(inplace=%d hot=%d liveInState=%d aliasedByLoad=%d)' % (
                        r['name'], f['attr'], f['inplace'], f['hot'], f['liveInState'], f['aliasedByLoad']))
            elif r.get('adaptive'):
                bad = (f['inplace'] and (f['reset'] == 'alias' or f['storeAliases'])) or \
                      (f['hot'] and f['storeAliases']) or (f['adapted'] and f['reset'] == 'none')
                if bad:
                    out.append('%s.%s(inplace=%d hot=%d storeAliases=%d adapted=%d reset=%s)' % (
                        r['name'], f['attr'], f['inplace'], f['hot'], f['storeAliases'], f['adapted'], f['reset']))
        if 'probeError' in r:
            out.append('%s: probe failed: %s' % (r['name'], r['probeError']))
        if not r.get('known', True):
            out.append('%s: exported family unknown to the harness' % r['name'])
    return out


def table_obligations(prop_id, chk=None):
    """Which theorems of EpsieProps/<id>Table.lean no longer hold on the tables just regenerated
    from the live classes.  `run_check` builds that module by name (after running the
    generators); its log is reused when available, otherwise the module is built here.
    Returns dict(theorems=[(name, ok)], failed=[...], log=str, offenders=[...], wall=s)."""
    import gen_alias
    t0 = time.time()
    module = 'EpsieProps.%sTable' % prop_id
    path = os.path.join(common.LEAN_DIR, 'EpsieProps', prop_id + 'Table.lean')
    res = dict(theorems=[], failed=[], log='', offenders=[], wall=0.0, built=False)
    src = open(path).read()
    src_nc = re.sub(r'/-.*?-/', lambda m: '\n' * m.group(0).count('\n'), src, flags=re.S)
    decl = [(src_nc.count('\n', 0, m.start()) + 1, m.group(1))
            for m in re.finditer(r'^\s*theorem\s+(%s_\w+)' % prop_id, src_nc, re.M)]
    build = getattr(chk, 'build', None) if chk is not None else None
    tried = (list(getattr(build, 'built', []) or []) + list(getattr(build, 'failed_modules', []) or [])) if build else []
    if build is not None and module in tried:
        log, ok = build.log, module in build.built
    else:
        os.makedirs(os.path.join(common.LEAN_DIR, '.lake'), exist_ok=True)
        lockf = open(os.path.join(common.LEAN_DIR, '.lake', 'verif.lock'), 'w')
        fcntl.flock(lockf, fcntl.LOCK_EX)
        try:
            text = gen_alias.render(gen_alias.rows())
            old = open(gen_alias.OUT).read() if os.path.exists(gen_alias.OUT) else None
            if old != text:
                with open(gen_alias.OUT, 'w') as fh:
                    fh.write(text)
            env = dict(os.environ)
            env.pop('LEAN_PATH', None)
            p = subprocess.run(['lake', 'build', module], cwd=common.LEAN_DIR, env=env, stdout=subprocess.PIPE,
                               stderr=subprocess.STDOUT, text=True, timeout=3600)
        finally:
            fcntl.flock(lockf, fcntl.LOCK_UN)
            lockf.close()
        log, ok = p.stdout, p.returncode == 0
    res['log'] = log[-4000:]
    res['built'] = ok
    bad_lines = [int(m.group(1)) for m in re.finditer(
        r'error: (?:\S*/)?EpsieProps/%sTable\.lean:(\d+):\d+' % prop_id, log)]
    failed = set()
    for ln in bad_lines:
        owner = [n for l, n in decl if l <= ln]
        failed.add(owner[-1] if owner else '<preamble>')
    if not ok and not failed:
        failed = {n for _, n in decl} | {'<dependency of %s did not build>' % module}
    if ok:
        failed = set()
    res['failed'] = sorted(failed)
    res['theorems'] = [(n, n not in failed) for _, n in decl]
    if failed:
        res['offenders'] = _offenders(gen_alias.rows(), prop_id)
    res['wall'] = round(time.time() - t0, 2)
    return res


def record_table(chk, tbl):
    have = {o[0] for o in chk.obligations}
    for name, ok in tbl['theorems']:
        if name not in have:
            chk.obligations.append((name, ok, ['compiled; module not importable for the axiom audit'] if ok else
                                    ['decide: the proposition is false on the measured table']))
    for name in tbl['failed']:
        if not any(name == n for n, _ in tbl['theorems']):
            chk.obligations.append((name, False, []))
    chk.coverage['table_obligations'] = dict(module='EpsieProps/%sTable.lean' % chk.prop, wall_s=tbl['wall'],
                                             failed=tbl['failed'], offenders=tbl['offenders'][:40])


# --------------------------------------------------------------------------

def summarise(chk, units, results):
    hist = dict(kind={}, suite={}, family={}, mode={})
    evals = nontriv = orders = 0
    errors = []
    for u, (f, info) in zip(units, results):
        if 'error' in info:
            errors.append(info)
            continue
        evals += 1
        hist['suite'][u[0]] = hist['suite'].get(u[0], 0) + 1
        hist['kind'][u[1].kind] = hist['kind'].get(u[1].kind, 0) + 1
        for v in u[1].vnames:
            hist['family'][v] = hist['family'].get(v, 0) + 1
        if u[0] == 'coupling':
            hist['mode'][u[7]] = hist['mode'].get(u[7], 0) + 1
            orders += info.get('orders', 0)
        if info.get('nontrivial', 0) > 0:
            nontriv += 1
    chk.coverage['evaluations'] = evals
    chk.coverage['distinct_nontrivial'] = nontriv
    chk.coverage['rule'] = ('a unit is non-trivial when a distribution attribute of some proposal changed between the '
                            'moment the state object was taken / loaded and the end of the run (so an alias would show)')
    chk.coverage['interleavings_run'] = orders
    chk.coverage['histogram'] = hist
    chk.coverage['unit_errors'] = len(errors)
    if errors:
        chk.notes.append('search units that could not be evaluated (not violations): %d; first: %s' % (
            len(errors), errors[0]['error'][-300:]))
    for u in units[:3] + units[-2:]:
        chk.samples.append({'suite': u[0], 'setup': u[1].describe(), 'seed': u[2], 'rest': repr(u[3:])[:300]})


def run(chk, tier, proof_ok):
    tbl = table_obligations('C16', chk)
    record_table(chk, tbl)
    full = tier == 'thorough' or not proof_ok or bool(tbl['failed'])
    units = alias.c16_cases(chk.seed, tier, full)
    procs = min(16, os.cpu_count() or 1)
    results = alias.run_units(units, procs)
    summarise(chk, units, results)
    findings = []
    for f, _ in results:
        for key, text, payload in f:
            if not any(k == key for k, _, _ in findings):
                findings.append((key, text, payload))
    for key, text, payload in findings:
        chk.violation(key, text, payload, True)
    broken = []
    if not proof_ok:
        broken += ['lean: ' + str(o[0]) + ' ' + str(o[2]) for o in chk.broken_obligations()
                   if not str(o[0]).startswith('C16_table_') and str(o[0]) != 'lake build EpsieProps.C16Table']
    if tbl['failed']:
        broken.append('table obligations of EpsieProps/C16Table.lean no longer hold: %s; offending entries: %s' % (
            ', '.join(tbl['failed']), '; '.join(tbl['offenders'][:12]) or '<see build log>'))
    if broken and not findings and not chk.known_hit:
        chk.violation('unproved', '; '.join(broken)[:1500], {
            'no_longer_checks': broken, 'build_log': tbl['log'][-1500:],
            'how_to_replay': './check C16 --replay <this file>'}, False)
    elif broken:
        chk.notes.append('broken obligations accompanied by failing inputs on the real code: ' + '; '.join(broken)[:800])


def replay(path):
    d = json.load(open(path))
    if d.get('suite'):
        f = alias.replay_payload(d)
        for key, text, _ in f or []:
            print('STILL FAILING %s\n  %s' % (key, text))
        if not f:
            print('the stored input no longer fails')
        return 1 if f else 0
    tbl = table_obligations(d.get('property', 'C16'))
    print('table obligations:', tbl['theorems'])
    for o in tbl['offenders']:
        print('  offending entry:', o)
    return 1 if tbl['failed'] else 0
