"""C20 — checkpoint files round-trip any state, also when overwriting a checkpoint.

proof:   EpsieProps/C20.lean over EpsieModel/Checkpoint.lean (C20_roundtrip, C20_frame,
         C20_sequences, C20_sequences_total, C20_dump_succeeds_iff, C20_overwrite, C20_fresh,
         C20_assign_exact, C20_failed_dump_no_effect, C20_state_roundtrip,
         C20_checkpoint_roundtrip, ...; for dump_pickle_to_hdf as an entry point of its own:
         C20_stream_position_irrelevant, C20_stream_roundtrip, C20_stream_just_written,
         C20_dump_state_via_stream; for several files open at once: C20_other_files_untouched,
         C20_file_as_if_alone, C20_world_projection)
tie:     correspondence suite `checkpoint`: EVERY public entry point of the real code —
         epsie.dump_state (also as epsie.samplers.dump_state), epsie.dump_pickle_to_hdf,
         epsie.load_state (also as epsie.samplers.load_state), BaseSampler.checkpoint,
         BaseSampler.set_state_from_checkpoint — in every call style (keywords, positional, defaults
         left out, ...), run against the in-memory h5py stand-in harness/h5stub.py, with ONE OR TWO
         file objects open in the process; every operation is replayed by the Lean driver
         (lean/DriverCheckpoint.lean) and compared: which arm of dump_pickle_to_hdf ran
         (create / resize / keep), which exception class, the bytes handed to pickle.load, and
         the whole contents of every file byte for byte.  The pickle bytes are oracle inputs
         (captured from the real pickle.dump call).  dump_pickle_to_hdf is driven with streams in
         every state a caller can have one in — positioned at 0, at the end (just written, not
         rewound), inside (partially read), beyond the end; io.BytesIO built over the bytes or
         filled by write / pickle.dump, real temporary files ('w+b' buffered and unbuffered, 'a+b',
         'rb'), SpooledTemporaryFile (in memory and rolled over), BufferedRandom / BufferedReader,
         mmap, a non-io object with seek/read only — and the driver is fed the real position
         (`dumps` lines); the model's Stream.read / Stream.write are compared with io.BytesIO and a
         real file (`sread` / `swrite` lines).
search:  the same real calls with an oracle taken from the property statement and independent of
         the Lean model: the stored bytes of every key are the bytes of the last dump to it
         (= pickle.dumps(state, protocol) computed by the harness, resp. ALL the bytes the stream
         handed to dump_pickle_to_hdf holds), the bytes handed to pickle.load are those bytes, the
         loaded object equals the dumped one, no other key of any open file is disturbed, no
         dataset appears that was not dumped.  Payloads: all 256 byte values, leading / trailing /
         only zero bytes, empty and one-byte strings, sizes around powers of two, all pickle
         protocols, numpy arrays and scalars, states of real samplers of every proposal family
         (MH and PT).

Trusted: fidelity of harness/h5stub.py to h5py/HDF5 (h5py is not installed here).
"""
import copy
import hashlib
import io
import json
import mmap
import os
import pickle
import random
import subprocess
import sys
import tempfile
import time
import traceback

import numpy

import common

# --------------------------------------------------------------------------
# observing pickle from outside (installed BEFORE epsie is imported, so that both
# `import pickle; pickle.load(...)` and `from pickle import load` are seen)
# --------------------------------------------------------------------------


class _PickleTap:
    def __init__(self):
        self.active = False
        self.no_unpickle = False   # do not feed known non-pickle bytes to the real unpickler
        self.dumped = []      # (deep copy of obj, protocol, bytes written)
        self.loaded = []      # bytes handed to pickle.load / loads

    def reset(self):
        self.dumped = []
        self.loaded = []


TAP = _PickleTap()
_ORIG = {'dump': pickle.dump, 'dumps': pickle.dumps, 'load': pickle.load, 'loads': pickle.loads}


def _tap_dump(obj, file, protocol=None, **kw):
    if not TAP.active:
        return _ORIG['dump'](obj, file, protocol, **kw)
    TAP.active = False
    try:
        pos = file.tell() if hasattr(file, 'tell') else None
        _ORIG['dump'](obj, file, protocol, **kw)
        data = None
        if pos is not None and hasattr(file, 'getvalue'):
            data = bytes(file.getvalue()[pos:])
        try:
            snap = copy.deepcopy(obj)
        except Exception:
            snap = None
        try:                                   # where pickle.dump left the stream
            end = file.tell() if pos is not None else None
        except Exception:
            end = None
        TAP.dumped.append((snap, protocol, data, end))
    finally:
        TAP.active = True


def _tap_dumps(obj, protocol=None, **kw):
    if not TAP.active:
        return _ORIG['dumps'](obj, protocol, **kw)
    TAP.active = False
    try:
        data = _ORIG['dumps'](obj, protocol, **kw)
        try:
            snap = copy.deepcopy(obj)
        except Exception:
            snap = None
        TAP.dumped.append((snap, protocol, bytes(data), None))
        return data
    finally:
        TAP.active = True


class _NotUnpickled:
    """Returned in place of unpickling bytes the harness knows are not a pickle (raw byte
    payloads): CPython's unpickler is not meant to be fed arbitrary bytes."""


def _tap_load(file, **kw):
    if TAP.active:
        seen = False
        try:
            if hasattr(file, 'getvalue') and hasattr(file, 'tell'):
                TAP.loaded.append(bytes(file.getvalue()[file.tell():]))
                seen = True
        except Exception:
            pass
        if seen and TAP.no_unpickle:
            return _NotUnpickled()
    return _ORIG['load'](file, **kw)


def _tap_loads(data, **kw):
    if TAP.active:
        seen = False
        try:
            TAP.loaded.append(bytes(data))
            seen = True
        except Exception:
            pass
        if seen and TAP.no_unpickle:
            return _NotUnpickled()
    return _ORIG['loads'](data, **kw)


def _install_tap():
    if getattr(pickle, '_c20_tap', False):
        return
    pickle.dump, pickle.dumps, pickle.load, pickle.loads = _tap_dump, _tap_dumps, _tap_load, _tap_loads
    pickle._c20_tap = True


_install_tap()

import epsie  # noqa: E402
import h5stub  # noqa: E402
import families as F  # noqa: E402
from epsie.samplers import MetropolisHastingsSampler, ParallelTemperedSampler  # noqa: E402

# if epsie was imported before this module (another check in the same process), its module
# attribute `pickle` is still the module object we patched, so the tap works either way.

PROTOCOLS = [None, 0, 1, 2, 3, 4, 5, -1]
DEFAULT_NAME = 'sampler_state'

# --------------------------------------------------------------------------
# payloads
# --------------------------------------------------------------------------

SIZES = [0, 1, 2, 3, 7, 8, 9, 15, 16, 17, 31, 32, 33, 63, 64, 65, 127, 128, 129, 255, 256, 257,
         511, 512, 513, 1000, 1023, 1024, 1025, 4095, 4096, 4097, 10000]
BIG_SIZES = [65535, 65536, 65537, 100003, 262144]
HUGE_SIZES = [1 << 20, (1 << 22) + 1]


def mk_bytes(desc):
    """Raw byte strings from a JSON-able descriptor."""
    k = desc[0]
    if k == 'hex':
        return bytes.fromhex(desc[1])
    if k == 'rnd':
        return random.Random(desc[1]).randbytes(desc[2])
    if k == 'zeros':
        return b'\x00' * desc[1]
    if k == 'all256':
        return bytes(range(256)) * desc[1]
    if k == 'rev256':
        return bytes(range(255, -1, -1)) * desc[1]
    if k == 'lead0':       # leading zeros, then random data
        return b'\x00' * desc[1] + random.Random(desc[2]).randbytes(desc[3])
    if k == 'trail0':      # data, then trailing zeros
        return random.Random(desc[2]).randbytes(desc[3]) + b'\x00' * desc[1]
    if k == 'both0':
        return b'\x00' * desc[1] + random.Random(desc[2]).randbytes(desc[3]) + b'\x00' * desc[1]
    if k == 'byte':        # one byte value repeated
        return bytes([desc[1]]) * desc[2]
    if k == 'sparse0':     # random data with every other byte zero
        r = random.Random(desc[1]).randbytes(desc[2])
        return bytes(b if i % 2 else 0 for i, b in enumerate(r))
    raise ValueError(desc)


def gen_bytes_desc(rng, sizes):
    n = rng.choice(sizes)
    r = rng.random()
    s = rng.randrange(1 << 30)
    if r < 0.30:
        return ['rnd', s, n]
    if r < 0.40:
        return ['zeros', n]
    if r < 0.50:
        return ['all256', max(1, n // 256) if n >= 256 else 1]
    if r < 0.55:
        return ['rev256', 1]
    if r < 0.65:
        return ['lead0', rng.choice([1, 2, 8, 100]), s, n]
    if r < 0.75:
        return ['trail0', rng.choice([1, 2, 8, 100]), s, n]
    if r < 0.80:
        return ['both0', rng.choice([1, 3, 64]), s, n]
    if r < 0.90:
        return ['byte', rng.choice([0, 0, 1, 10, 32, 46, 128, 255]), rng.choice([1, 1, 2, n or 1])]
    return ['sparse0', s, n]


class _Plain:
    """A user-defined picklable object (module level, so pickle finds it)."""

    def __init__(self, a, b):
        self.a = a
        self.b = b


def _catalogue():
    """Picklable objects: (label, object).  Deterministic."""
    g = numpy.random.Generator(numpy.random.PCG64(12345))
    g.normal(size=3)
    mt = numpy.random.Generator(numpy.random.MT19937(7))
    structured = numpy.zeros(3, dtype=[('x', 'f8'), ('k', 'i4'), ('s', 'S3')])
    structured['x'] = [1.5, numpy.nan, -0.0]
    structured['s'] = [b'a\x00b', b'', b'\x00\x00c']
    shared = [1.25, 'shared']
    objs = [
        ('none', None), ('zero', 0), ('true', True), ('empty-str', ''), ('empty-bytes', b''),
        ('nul-byte', b'\x00'), ('nul-bytes-100', b'\x00' * 100), ('all256-bytes', bytes(range(256))),
        ('all256-x40', bytes(range(256)) * 40), ('lead-trail-nul', b'\x00\x00abc\x00\x00'),
        ('bytearray', bytearray(b'\x00\x01\x00\xff')), ('str-with-nul', 'a\x00b✓\x00'),
        ('float', 0.1), ('nan', float('nan')), ('inf', float('inf')), ('neg-zero', -0.0),
        ('bigint', 2 ** 200 + 1), ('negint', -(2 ** 70)), ('complex', 1 + 2j),
        ('empty-dict', {}), ('empty-list', []), ('empty-tuple', ()), ('empty-set', set()),
        ('nested', {'a': [1, 2.5, None, ('t', b'\x00')], 3: {'deep': [[[]]]}, (1, 2): frozenset([1, 2])}),
        ('shared-refs', [shared, shared, {'again': shared}]),
        ('frozenset-keys', {frozenset(['x', 'y']): {'v': 1.0}, frozenset(['k']): {'v': 2}}),
        ('int-list-1000', list(range(1000))),
        ('np-f8', numpy.arange(12, dtype='f8').reshape(3, 4) / 7),
        ('np-f8-nan', numpy.array([0.0, -0.0, numpy.nan, numpy.inf, -numpy.inf, 5e-324])),
        ('np-0d', numpy.array(3.5)), ('np-empty', numpy.zeros((0, 3))),
        ('np-i8', numpy.array([0, -1, 2 ** 62], dtype='i8')), ('np-u1-256', numpy.arange(256, dtype='u1')),
        ('np-zeros-5000', numpy.zeros(5000)), ('np-bool', numpy.array([True, False])),
        ('np-noncontig', numpy.arange(20.).reshape(4, 5)[:, ::2]),
        ('np-fortran', numpy.asfortranarray(numpy.arange(6.).reshape(2, 3))),
        ('np-S-with-nul', numpy.array([b'a\x00b', b'\x00', b''], dtype='S3')),
        ('np-U', numpy.array(['x', '', 'yz\x00w'])),
        ('np-structured', structured),
        ('np-object', numpy.array([1, 'a', None, (2, 3)], dtype=object)),
        ('np-c16', numpy.array([1 + 2j, numpy.nan * 1j])),
        ('np-scalar-f8', numpy.float64(0.3)), ('np-scalar-i8', numpy.int64(-5)),
        ('np-scalar-bool', numpy.bool_(True)), ('np-scalar-f4', numpy.float32(1.1)),
        ('pcg64-state', g.bit_generator.state), ('mt19937-state', mt.bit_generator.state),
        ('plain-object', _Plain(1, {'z': numpy.arange(3)})),
        ('np-big-100k', numpy.random.Generator(numpy.random.PCG64(1)).normal(size=12500)),
        ('chain-like', {0: {'chain_id': 0, 'iteration': 17,
                            'current_position': {'x': numpy.float64(0.5), 'k': numpy.int64(2)},
                            'current_stats': {'logl': numpy.float64(-1.5), 'logp': 0.0},
                            'current_blob': None, 'hasblobs': False,
                            'proposal_dist': {frozenset(['x']): {'random_state': g.bit_generator.state,
                                                                 'std': numpy.array([0.5]), 'nsteps': 17}}}}),
    ]
    return objs


_CAT = None
_CAT_DROPPED = []


def catalogue():
    """The catalogue, minus any object that pickle itself (without epsie) does not give back
    deep-equal with some protocol — the oracle presupposes that pickle round-trips the object."""
    global _CAT
    if _CAT is None:
        out = []
        for label, obj in _catalogue():
            ok = True
            for p in PROTOCOLS:
                try:
                    back = _ORIG['loads'](_ORIG['dumps'](obj, p))
                    if not deep_eq(obj, back) or _ORIG['dumps'](obj, p) != _ORIG['dumps'](obj, p):
                        ok = False
                except Exception:
                    ok = False
            if ok:
                out.append((label, obj))
            else:
                _CAT_DROPPED.append(label)
        _CAT = out
    return _CAT


# --------------------------------------------------------------------------
# equality of states (dicts of numpy arrays etc.), exact, NaN-aware
# --------------------------------------------------------------------------

def deep_eq(a, b):
    if type(a) is not type(b):
        return False
    if isinstance(a, dict):
        if len(a) != len(b):
            return False
        for k in a:
            if k not in b:
                # NaN keys etc.: fall back to a positional comparison of items
                return all(deep_eq(x, y) for x, y in zip(a.items(), b.items())) and len(a) == len(b)
            if not deep_eq(a[k], b[k]):
                return False
        return True
    if isinstance(a, (list, tuple)):
        return len(a) == len(b) and all(deep_eq(x, y) for x, y in zip(a, b))
    if isinstance(a, (set, frozenset)):
        return a == b
    if isinstance(a, numpy.ndarray):
        if a.dtype != b.dtype or a.shape != b.shape:
            return False
        if a.dtype.hasobject:
            return all(deep_eq(x, y) for x, y in zip(a.ravel().tolist(), b.ravel().tolist()))
        return numpy.ascontiguousarray(a).tobytes() == numpy.ascontiguousarray(b).tobytes()
    if isinstance(a, numpy.generic):
        return a.dtype == b.dtype and a.tobytes() == b.tobytes()
    if isinstance(a, float):
        return a == b and (a != 0 or str(a) == str(b)) or (a != a and b != b)
    if isinstance(a, complex):
        return deep_eq(a.real, b.real) and deep_eq(a.imag, b.imag)
    if isinstance(a, (int, str, bytes, bytearray, bool, type(None))):
        return a == b
    if hasattr(a, '__dict__') and type(a).__eq__ is object.__eq__:
        return deep_eq(vars(a), vars(b))
    try:
        return bool(a == b)
    except Exception:
        return _ORIG['dumps'](a) == _ORIG['dumps'](b)


# --------------------------------------------------------------------------
# real samplers
# --------------------------------------------------------------------------

class _Model:
    def __init__(self, names, box):
        self.names = names
        self.box = box

    def __call__(self, **kw):
        for p, (lo, hi) in self.box.items():
            if not (lo <= kw[p] <= hi):
                return 0.0, -numpy.inf
        return -0.5 * sum(float(kw[p]) ** 2 for p in self.names) / 4.0, 0.0


def build_sampler(kind, family, seed):
    """A real MH or PT sampler with one proposal of `family`, started."""
    rng = random.Random(seed * 1000003 + 17)
    cls, pkind, lo, hi = F.FAMILIES[family]
    n = rng.randint(lo, hi)
    names = ['q%d' % i for i in range(n)]
    doms = {p: F.domain_for(pkind, rng, i) for i, p in enumerate(names)}
    prop = F.make(family, names, doms, rng, window=rng.randint(3, 8))
    box = {p: doms[p] for p in names if pkind in ('box', 'intbox')}
    model = _Model(names, box)
    nchains = rng.choice([1, 2, 3])
    if kind == 'mh':
        s = MetropolisHastingsSampler(names, model, nchains, proposals=[prop], seed=seed)
        shape = (nchains,)
    else:
        betas = numpy.array([1.0, 0.5, 0.2])
        s = ParallelTemperedSampler(names, model, nchains, betas, swap_interval=rng.choice([1, 2]),
                                    proposals=[prop], seed=seed)
        shape = (3, nchains)
    start = {}
    for i, p in enumerate(names):
        which = i if pkind == 'sphere' else 0
        vals = numpy.array([F.start_value(pkind, doms[p], rng, which)
                            for _ in range(int(numpy.prod(shape)))]).reshape(shape)
        start[p] = vals
    s.start_position = start
    s.run(1)            # `state` is defined only once every chain has been stepped
    return s


# --------------------------------------------------------------------------
# the streams a caller may hand to the public epsie.dump_pickle_to_hdf(memfp, ...)
# --------------------------------------------------------------------------
# A stream descriptor is [container, fill, payload, [poskind, k]] (JSON-able):
#   container  what kind of seekable binary stream (all of them accepted by the unchanged code)
#   fill       how the bytes got into it: 'init' (constructed over the bytes / file opened 'rb':
#              position 0), 'write' (one write: position at the END), 'write2' (two writes),
#              'pickle' (pickle.dump(obj, stream, protocol): position at the END)
#   payload    a bytes descriptor (see mk_bytes) or ['obj', label, protocol]
#   position   where the stream is when dump_pickle_to_hdf is called:
#              asfilled | start | end | mid k | read k (rewound, k bytes read) | loaded (rewound,
#              one pickle.load: at the end of the pickle) | beyond k (seek past the end)
# Streams the unchanged code refuses (not seekable, text mode: numpy.frombuffer wants bytes) are
# legal refusals and are not cases.

class _MiniStream:
    """A file-like object that is none of the io classes: seek / read / tell, nothing else."""

    def __init__(self, data, ret=bytes):
        self._d, self._p, self._ret, self.closed = bytes(data), 0, ret, False

    def seek(self, offset, whence=0):
        base = 0 if whence == 0 else (self._p if whence == 1 else len(self._d))
        self._p = max(0, base + offset)
        return self._p

    def tell(self):
        return self._p

    def read(self, size=-1):
        if size is None or size < 0:
            size = len(self._d)
        out = self._d[self._p:self._p + size]
        self._p += len(out)
        return self._ret(out)

    def readable(self):
        return True

    def seekable(self):
        return True

    def close(self):
        self.closed = True


STREAM_FILLS = {                                        # container -> fills it supports
    'bytesio': ('init', 'write', 'write2', 'pickle'),
    'tmpfile': ('write', 'write2', 'pickle'),           # tempfile.TemporaryFile('w+b'), a real file
    'rawfile': ('write', 'write2'),                     # the same, unbuffered (io.FileIO)
    'appendfile': ('write', 'write2'),                  # a real file opened 'a+b'
    'spooled': ('write', 'write2', 'pickle'),           # tempfile.SpooledTemporaryFile, still in memory
    'spooled-rolled': ('write', 'write2', 'pickle'),    # ... rolled over to a real file
    'bufrandom': ('write', 'write2', 'pickle'),         # io.BufferedRandom over a BytesIO
    'bufreader': ('init',),                             # io.BufferedReader over a BytesIO (read only)
    'rbfile': ('init',),                                # a real file holding the bytes, opened 'rb'
    'mmap': ('write',),                                 # anonymous mmap (non-empty payloads only)
    'mini': ('init',),                                  # not an io class: seek/read/tell only
    'mini-bytearray': ('init',),                        # ... whose read() returns a bytearray
}
STREAM_CONTAINERS = sorted(STREAM_FILLS)
STREAM_POSITIONS = ('asfilled', 'start', 'end', 'mid', 'read', 'loaded', 'beyond')


def stream_legal(container, fill, payload_is_obj, n, poskind):
    """Combinations the harness can build (not a statement about the code under test)."""
    if fill not in STREAM_FILLS[container]:
        return False
    if fill == 'pickle' and not payload_is_obj:
        return False
    if container == 'mmap' and (n == 0 or poskind == 'beyond'):
        return False                                    # mmap: no empty maps, no seek past the end
    if poskind == 'loaded' and (not payload_is_obj or container.startswith('mini')):
        return False                                    # pickle.load needs readline()
    return True


def payload_bytes(payload, cat):
    """(bytes, object or None) of a payload descriptor."""
    if payload[0] == 'obj':
        obj = cat[payload[1]]
        return _ORIG['dumps'](obj, payload[2]), obj
    return mk_bytes(payload), None


class HarnessIO(OSError):
    """The harness could not make a temporary file: infrastructure trouble, not a finding."""


def make_stream(sdesc, cat):
    """Build the stream of a descriptor.  Returns (stream, bytes it holds, object or None)."""
    try:
        return _make_stream(sdesc, cat)
    except OSError as e:
        raise HarnessIO('cannot build stream %r: %r' % (sdesc[:2], e))


def _make_stream(sdesc, cat):
    container, fill, payload, (poskind, k) = sdesc
    data, obj = payload_bytes(payload, cat)
    n = len(data)
    if not stream_legal(container, fill, payload[0] == 'obj', n, poskind):
        raise ValueError('stream descriptor the harness cannot build: %r' % (sdesc,))
    if container == 'bytesio':
        s = io.BytesIO(data) if fill == 'init' else io.BytesIO()
    elif container == 'tmpfile':
        s = tempfile.TemporaryFile('w+b')
    elif container == 'rawfile':
        s = tempfile.TemporaryFile('w+b', buffering=0)
    elif container == 'appendfile':
        fd, name = tempfile.mkstemp(prefix='c20_')
        os.close(fd)
        s = open(name, 'a+b')
        os.unlink(name)
    elif container == 'spooled':
        s = tempfile.SpooledTemporaryFile(max_size=1 << 30)
    elif container == 'spooled-rolled':
        s = tempfile.SpooledTemporaryFile(max_size=1 << 30)
    elif container == 'bufrandom':
        s = io.BufferedRandom(io.BytesIO())
    elif container == 'bufreader':
        s = io.BufferedReader(io.BytesIO(data))
    elif container == 'rbfile':
        fd, name = tempfile.mkstemp(prefix='c20_')
        os.write(fd, data)
        os.close(fd)
        s = open(name, 'rb')
        os.unlink(name)
    elif container == 'mmap':
        s = mmap.mmap(-1, n)
    elif container == 'mini':
        s = _MiniStream(data)
    elif container == 'mini-bytearray':
        s = _MiniStream(data, bytearray)
    else:
        raise ValueError(sdesc)
    if fill == 'write':
        s.write(data)
    elif fill == 'write2':
        cut = n // 3
        s.write(data[:cut])
        s.write(data[cut:])
    elif fill == 'pickle':
        _ORIG['dump'](obj, s, payload[2])
    if container == 'spooled-rolled':
        s.rollover()
    if poskind == 'start':
        s.seek(0)
    elif poskind == 'end':
        s.seek(0, 2)
    elif poskind == 'mid':
        s.seek(k % (n + 1))
    elif poskind == 'read':
        s.seek(0)
        s.read(k % (n + 1))
    elif poskind == 'loaded':
        s.seek(0)
        _ORIG['load'](s)
    elif poskind == 'beyond':
        s.seek(n + 1 + k % 40)
    return s, data, obj


def stream_content(s, container, n):
    """Everything the stream holds (read by the harness after the call under test)."""
    s.seek(0)
    return bytes(s.read(n) if container == 'mmap' else s.read())


# --------------------------------------------------------------------------
# call styles: every way a caller may spell the arguments of an entry point
# --------------------------------------------------------------------------
#   kw     leading arguments positional, the optional ones by keyword (what the older cases do)
#   pos    everything positional, in the documented order
#   min    optional arguments that have their default value are left out (exercises the defaults)
#   allkw  every argument by its documented name
#   mixed  the first optional argument positional, the rest by keyword
#   alias  through the other public name of the same function: epsie.samplers.dump_state /
#          load_state, resp. the method taken from the sampler's class and given the sampler
STYLES = ('kw', 'pos', 'min', 'allkw', 'mixed', 'alias')


def _invoke(fn, lead, lead_names, opts, style):
    """opts: [(name, value, default)] in signature order."""
    if style == 'pos':
        return fn(*lead, *[v for _, v, _ in opts])
    if style == 'min':
        return fn(*lead, **{k: v for k, v, d in opts if not (v is None if d is None else v == d)})
    if style == 'allkw':
        kw = dict(zip(lead_names, lead))
        kw.update({k: v for k, v, _ in opts})
        return fn(**kw)
    if style == 'mixed':
        return fn(*lead, opts[0][1], **{k: v for k, v, _ in opts[1:]})
    return fn(*lead, **{k: v for k, v, _ in opts})


def call_dump_pickle(stream, fp, path, name, style):
    return _invoke(epsie.dump_pickle_to_hdf, [stream, fp], ['memfp', 'fp'],
                   [('path', path, None), ('dsetname', name, DEFAULT_NAME)], style)


def call_dump_state(obj, fp, path, name, protocol, style):
    import epsie.samplers
    fn = epsie.samplers.dump_state if style == 'alias' else epsie.dump_state
    return _invoke(fn, [obj, fp], ['state', 'fp'],
                   [('path', path, None), ('dsetname', name, DEFAULT_NAME), ('protocol', protocol, None)], style)


def call_load_state(fp, path, name, style):
    import epsie.samplers
    fn = epsie.samplers.load_state if style == 'alias' else epsie.load_state
    return _invoke(fn, [fp], ['fp'], [('path', path, None), ('dsetname', name, DEFAULT_NAME)], style)


def call_checkpoint(sampler, fp, path, name, style):
    opts = [('path', path, None), ('dsetname', name, DEFAULT_NAME)]
    if style == 'alias':
        return _invoke(type(sampler).checkpoint, [sampler, fp], ['self', 'fp'], opts, 'kw')
    return _invoke(sampler.checkpoint, [fp], ['fp'], opts, style)


def call_restore(sampler, fp, path, style):
    opts = [('path', path, None)]
    if style == 'alias':
        return _invoke(type(sampler).set_state_from_checkpoint, [sampler, fp], ['self', 'fp'], opts, 'kw')
    return _invoke(sampler.set_state_from_checkpoint, [fp], ['fp'], opts, style)


# --------------------------------------------------------------------------
# cases
# --------------------------------------------------------------------------
# A case is {'id':..., 'samplers': [[kind, family, seed], ...], 'ops': [...]} (JSON-able).
# ops:  ['group', path]
#       ['foreign', path, name, bytesdesc, maxlen|None]      a dataset written by someone else
#       ['raw', path, name, bytesdesc]                       epsie.dump_pickle_to_hdf(BytesIO(bytes), ...)
#       ['state', path, name, ['obj', label] , protocol]     epsie.dump_state(obj, ..., protocol=protocol)
#       ['ckpt', path, name, sid]                            samplers[sid].checkpoint(fp, path, dsetname)
#       ['run', sid, n]                                      samplers[sid].run(n)
#       ['load', path, name]                                 epsie.load_state(fp, path, dsetname)
#       ['restore', path, sid]                               twin of samplers[sid].set_state_from_checkpoint(fp, path)
#       ['ls']                                               the whole CURRENT file
#       ['file', i]                                          the following ops address file object i (a second,
#                                                            third ... h5py.File open in the same process)
#       ['stream', path, name, streamdesc, style]            epsie.dump_pickle_to_hdf(<stream>, ...), see make_stream
#       ['sread', bytesdesc, pos] / ['swrite', bytesdesc, pos, bytesdesc]
#                                                            io.BytesIO and a real file against the model's Stream
# 'state', 'ckpt', 'load' and 'restore' take an optional trailing call style (see STYLES; default 'kw').
# path: None | 'a' | 'a/b' | '/a/b' | '/' ...;  name: str (names containing '/' only in search cases)

PATHS = [None, None, 'a', 'a/b', '/a', '/', 'g2']
GROUPS = ['a/b', 'g2']
NAMES = [DEFAULT_NAME, DEFAULT_NAME, 's2', 'x']


def loc_of(path, name):
    comps = [] if path is None else [c for c in path.split('/') if c]
    return tuple(comps + [c for c in name.split('/') if c])


def gen_case(rng, cid, sizes, nops, sampler_specs=(), slashed=False, errors=True):
    ops = [['group', g] for g in GROUPS]
    labels = [l for l, _ in catalogue()]
    names = list(NAMES) + (['sub/y', 'a/b/x'] if slashed else [])
    keys = [(rng.choice(PATHS), rng.choice(names)) for _ in range(rng.randint(1, 4))]
    if errors and rng.random() < 0.3:
        p, nm = rng.choice(PATHS), 'lim'
        bd = gen_bytes_desc(rng, sizes[:12])
        ops.append(['foreign', p, nm, bd, len(mk_bytes(bd)) + rng.choice([0, 3, 40, 300, 5000])])
        keys.append((p, nm))
    samplers = [list(s) for s in sampler_specs]
    for _ in range(nops):
        path, name = rng.choice(keys)
        r = rng.random()
        if samplers and r < 0.25:
            sid = rng.randrange(len(samplers))
            if rng.random() < 0.6:
                ops.append(['run', sid, rng.choice([0, 1, 2, 5])])
            restore = rng.random() < 0.5
            if restore and rng.random() < 0.7:
                name = DEFAULT_NAME          # the only name set_state_from_checkpoint reads
            ops.append(['ckpt', path, name, sid])
            if restore:
                ops.append(['restore', path, sid])
        elif r < 0.55:
            ops.append(['raw', path, name, gen_bytes_desc(rng, sizes)])
        elif r < 0.85:
            ops.append(['state', path, name, ['obj', rng.choice(labels)], rng.choice(PROTOCOLS)])
        elif errors and r < 0.90:                              # a group that does not exist
            bad = rng.choice(['nogroup', 'a/zz'])
            if rng.random() < 0.5:
                ops.append(['raw', bad, name, ['rnd', rng.randrange(99), 5]])
            else:
                ops.append(['load', bad, name])
        elif errors and r < 0.93:
            ops.append(['raw', None, 'a', ['rnd', 3, 4]])      # the name of a subgroup
        else:
            ops.append(['load', path, name])
        if rng.random() < 0.5:
            ops.append(['load', path, name])
        if rng.random() < 0.15:
            k2 = rng.choice(keys)
            ops.append(['load', k2[0], k2[1]])
    ops.append(['ls'])
    return {'id': cid, 'samplers': samplers, 'ops': ops}


def fixed_cases():
    """Hand-written histories: the four overwrite cases with zero bytes, one-byte and empty
    payloads after longer ones (the broadcasting hazard), every protocol, two keys differing in
    path only / name only."""
    cases = []
    seq = [['all256', 1], ['zeros', 3], ['zeros', 300], ['byte', 0, 1], ['hex', ''], ['byte', 7, 1],
           ['rnd', 5, 1000], ['lead0', 8, 6, 10], ['trail0', 8, 7, 10], ['trail0', 8, 8, 10],
           ['rnd', 9, 18], ['byte', 255, 1], ['zeros', 1], ['rnd', 10, 4097], ['hex', '00'], ['hex', '0100']]
    ops = [['group', 'a/b']]
    for d in seq:
        ops += [['raw', None, DEFAULT_NAME, d], ['load', None, DEFAULT_NAME]]
    ops.append(['ls'])
    cases.append({'id': 'fixed-overwrite', 'samplers': [], 'ops': ops})
    ops = [['group', 'a/b']]
    for i, (p, nm) in enumerate([(None, 's'), ('a', 's'), ('a/b', 's'), (None, 't'), ('/', 's'), ('/a/b/', 's'),
                                 ('a', 't'), (None, 's')]):
        ops += [['raw', p, nm, ['rnd', i, 3 + 5 * (i % 3)]], ['ls']]
    for p, nm in [(None, 's'), ('a', 's'), ('a/b', 's'), (None, 't'), ('a', 't'), ('a/b', 't')]:
        ops.append(['load', p, nm])
    cases.append({'id': 'fixed-frame', 'samplers': [], 'ops': ops})
    ops = []
    for lab in ['nested', 'np-f8-nan', 'all256-bytes', 'nul-bytes-100', 'chain-like', 'none']:
        for p in PROTOCOLS:
            ops += [['state', None, DEFAULT_NAME, ['obj', lab], p], ['load', None, DEFAULT_NAME]]
    ops.append(['ls'])
    cases.append({'id': 'fixed-protocols', 'samplers': [], 'ops': ops})
    ops = [['foreign', None, 'lim', ['rnd', 1, 10], 20], ['raw', None, 'lim', ['rnd', 2, 20]],
           ['raw', None, 'lim', ['rnd', 3, 21]], ['load', None, 'lim'], ['raw', None, 'lim', ['zeros', 0]],
           ['raw', None, 'lim', ['rnd', 4, 25]], ['load', None, 'lim'], ['load', None, 'absent'],
           ['raw', 'nogroup', 's', ['rnd', 1, 3]], ['load', 'nogroup', 's'], ['group', 'g'],
           ['raw', None, 'g', ['rnd', 1, 3]], ['load', None, 'g'], ['ls']]
    cases.append({'id': 'fixed-rejections', 'samplers': [], 'ops': ops})
    return cases


def exhaustive_cases(depth):
    """Every sequence of `depth` dumps to one key over lengths {0, 1, 2, 5} x {all-zero, zeros
    mixed with non-zero}, with a second key as frame sentinel: all transitions
    absent/shorter/longer/equal between all these payloads, in every order."""
    import itertools
    pays = ['', '00', '07', '0000', '0100', '0000000000', '0100020000']
    cases = []
    for n, seq in enumerate(itertools.product(range(len(pays)), repeat=depth)):
        ops = [['group', 'a'], ['raw', 'a', DEFAULT_NAME, ['hex', 'ff00ff']]]
        for i in seq:
            ops += [['raw', None, DEFAULT_NAME, ['hex', pays[i]]], ['load', None, DEFAULT_NAME]]
        ops += [['load', 'a', DEFAULT_NAME], ['ls']]
        cases.append({'id': 'exh%d-%s' % (depth, ''.join(map(str, seq))), 'samplers': [], 'ops': ops})
    return cases


# --------------------------------------------------------------------------
# cases driving EVERY public entry point (not only dump_state): dump_pickle_to_hdf with streams in
# every state a caller can have them in, all call styles, two files open at once
# --------------------------------------------------------------------------

ALT_SPELLING = {None: '/', '/': None, 'a': '/a', 'a/b': '/a/b/', '/a/b/': 'a/b', 'g2': '/g2'}
ENTRY_PATHS = [None, 'a', 'a/b', '/a/b/', '/', 'g2']
SMALL_PICKLE = 600
TWO_FILES_SETUP = [['group', 'a/b'], ['group', 'g2'], ['file', 1], ['group', 'a/b'], ['group', 'g2'], ['file', 0]]


def _labels_by_size(limit=None):
    out = []
    for label, obj in catalogue():
        if limit is None or max(len(_ORIG['dumps'](obj, p)) for p in (0, 2, 4)) <= limit:
            out.append(label)
    return out


def _payload_len(payload):
    return len(payload_bytes(payload, dict(catalogue()))[0])


def _same_length_payload(rng, n):
    """Different bytes of the same length (zeros included)."""
    return ['sparse0', rng.randrange(1 << 30), n] if n and rng.random() < 0.5 else ['rnd', rng.randrange(1 << 30), n]


def gen_stream_desc(rng, labels, sizes, container=None, poskind=None, want_obj=None):
    """A buildable stream descriptor, uniformly over what is legal."""
    for _ in range(200):
        c = container or rng.choice(STREAM_CONTAINERS)
        pk = poskind or rng.choice(STREAM_POSITIONS)
        is_obj = (rng.random() < 0.5) if want_obj is None else want_obj
        if pk == 'loaded':
            is_obj = True
        fill = rng.choice(STREAM_FILLS[c])
        payload = (['obj', rng.choice(labels), rng.choice(PROTOCOLS)] if is_obj
                   else gen_bytes_desc(rng, sizes))
        n = _payload_len(payload)
        if stream_legal(c, fill, is_obj, n, pk):
            return [c, fill, payload, [pk, rng.randrange(1 << 16)]]
    raise RuntimeError('no legal stream for %r %r' % (container, poskind))


def _prior_ops(rng, path, name, n, prior, labels):
    """Ops that leave a checkpoint at (path, name) that is shorter / longer / as long as n bytes,
    written through one of the OTHER entry points or stream kinds."""
    if prior == 'absent':
        return []
    if prior == 'shorter' and n == 0:
        prior = 'longer'
    m = {'equal': n, 'shorter': rng.choice([0, n // 2, n - 1]), 'longer': n + rng.choice([1, 2, 64, 1000])}[prior]
    bd = _same_length_payload(rng, m)
    r = rng.random()
    if r < 0.4:
        return [['raw', path, name, bd]]
    if r < 0.8:
        c = rng.choice(STREAM_CONTAINERS)
        pk = rng.choice(['asfilled', 'start', 'end', 'mid', 'read', 'beyond'])
        fill = rng.choice([f for f in STREAM_FILLS[c] if f != 'pickle'])
        if stream_legal(c, fill, False, m, pk):
            return [['stream', path, name, [c, fill, bd, [pk, rng.randrange(1 << 16)]], rng.choice(STYLES[:5])]]
        return [['raw', path, name, bd]]
    # an object through dump_state first, then the exact length through a raw dump only if needed
    return [['state', path, name, ['obj', rng.choice(labels)], rng.choice(PROTOCOLS), rng.choice(STYLES)],
            ['raw', path, name, bd]]


def stream_matrix_cases(seed, variant=0):
    """For every kind of stream x every position kind x every prior state of the key (absent /
    shorter / longer / equally long earlier checkpoint): one dump through dump_pickle_to_hdf and a
    load; keys spread over nested paths, custom names and two files.  One case per container."""
    rng = random.Random((seed << 12) ^ 0x57E4 ^ (variant * 0x9E3779))
    labels = _labels_by_size(SMALL_PICKLE)
    sizes = [0, 1, 2, 3, 17, 64, 65, 255, 300]
    cases = []
    for container in STREAM_CONTAINERS:
        ops = [list(o) for o in TWO_FILES_SETUP]
        combos = [(pk, pr) for pk in STREAM_POSITIONS for pr in ('absent', 'shorter', 'longer', 'equal')]
        rng.shuffle(combos)
        curfile = 0
        for j, (pk, prior) in enumerate(combos):
            if pk == 'loaded' and container.startswith('mini'):
                continue
            if pk == 'beyond' and container == 'mmap':
                continue
            sd = gen_stream_desc(rng, labels, sizes, container=container, poskind=pk,
                                 want_obj=(True if pk == 'loaded' else (j % 2 == 0)))
            n = _payload_len(sd[2])
            path = ENTRY_PATHS[(j + rng.randrange(2)) % len(ENTRY_PATHS)]
            name = DEFAULT_NAME if (prior != 'absent' and j % 3 == 0) else 'k%d' % j
            want_file = (j // 2) % 2
            if want_file != curfile:
                ops.append(['file', want_file])
                curfile = want_file
            ops += _prior_ops(rng, path, name, n, prior, labels)
            ops.append(['stream', path, name, sd, STYLES[j % 5]])
            ops.append(['load', ALT_SPELLING[path] if j % 4 == 1 else path, name, STYLES[(j + 2) % 6]])
        ops += [['file', 0], ['ls'], ['file', 1], ['ls']]
        cases.append({'id': 'streams%d-%s' % (variant, container), 'samplers': [], 'ops': ops})
    return cases


def exhaustive_position_cases():
    """EVERY position 0 .. len+2 of a 5-byte stream (zeros inside) and of a 1-byte and an empty one,
    for in-memory, real-file, spooled and non-io streams, over every prior state of the key."""
    cases = []
    datas = ['8000050046', '00', '']
    for container, fill in (('bytesio', 'init'), ('bytesio', 'write'), ('tmpfile', 'write'),
                            ('spooled', 'write2'), ('mini', 'init'), ('rbfile', 'init')):
        ops = [['group', 'a/b']]
        j = 0
        for hx in datas:
            n = len(hx) // 2
            for pos in range(n + 3):
                for prior in ('absent', 'shorter', 'longer', 'equal'):
                    if prior == 'shorter' and n == 0:
                        continue
                    name = 'p%d' % j
                    j += 1
                    if prior != 'absent':
                        m = {'shorter': n - 1, 'longer': n + 2, 'equal': n}[prior]
                        ops.append(['raw', 'a/b', name, ['hex', 'ff00' * (m // 2) + 'ff' * (m % 2)]])
                    ops.append(['stream', 'a/b', name, [container, fill, ['hex', hx], ['mid' if pos <= n else 'beyond',
                                                                                    pos if pos <= n else pos - n - 1]],
                                'kw'])
                    ops.append(['load', 'a/b', name])
        ops.append(['ls'])
        cases.append({'id': 'exhpos-%s-%s' % (container, fill), 'samplers': [], 'ops': ops})
    return cases


def stream_model_case():
    """The model's Stream.read / Stream.write against io.BytesIO and a real file."""
    ops = []
    datas = ['', '07', '0102', '01000300', '0102030405']
    for hx in datas:
        n = len(hx) // 2
        for pos in range(n + 3):
            ops.append(['sread', ['hex', hx], pos])
            for w in ('', '00', 'aabb', 'ccddeeff'):
                ops.append(['swrite', ['hex', hx], pos, ['hex', w]])
    return {'id': 'stream-model', 'samplers': [], 'ops': ops}


def sampler_styles_case(sampler_specs):
    """sampler.checkpoint / set_state_from_checkpoint in every call style, at the top level and in
    a nested group, default and custom dataset names, in two files, with the samplers running on
    between the checkpoints (so that consecutive checkpoints differ)."""
    ops = [list(o) for o in TWO_FILES_SETUP]
    ns = len(sampler_specs)
    j = 0
    for fi in (0, 1):
        ops.append(['file', fi])
        for path in (None, 'a/b', '/'):
            for style in STYLES:
                sid = j % ns
                ops += [['run', sid, 1 + j % 2],
                        ['ckpt', path, DEFAULT_NAME, sid, style],
                        ['restore', ALT_SPELLING[path] if j % 3 == 0 else path, sid, STYLES[(j + 1) % 6]],
                        ['ckpt', path, 'other-%d' % (j % 2), (sid + 1) % ns, STYLES[(j + 2) % 6]],
                        ['load', path, 'other-%d' % (j % 2), STYLES[(j + 3) % 6]],
                        ['restore', path, sid, STYLES[(j + 4) % 6]]]    # still the state checkpointed first
                j += 1
    ops += [['file', 0], ['ls'], ['file', 1], ['ls']]
    return {'id': 'sampler-styles', 'samplers': [list(sp) for sp in sampler_specs], 'ops': ops}


def gen_entry_case(rng, cid, sizes, nops, sampler_specs=(), labels=None, slashed=False):
    """A random interleaving of ALL entry points — dump_pickle_to_hdf with every kind of stream,
    dump_state, sampler.checkpoint, load_state, set_state_from_checkpoint, in every call style —
    over a few (path, name) keys used in TWO files at once, with equal / growing / shrinking
    sizes and identical bytes going to both files."""
    labels = labels or _labels_by_size(SMALL_PICKLE)
    ops = [list(o) for o in TWO_FILES_SETUP]
    names = [DEFAULT_NAME, DEFAULT_NAME, 's2', 'x', 'ckpt-7'] + (['sub/y', 'a/b/x'] if slashed else [])
    keys = [(rng.choice(ENTRY_PATHS), rng.choice(names)) for _ in range(rng.randint(2, 4))]
    samplers = [list(sp) for sp in sampler_specs]
    lastlen = {}                                    # (file, key) -> length of the last dump, if known
    curfile = 0

    def dump_ops(path, name, n_hint):
        """One dump through a randomly chosen entry point; returns (ops, length or None)."""
        r = rng.random()
        if samplers and r < 0.25:
            sid = rng.randrange(len(samplers))
            out = []
            if rng.random() < 0.6:
                out.append(['run', sid, rng.choice([0, 1, 2])])
            out.append(['ckpt', path, name, sid, rng.choice(STYLES)])
            if name == DEFAULT_NAME and rng.random() < 0.7:
                out.append(['restore', path, sid, rng.choice(STYLES)])
            return out, None
        if r < 0.35:
            lab, proto = rng.choice(labels), rng.choice(PROTOCOLS)
            return ([['state', path, name, ['obj', lab], proto, rng.choice(STYLES)]],
                    _payload_len(['obj', lab, proto]))
        if r < 0.45:
            bd = _same_length_payload(rng, n_hint) if n_hint is not None else gen_bytes_desc(rng, sizes)
            return [['raw', path, name, bd]], len(mk_bytes(bd))
        sd = gen_stream_desc(rng, labels, sizes)
        if n_hint is not None and sd[2][0] != 'obj' and stream_legal(sd[0], sd[1], False, n_hint, sd[3][0]):
            sd[2] = _same_length_payload(rng, n_hint)
        return [['stream', path, name, sd, rng.choice(STYLES[:5])]], _payload_len(sd[2])

    for _ in range(nops):
        if rng.random() < 0.3:
            curfile = 1 - curfile
            ops.append(['file', curfile])
        path, name = rng.choice(keys)
        r = rng.random()
        if r < 0.75:
            hint = lastlen.get((curfile, path, name)) if rng.random() < 0.4 else None
            new, n = dump_ops(path, name, hint)
            ops += new
            lastlen[(curfile, path, name)] = n
            if rng.random() < 0.2 and new[-1][0] in ('raw', 'state', 'stream'):
                # the very same dump to the same (path, name) of the OTHER file
                curfile = 1 - curfile
                ops += [['file', curfile], copy.deepcopy(new[-1])]
                lastlen[(curfile, path, name)] = n
        elif r < 0.80:
            sd = gen_stream_desc(rng, labels, sizes[:8])
            ops.append(['stream', rng.choice(['nogroup', 'a/zz']), name, sd, rng.choice(STYLES[:5])])
        else:
            ops.append(['load', path, name, rng.choice(STYLES)])
        if rng.random() < 0.5:
            ops.append(['load', ALT_SPELLING.get(path, path) if rng.random() < 0.3 else path, name, rng.choice(STYLES)])
        if rng.random() < 0.15:
            curfile = 1 - curfile
            ops += [['file', curfile], ['load', path, name, rng.choice(STYLES)]]
    ops += [['file', 0], ['ls'], ['file', 1], ['ls']]
    return {'id': cid, 'samplers': samplers, 'ops': ops}


# --------------------------------------------------------------------------
# executing a case on the real code
# --------------------------------------------------------------------------

ERR_CLASSES = {           # model error -> exception classes the h5py call may raise
    'noGroup': ('KeyError',), 'noObject': ('KeyError',),
    'notDataset': ('AttributeError', 'TypeError'),
    'cannotResize': ('ValueError', 'TypeError', 'RuntimeError'),
    'shapeMismatch': ('ValueError', 'TypeError'), 'nameExists': ('ValueError', 'RuntimeError'),
}


def hexs(b):
    return b.hex() if b else '-'


def fmt_ls(fp):
    groups, dsets = fp.listing()
    gs = sorted('/' + '/'.join(g) for g in groups)
    ds = sorted('/%s:%s:%s' % ('/'.join(loc), 'none' if mx is None else mx, hexs(data))
                for loc, (data, mx, chunked, dt) in dsets.items())
    return 'ls groups=%s dsets=%s' % (';'.join(gs) or '-', ';'.join(ds) or '-')


def ppath(path):
    return '-' if path is None else path


class Result:
    def __init__(self):
        self.proto = []          # protocol lines for the Lean driver
        self.real = []           # what the real code did, one line per answering protocol line
        self.findings = []       # (key, text, payload)
        self.stats = {}
        self.samples = []

    def count(self, k, n=1):
        self.stats[k] = self.stats.get(k, 0) + n


def _zero_class(b):
    if not b:
        return 'empty'
    if b.count(0) == len(b):
        return 'only-zero'
    tags = []
    if b[0] == 0:
        tags.append('lead')
    if b[-1] == 0:
        tags.append('trail')
    if not tags and 0 in b:
        tags.append('inner')
    return '+'.join(tags) + '-zero' if tags else 'no-zero'


def execute(case, res=None):
    """Run a case on the real code against a fresh stand-in file.

    Appends protocol/real lines (for the correspondence) and oracle findings (search)."""
    res = res or Result()
    files = {0: h5stub.File()}    # the file objects open in this process
    cur = 0                       # the one the ops address
    fp = files[cur]
    cat = dict(catalogue())
    expected = {}                 # (file, resolved location) -> (bytes of the last dump, object or None, loadable)
    foreign = {}                  # (file, location) -> maxlen of datasets not written by epsie
    samplers, twins = [], []
    for kind, fam, seed in case.get('samplers', []):
        samplers.append(build_sampler(kind, fam, seed))
        twins.append(None)
    res.proto.append('case %s' % case['id'])
    res.real.append('case %s' % case['id'])

    def finding(key, text, op, extra=None):
        pl = {'case': case, 'op': op, 'how_to_replay': './check C20 --replay <this file>'}
        pl.update(extra or {})
        if not any(k == key for k, _, _ in res.findings):
            res.findings.append((key, text, pl))

    def check_frame(op, touched):
        """Every key other than `touched` — in every open file — still stores the bytes of its last dump."""
        touched = None if touched is None else (cur, touched)
        listings = {i: f.listing()[1] for i, f in files.items()}
        for fl, (b, _, _) in expected.items():
            if fl == touched:
                continue
            have = listings[fl[0]].get(fl[1], (None,))[0]
            if have != b:
                other = touched is not None and fl[0] != touched[0]
                finding('frame-other-file' if other else 'frame',
                        'a dump/load addressed to %r of file %d changed the stored bytes of %r of file %d: %d bytes '
                        'expected (sha1 %s), found %s'
                        % (touched and touched[1], cur, fl[1], fl[0], len(b), hashlib.sha1(b).hexdigest()[:10],
                           'nothing' if have is None else '%d bytes' % len(have)), op)
        # and nothing appeared that nobody dumped
        for i, ds in listings.items():
            for loc in ds:
                if (i, loc) not in expected and (i, loc) != touched:
                    finding('frame-new-dataset', 'a dump/load addressed to %r of file %d made a dataset %r appear in '
                            'file %d' % (touched and touched[1], cur, loc, i), op)
        if len(files) > 1:
            res.count('frame_checks_other_files', sum(1 for fl in expected if fl[0] != cur))
        res.count('frame_checks', max(0, len(expected) - (1 if touched in expected else 0)))

    for op in case['ops']:
        kind = op[0]
        if kind == 'file':
            cur = op[1]
            if cur not in files:
                files[cur] = h5stub.File()
                res.count('files_opened')
            fp = files[cur]
            res.proto.append('file %d' % cur)
            res.real.append('ok file')
        elif kind == 'group':
            fp.require_group(op[1])
            res.proto.append('group %s' % op[1])
            res.real.append('ok group')
        elif kind == 'foreign':
            _, path, name, bd, mx = op
            data = mk_bytes(bd)
            grp = fp if path is None else fp[path]
            d = grp.create_dataset(name, shape=(len(data),), maxshape=(mx,), dtype='S1')
            d[:] = numpy.frombuffer(data, dtype='S1')
            loc = loc_of(path, name)
            expected[(cur, loc)] = (data, None, False)
            foreign[(cur, loc)] = mx
            res.proto.append('foreign %s %s %s %s' % (ppath(path), name, hexs(data), 'none' if mx is None else mx))
            res.real.append('ok foreign')
        elif kind == 'run':
            _, sid, n = op
            try:
                if n:
                    samplers[sid].run(n)
                res.count('sampler_iterations', n)
            except Exception as e:      # defects of other properties are not C20's business
                res.count('sampler_run_raised:' + type(e).__name__)
        elif kind in ('sread', 'swrite'):
            # the model's Stream against the real io classes (BytesIO and a real file)
            data, pos = mk_bytes(op[1]), op[2]
            outs = []
            for mk in (lambda: io.BytesIO(), lambda: tempfile.TemporaryFile('w+b')):
                s = mk()
                s.write(data)
                s.seek(pos)
                if kind == 'sread':
                    got = s.read()
                    outs.append('ok sread %s %d' % (hexs(got), s.tell()))
                else:
                    s.write(mk_bytes(op[3]))
                    after = s.tell()
                    s.seek(0)
                    outs.append('ok swrite %s %d' % (hexs(s.read()), after))
                s.close()
            if kind == 'sread':
                res.proto.append('sread %s %d' % (hexs(data), pos))
            else:
                res.proto.append('swrite %s %d %s' % (hexs(data), pos, hexs(mk_bytes(op[3]))))
            res.real.append(outs[0] if outs[0] == outs[1] else 'BytesIO: %s / file: %s' % tuple(outs))
            res.count('stream_model_lines')
        elif kind in ('raw', 'state', 'ckpt', 'stream'):
            path, name = op[1], op[2]
            loc = loc_of(path, name)
            fl = (cur, loc)
            obj, loadable, want, proto_used = None, True, None, None
            stream, pos0, sdesc = None, 0, None
            style = 'kw'
            if kind == 'ckpt':
                style = op[4] if len(op) > 4 else 'kw'
                try:                    # reading sampler.state is not C20's business
                    obj = copy.deepcopy(samplers[op[3]].state)
                    _ORIG['dumps'](obj)
                except Exception as e:
                    res.count('sampler_state_unreadable:' + type(e).__name__)
                    continue
            elif kind == 'state':
                style = op[5] if len(op) > 5 else 'kw'
            elif kind == 'stream':
                sdesc, style = op[3], op[4]
                stream, want, obj = make_stream(sdesc, cat)     # harness trouble here is not a finding
                loadable = sdesc[2][0] == 'obj'
                pos0 = stream.tell()
            TAP.reset()
            for f_ in files.values():
                f_.calls = []
            before = fp.listing()[1].get(loc)      # what the file really holds at the key
            try:
                if kind == 'raw':
                    want = mk_bytes(op[3])
                    loadable = False
                    epsie.dump_pickle_to_hdf(io.BytesIO(want), fp, path=path, dsetname=name)
                elif kind == 'stream':
                    call_dump_pickle(stream, fp, path, name, style)
                elif kind == 'state':
                    obj = cat[op[3][1]]
                    proto_used = op[4]
                    want = _ORIG['dumps'](obj, proto_used)
                    TAP.active = True
                    call_dump_state(obj, fp, path, name, proto_used, style)
                else:
                    TAP.active = True
                    call_checkpoint(samplers[op[3]], fp, path, name, style)
                exc = None
            except Exception as e:
                exc = e
            finally:
                TAP.active = False
            _gap(exc)
            captured = TAP.dumped[0][2] if TAP.dumped else None
            if kind == 'ckpt':
                if captured is not None:
                    want = captured
                    if TAP.dumped[0][0] is not None and not deep_eq(TAP.dumped[0][0], obj):
                        finding('checkpoint-state', 'checkpoint() pickled something different from sampler.state', op)
                else:
                    res.count('dump_bytes_uncaptured')
            elif kind == 'state' and captured is not None and captured != want:
                # not a violation of C20 (any pickle of the state will do): the bytes the real
                # code pickled are the oracle input
                res.count('dump_bytes_differ_from_harness_pickle')
                want = captured
            if kind in ('state', 'ckpt') and captured is not None and TAP.dumped[0][3] is not None:
                pos0 = TAP.dumped[0][3]          # where pickle.dump left the stream dump_state passes on
            if kind == 'stream':
                container, fill, _, (poskind, _k) = sdesc
                try:
                    pos1 = stream.tell()
                    content = stream_content(stream, container, len(want))
                    if content != want:
                        if fill == 'pickle':     # pickle.dump to this kind of file vs pickle.dumps
                            res.count('stream_pickle_dump_differs_from_dumps')
                            want = content
                        else:
                            res.count('stream_content_changed_by_call')
                    res.count('stream_left_at:' + ('end' if pos1 == len(want) else 'start' if pos1 == 0 else 'elsewhere'))
                except Exception as e:
                    res.count('stream_unreadable_after_call:' + type(e).__name__)
                try:
                    stream.close()
                except Exception:
                    pass
            size_unknown = kind in ('state', 'ckpt') and captured is None
            calls = [c[0] for c in fp.calls]
            branch = 'create' if 'create' in calls else ('resize' if 'resize' in calls else 'keep')
            for i_, f_ in files.items():
                if i_ != cur and f_.calls:
                    finding('other-file-touched', 'a dump to file %d made h5py calls on file %d: %r'
                            % (cur, i_, f_.calls[:4]), op)
            _, dsets = fp.listing()
            stored = dsets.get(loc, (None,))[0]
            if want is None:                     # a checkpoint whose pickle we could not observe
                want = stored if stored is not None else b''
            prior = ('absent' if before is None else
                     'shorter' if len(before[0]) < len(want) else
                     'longer' if len(before[0]) > len(want) else 'equal')
            if pos0:
                res.proto.append('dumps %s %s %s %d' % (ppath(path), name, hexs(want), pos0))
            else:
                res.proto.append('dump %s %s %s' % (ppath(path), name, hexs(want)))
            must_succeed = _group_exists(fp, path) and not _is_group(fp, loc) and \
                (fl not in foreign or foreign[fl] is None or len(want) <= foreign[fl] or
                 (before is not None and len(before[0]) == len(want)))
            if must_succeed and size_unknown and foreign.get(fl) is not None:
                must_succeed = False             # a size-limited dataset and a pickle of unobserved size
            where = ('at 0' if pos0 == 0 else 'at the end' if pos0 == len(want) else
                     'inside' if pos0 < len(want) else 'beyond the end')
            if kind == 'stream':
                what = 'stream: %s filled by %s, positioned %s (%d of %d, %s), call style %s' % (
                    sdesc[0], sdesc[1], where, pos0, len(want), sdesc[3][0], style)
            else:
                what = kind if style == 'kw' else '%s, call style %s' % (kind, style)
            if exc is None:
                res.real.append('ok dump branch=%s' % branch)
                res.count('dump_ok')
                res.count('branch:' + branch)
                res.count('prior:' + prior)
                res.count('kind:' + kind)
                res.count('zeros:' + _zero_class(want))
                res.count('style:%s:%s' % (kind, style))
                if len(files) > 1:
                    res.count('dump_with_several_files_open')
                if kind == 'state':
                    res.count('protocol:%s' % (proto_used,))
                if kind == 'stream':
                    res.count('stream_container:' + sdesc[0])
                    res.count('stream_fill:' + sdesc[1])
                    res.count('stream_position:' + where)
                    res.count('stream_poskind:' + sdesc[3][0])
                    res.count('stream_prior:%s:%s' % (where, prior))
                    res.stats.setdefault('_stream_combos', set()).add((sdesc[0], sdesc[1], where, prior))
                elif kind in ('state', 'ckpt'):
                    res.count('dump_state_stream_position:' + where)
                res.stats.setdefault('_distinct', set()).add(
                    (hashlib.sha1(want).hexdigest(), prior, fl))
                if prior != 'absent' or 0 in want:
                    res.stats.setdefault('_nontrivial', set()).add(
                        (hashlib.sha1(want).hexdigest(), prior, fl))
                if stored != want:
                    finding('roundtrip-bytes:' + prior,
                            'after a dump of %d bytes (%s, %s) to %r over a key that was %s the dataset holds %s'
                            % (len(want), what, _zero_class(want), loc, prior,
                               'nothing' if stored is None else
                               '%d bytes, first difference at offset %s' % (len(stored), _first_diff(stored, want))), op,
                            {'expected_sha1': hashlib.sha1(want).hexdigest()})
                    # go on with what the file holds, so that one defect is reported once
                    if stored is not None:
                        expected[fl] = (stored, None, False)
                    else:
                        expected.pop(fl, None)
                else:
                    expected[fl] = (want, obj, loadable)
                check_frame(op, loc)
            else:
                res.real.append('raise %s' % type(exc).__name__)
                res.count('dump_raised:' + type(exc).__name__)
                if must_succeed:
                    finding('dump-raises:' + prior,
                            'a dump of %d bytes (%s) to %r (key %s, group exists) raised %s: %s'
                            % (len(want), what, loc, prior, type(exc).__name__, str(exc)[:200]), op,
                            {'traceback': ''.join(traceback.format_exception(type(exc), exc, exc.__traceback__))[-1500:]})
                    # the oracle continues with what the file now holds
                    if stored is not None:
                        expected[fl] = (stored, None, False)
                check_frame(op, loc if must_succeed else None)
        elif kind == 'load':
            path, name = op[1], op[2]
            style = op[3] if len(op) > 3 else 'kw'
            loc = loc_of(path, name)
            fl = (cur, loc)
            TAP.reset()
            TAP.active = True
            TAP.no_unpickle = fl in expected and not expected[fl][2]
            got, exc = None, None
            try:
                got = call_load_state(fp, path, name, style)
            except Exception as e:
                exc = e
            finally:
                TAP.active = False
                TAP.no_unpickle = False
            _gap(exc)
            read = TAP.loaded[0] if TAP.loaded else None
            res.proto.append('load %s %s' % (ppath(path), name))
            res.count('style:load:' + style)
            exp = expected.get(fl)
            # the model's `load` is load_state up to pickle.load: once pickle.load was reached the
            # h5py part succeeded, whatever pickle then makes of the bytes
            if read is not None:
                res.real.append('ok load %s' % hexs(read))
                res.count('load_bytes_seen')
            elif exc is None:
                res.real.append('ok load ?')        # bytes not observable (pickle used differently)
                res.count('load_bytes_unseen')
            else:
                res.real.append('raise %s' % type(exc).__name__)
                res.count('load_raised:' + type(exc).__name__)
            if exp is not None:
                b, obj, loadable = exp
                if read is not None and read != b:
                    finding('load-bytes', 'load_state handed %d bytes to pickle.load where %d bytes were dumped to %r; '
                            'first difference at offset %s' % (len(read), len(b), loc, _first_diff(read, b)), op)
                if loadable:
                    if exc is not None:
                        finding('load-raises', 'load_state of %r raised %s: %s' % (loc, type(exc).__name__, str(exc)[:200]), op)
                    elif not deep_eq(got, obj):
                        finding('load-object', 'load_state of %r returned an object different from the one dumped '
                                '(%s vs %s)' % (loc, _short(got), _short(obj)), op)
                    else:
                        res.count('objects_equal')
                elif exc is not None and read is None and not isinstance(exc, (pickle.UnpicklingError, EOFError)):
                    # raw (non-pickle) payloads may fail to unpickle, but only inside pickle
                    finding('load-raises', 'load_state of %r raised %s before reaching pickle: %s'
                            % (loc, type(exc).__name__, str(exc)[:200]), op)
            check_frame(op, None)
        elif kind == 'restore':
            path, sid = op[1], op[2]
            style = op[3] if len(op) > 3 else 'kw'
            loc = loc_of(path, DEFAULT_NAME)
            exp = expected.get((cur, loc))
            if twins[sid] is None:
                k_, f_, s_ = case['samplers'][sid]
                twins[sid] = build_sampler(k_, f_, s_)
            tw = twins[sid]
            seen = []
            orig_set = tw.set_state

            def rec(state, _seen=seen, _orig=orig_set):
                _seen.append(copy.deepcopy(state))
                return _orig(state)
            tw.set_state = rec
            exc = None
            TAP.reset()
            TAP.active = True
            TAP.no_unpickle = exp is not None and not exp[2]
            try:
                call_restore(tw, fp, path, style)
            except Exception as e:
                exc = e
            finally:
                TAP.active = False
                TAP.no_unpickle = False
                del tw.set_state
            _gap(exc)
            read = TAP.loaded[0] if TAP.loaded else None
            res.proto.append('load %s %s' % (ppath(path), DEFAULT_NAME))
            res.count('style:restore:' + style)
            if read is not None:
                res.real.append('ok load %s' % hexs(read))
                res.count('restore_bytes_seen')
            elif seen or exc is None:
                res.real.append('ok load ?')
            else:
                res.real.append('raise %s' % type(exc).__name__)
                res.count('restore_raised:' + type(exc).__name__)
            if exp is not None and read is not None and read != exp[0]:
                finding('load-bytes', 'set_state_from_checkpoint(path=%r) handed %d bytes to pickle.load where %d '
                        'bytes were dumped to %r' % (path, len(read), len(exp[0]), loc), op)
            if exp is not None and exp[2] and isinstance(exp[1], dict):
                if not seen:
                    finding('restore', 'set_state_from_checkpoint(path=%r) raised %s before set_state was called: %s'
                            % (path, type(exc).__name__ if exc else None, str(exc)[:200]), op)
                elif not deep_eq(seen[0], exp[1]):
                    finding('restore', 'set_state_from_checkpoint(path=%r) passed a state different from the one '
                            'checkpointed to %r' % (path, loc), op)
                else:
                    res.count('restores_equal')
                    if exc is not None:
                        res.count('set_state_raised_after_load:' + type(exc).__name__)
            else:
                res.count('restore_of_nonstate_skipped')
            check_frame(op, None)
        elif kind == 'ls':
            res.proto.append('ls')
            res.real.append(fmt_ls(fp))
        else:
            raise ValueError(op)
    return res


def _gap(exc):
    """The real code made an h5py call that the stand-in does not implement: that is not a
    failing input (the property may well hold), it is a correspondence that can no longer be
    run; it is reported as such by run()."""
    if isinstance(exc, h5stub.Unsupported):
        raise exc


def _group_exists(fp, path):
    if path is None:
        return True
    node = fp._walk([c for c in path.split('/') if c])
    return isinstance(node, h5stub.Group)


def _is_group(fp, loc):
    return isinstance(fp._walk(list(loc)), h5stub.Group)


def _first_diff(a, b):
    for i, (x, y) in enumerate(zip(a, b)):
        if x != y:
            return i
    return min(len(a), len(b))


def _short(o):
    r = repr(o)
    return r if len(r) < 80 else r[:77] + '...'


# --------------------------------------------------------------------------
# the model side
# --------------------------------------------------------------------------

def run_model(lines, timeout=3000):
    env = dict(os.environ)
    p = subprocess.run(['lake', 'env', 'lean', '--run', 'DriverCheckpoint.lean'], cwd=common.LEAN_DIR,
                       input='\n'.join(lines) + '\n', stdout=subprocess.PIPE, stderr=subprocess.PIPE,
                       text=True, timeout=timeout, env=env)
    if p.returncode != 0:
        raise RuntimeError('Lean checkpoint driver failed: ' + (p.stderr or p.stdout)[-1500:])
    return p.stdout.splitlines()


def agree(model_line, real_line):
    if model_line == real_line:
        return True
    if model_line.startswith('raise ') and real_line.startswith('raise '):
        return real_line[6:] in ERR_CLASSES.get(model_line[6:], ())
    if real_line == 'ok load ?' and model_line.startswith('ok load '):
        return True          # the real code's bytes were not observable; the `ls` lines still compare contents
    return False


def split_cases(lines):
    out, cur = [], None
    for ln in lines:
        if ln.startswith('case '):
            cur = [ln]
            out.append(cur)
        elif cur is not None:
            cur.append(ln)
    return out


def correspond(cases, results):
    """Feed all protocol lines to the Lean driver; return list of divergences."""
    lines = []
    for r in results:
        lines += r.proto
    model = split_cases(run_model(lines))
    divs = []
    for i, (c, r) in enumerate(zip(cases, results)):
        m = model[i] if i < len(model) else []
        n = max(len(m), len(r.real))
        for j in range(n):
            ml = m[j] if j < len(m) else '<model output ended>'
            rl = r.real[j] if j < len(r.real) else '<real output ended>'
            if not agree(ml, rl):
                divs.append({'case': c, 'index': j, 'model_line': ml[:400], 'real_line': rl[:400],
                             'protocol_line': (r.proto[j] if j < len(r.proto) else '')[:200]})
                break
    return divs


# --------------------------------------------------------------------------
# check entry points
# --------------------------------------------------------------------------

def sampler_specs(rng, n, seed0):
    fams = sorted(F.FAMILIES)
    out = []
    for i in range(n):
        out.append((rng.choice(['mh', 'pt']), fams[(seed0 + i) % len(fams)], seed0 + i))
    return out


def usable_specs(specs, res):
    """Drop sampler configurations that cannot be built / started / read on this tree (other
    properties' defects); measured, not assumed."""
    ok = []
    for sp in specs:
        try:
            s = build_sampler(*sp)
            _ORIG['dumps'](s.state)
            ok.append(sp)
        except Exception as e:
            res.count('sampler_unusable:%s:%s' % (sp[1], type(e).__name__))
    return ok


def merge(stats, into):
    for k, v in stats.items():
        if isinstance(v, set):
            into.setdefault(k, set()).update(v)
        else:
            into[k] = into.get(k, 0) + v


def search(chk, level, agg):
    """The failing-input search on the real code (oracle only, no Lean)."""
    rng = random.Random((chk.seed << 10) ^ 0x5EA2C4 ^ (7 if level == 'full' else 0))
    ncases = 60 if level == 'light' else 600
    sizes = SIZES + (BIG_SIZES if level == 'full' else BIG_SIZES[:2])
    findings, errs = [], []
    probe = Result()
    all_specs = []
    for kind in ('mh', 'pt'):
        for i, fam in enumerate(sorted(F.FAMILIES)):
            all_specs.append((kind, fam, 100 + i + 1000 * chk.seed))
    all_specs = usable_specs(all_specs, probe)
    merge(probe.stats, agg)
    t0 = time.time()
    for i in range(ncases):
        if level == 'light':
            specs = [all_specs[(i * 2 + j) % len(all_specs)] for j in range(2)] if all_specs else []
        else:
            specs = [all_specs[(i * 3 + j) % len(all_specs)] for j in range(3)] if all_specs else []
        sz = list(sizes)
        if level == 'full' and i % 40 == 0:
            sz = sz + HUGE_SIZES
        c = gen_case(rng, 'search-%d' % i, sz, rng.randint(6, 25 if level == 'light' else 50), specs,
                     slashed=(i % 3 == 0), errors=True)
        try:
            r = execute(c)
        except HarnessIO:
            raise
        except Exception as e:
            errs.append({'case': c, 'exception': repr(e), 'traceback': traceback.format_exc()[-1500:]})
            if len(errs) > 5:
                break
            continue
        merge(r.stats, agg)
        agg['search_cases'] = agg.get('search_cases', 0) + 1
        for f in r.findings:
            if not any(k == f[0] for k, _, _ in findings):
                findings.append(f)
        if time.time() - t0 > (25 if level == 'light' else 420):
            break
    # every entry point, every kind of stream, two files, all catalogue objects, big payloads
    t0 = time.time()
    all_labels = _labels_by_size(None)
    for i in range(25 if level == 'light' else 300):
        specs = [all_specs[(i * 2 + j) % len(all_specs)] for j in range(2)] if all_specs and i % 2 == 0 else []
        sz = sizes + (HUGE_SIZES[:1] if level == 'full' and i % 50 == 0 else [])
        c = gen_entry_case(rng, 'search-entry-%d' % i, sz, rng.randint(6, 16 if level == 'light' else 40), specs,
                           labels=all_labels, slashed=(i % 3 == 0))
        try:
            r = execute(c)
        except HarnessIO:
            raise
        except Exception as e:
            errs.append({'case': c, 'exception': repr(e), 'traceback': traceback.format_exc()[-1500:]})
            if len(errs) > 5:
                break
            continue
        merge(r.stats, agg)
        agg['search_cases'] = agg.get('search_cases', 0) + 1
        agg['search_entry_cases'] = agg.get('search_entry_cases', 0) + 1
        for f in r.findings:
            if not any(k == f[0] for k, _, _ in findings):
                findings.append(f)
        if time.time() - t0 > (10 if level == 'light' else 240):
            break
    return findings, errs


def minimise(finding):
    """Delta-debug the op list of a failing case (the finding's key must persist)."""
    key, text, payload = finding
    case = payload['case']
    ops = list(case['ops'])
    budget = 150

    def still(trial_ops):
        try:
            r = execute(dict(case, ops=trial_ops))
        except Exception:
            return None
        hit = [f for f in r.findings if f[0] == key]
        return hit[0] if hit else None

    # nothing after the failing op is needed; then drop chunks of halving size (long generated cases)
    if payload.get('op') in ops:
        cut = ops[:ops.index(payload['op']) + 1]
        hit = still(cut)
        budget -= 1
        if hit:
            ops, text, payload = cut, hit[1], hit[2]
    size = len(ops) // 2
    while size >= 2 and budget > 0:
        i = 0
        while i < len(ops) and budget > 0:
            trial = ops[:i] + ops[i + size:]
            budget -= 1
            hit = still(trial)
            if hit:
                ops, text, payload = trial, hit[1], hit[2]
            else:
                i += size
        size //= 2
    budget = max(budget, 60)
    changed = True
    while changed and budget > 0:
        changed = False
        for i in range(len(ops) - 1, -1, -1):
            budget -= 1
            if budget <= 0:
                break
            trial = dict(case, ops=ops[:i] + ops[i + 1:])
            try:
                r = execute(trial)
            except Exception:
                continue
            hit = [f for f in r.findings if f[0] == key]
            if hit:
                ops = trial['ops']
                text, payload = hit[0][1], hit[0][2]
                changed = True
    payload = dict(payload, case=dict(case, ops=ops))
    return key, text, payload


def run(chk, tier, proof_ok):
    t0 = time.time()
    quick = tier == 'quick'
    rng = random.Random((chk.seed << 8) ^ 0xC20)
    agg = {}
    # ---- correspondence
    cases = list(fixed_cases()) + exhaustive_cases(3 if quick else 4)
    # every public entry point: dump_pickle_to_hdf with streams in every position, all call styles, two files
    cases += [stream_model_case()] + exhaustive_position_cases()
    for v in range(1 if quick else 8):
        cases += stream_matrix_cases(chk.seed, v)
    probe = Result()
    nspec = 12 if quick else 48
    specs = usable_specs(sampler_specs(rng, nspec, 1 + chk.seed * 97), probe)
    merge(probe.stats, agg)
    ngen = 120 if quick else 1200
    sizes = SIZES if quick else SIZES + BIG_SIZES[:3]
    for i in range(ngen):
        sp = [specs[(i + j) % len(specs)] for j in range(2)] if specs and i % 2 == 0 else []
        big = (not quick) and i % 25 == 0
        cases.append(gen_case(rng, 'ckpt-%d' % i, sizes if big else SIZES[:30], rng.randint(4, 14 if quick else 24), sp))
    if specs:
        cases.append(sampler_styles_case([specs[0], specs[len(specs) // 2]]))
    rng2 = random.Random((chk.seed << 9) ^ 0xE27)
    for i in range(50 if quick else 500):
        sp = [specs[(i + j) % len(specs)] for j in range(2)] if specs and i % 2 == 0 else []
        big = (not quick) and i % 25 == 0
        cases.append(gen_entry_case(rng2, 'entry-%d' % i, sizes if big else SIZES[:24],
                                    rng2.randint(6, 16 if quick else 30), sp))
    results, errs = [], []
    kept = []
    for c in cases:
        try:
            results.append(execute(c))
            kept.append(c)
        except HarnessIO:
            raise
        except Exception as e:          # harness trouble on a case: report as a broken correspondence
            errs.append({'case': c, 'exception': repr(e), 'traceback': traceback.format_exc()[-1500:]})
    cases = kept
    findings = []
    for r in results:
        merge(r.stats, agg)
        for f in r.findings:
            if not any(k == f[0] for k, _, _ in findings):
                findings.append(f)
    divs = []
    try:
        divs = correspond(cases, results)
    except RuntimeError as e:
        errs.append({'case': None, 'exception': str(e), 'traceback': ''})
    nproto = sum(len(r.proto) for r in results)
    # ---- search
    full = (not quick) or (not proof_ok) or bool(divs) or bool(errs)
    sfind, serrs = search(chk, 'full' if full else 'light', agg)
    for f in sfind:
        if not any(k == f[0] for k, _, _ in findings):
            findings.append(f)
    if serrs and not full:                      # the search itself could not run: run it in full
        sfind, serrs2 = search(chk, 'full', agg)
        full = True
        for f in sfind:
            if not any(k == f[0] for k, _, _ in findings):
                findings.append(f)
    errs += serrs
    # ---- coverage
    distinct = agg.pop('_distinct', set())
    nontrivial = agg.pop('_nontrivial', set())
    combos = agg.pop('_stream_combos', set())
    cov = chk.coverage
    evals = sum(v for k, v in agg.items() if k in ('dump_ok', 'load_bytes_seen', 'load_bytes_unseen',
                                                   'restores_equal') or k.startswith(('dump_raised', 'load_raised')))
    cov['evaluations'] = evals
    cov['distinct_nontrivial'] = len(nontrivial)
    cov['rule'] = ('evaluations = dump/load/restore calls executed on the real epsie code against the stand-in, through '
                   'every public entry point (dump_pickle_to_hdf with streams of every kind and position, dump_state, '
                   'checkpoint, load_state, set_state_from_checkpoint; see entry_points); '
                   'distinct = distinct (sha1 of dumped bytes, state of the key before: absent/shorter/longer/equal, '
                   'file and resolved key) among successful dumps (%d); non-trivial = the dump overwrote an existing '
                   'dataset or its bytes contain a zero byte' % len(distinct))
    cov['correspondence'] = {'checkpoint': {
        'cases': len(cases), 'protocol_lines': nproto, 'divergences': len(divs), 'harness_errors': len(errs),
        'sampler_configurations': len(specs)}}
    cov['branches'] = {k: v for k, v in sorted(agg.items())}
    # every public entry point x the states a caller can have its arguments in (measured)
    def _hist(prefix):
        return {k[len(prefix):]: v for k, v in sorted(agg.items()) if k.startswith(prefix)}
    wheres = ('at 0', 'inside', 'at the end', 'beyond the end')
    priors = ('absent', 'shorter', 'longer', 'equal')
    cov['entry_points'] = {
        'epsie.dump_pickle_to_hdf': {
            'calls_with_BytesIO_at_0': agg.get('style:raw:kw', 0),
            'calls_with_other_streams': agg.get('kind:stream', 0),
            'call_styles': _hist('style:stream:'),
            'stream_containers': _hist('stream_container:'),
            'stream_filled_by': _hist('stream_fill:'),
            'stream_position_at_the_call': _hist('stream_position:'),
            'how_positioned': _hist('stream_poskind:'),
            'position_x_prior_state_of_the_key': _hist('stream_prior:'),
            'position_x_prior_cells_hit': '%d/16' % sum(1 for w in wheres for p in priors
                                                      if agg.get('stream_prior:%s:%s' % (w, p), 0)),
            'distinct_container_fill_position_prior': len(combos),
            'container_x_position_cells_hit': '%d of %d' % (
                len({(c, w) for c, _, w, _ in combos}), len(STREAM_CONTAINERS) * 4 - 1),
            'stream_left_at': _hist('stream_left_at:'),
            'model_Stream_read_write_lines_vs_io': agg.get('stream_model_lines', 0)},
        'epsie.dump_state (also as epsie.samplers.dump_state)': {
            'calls': agg.get('kind:state', 0), 'call_styles': _hist('style:state:'),
            'position_of_its_stream_at_dump_pickle_to_hdf': _hist('dump_state_stream_position:')},
        'sampler.checkpoint': {'calls': agg.get('kind:ckpt', 0), 'call_styles': _hist('style:ckpt:')},
        'epsie.load_state (also as epsie.samplers.load_state)': {'call_styles': _hist('style:load:')},
        'sampler.set_state_from_checkpoint': {'call_styles': _hist('style:restore:')},
        'two_files_open': {'dumps': agg.get('dump_with_several_files_open', 0),
                           'frame_checks_on_the_other_file': agg.get('frame_checks_other_files', 0)}}
    cov['search'] = {'level': 'full' if full else 'light', 'cases': agg.get('search_cases', 0),
                     'oracle': 'stored bytes of every key == bytes of the last dump to it (pickle.dumps(state, protocol) '
                               'computed by the harness); bytes handed to pickle.load == those bytes; loaded object '
                               'deep-equal (dtype/shape/bytes for arrays, NaN-aware); state passed to set_state by '
                               'set_state_from_checkpoint deep-equal to the checkpointed sampler.state; all other keys '
                               'of all open files unchanged after every call, no dataset appears that was not dumped, no '
                               'h5py call on a file other than the one passed; for dump_pickle_to_hdf the dumped bytes '
                               'are ALL bytes the stream holds, wherever it is positioned'}
    if _CAT_DROPPED:
        chk.notes.append('catalogue objects dropped because pickle alone does not round-trip them: %s' % _CAT_DROPPED)
    chk.assumptions.append('harness/h5stub.py behaves like h5py/HDF5 for the calls used by epsie (group lookup, membership, '
                           "create_dataset(shape, maxshape=(None,), dtype='S1'), resize, dset[:] = data, dset[()]); "
                           'h5py is not installed in this sandbox')
    chk.assumptions.append('pickle.load(BytesIO(pickle.dumps(v, p))) returns an object equal to v (CPython pickle); '
                           'checked by the search for every payload used')
    for r in results[:1] + results[4:6]:
        chk.samples.append({'protocol_head': [p[:160] for p in r.proto[:8]], 'real_head': [p[:160] for p in r.real[:8]]})
    # ---- reporting (rule 8)
    for f in findings:
        try:
            f = minimise(f)
        except Exception:
            pass
        chk.violation(f[0], f[1], f[2], True)
    broken = []
    if not proof_ok:
        broken += ['lean: ' + str(o[0]) + ' ' + str(o[2]) for o in chk.broken_obligations()]
    payload_case = None
    if divs:
        d = divs[0]
        broken.append('correspondence suite checkpoint: %d diverging case(s); first at %r: model %r vs real %r'
                      % (len(divs), d['protocol_line'], d['model_line'][:200], d['real_line'][:200]))
        payload_case = d['case']
    if errs:
        e = errs[0]
        broken.append('correspondence suite checkpoint: cannot be run on this code (%d case(s)), first: %s'
                      % (len(errs), e['exception'][:300]))
        payload_case = payload_case or e['case']
    if broken and not findings and not chk.known_hit:
        chk.violation('unproved', '; '.join(broken)[:1500],
                      {'no_longer_checks': broken, 'case': payload_case,
                       'how_to_replay': './check C20 --replay <this file>'}, False)
    elif broken and not findings:
        chk.notes.append('correspondence/proof breakage attributed to known findings: ' + '; '.join(broken)[:500])
    cov['wall_python_s'] = round(time.time() - t0, 2)


def replay(path):
    d = json.load(open(path))
    case = d.get('case')
    if not case:
        print('replay file carries no case; see:', d.get('no_longer_checks') or d.get('how_to_replay'))
        return 0
    r = execute(case)
    bad = 0
    for key, text, _ in r.findings:
        print('FAILING INPUT [%s] %s' % (key, text))
        bad = 1
    try:
        divs = correspond([case], [r])
        for dv in divs:
            print('DIVERGENCE at %r\n  model: %s\n  real:  %s' % (dv['protocol_line'], dv['model_line'], dv['real_line']))
            bad = 1
    except Exception as e:
        print('model side not run: %r' % (e,))
    if not bad:
        print('real code meets the oracle and agrees with the model on this case now')
    return bad
