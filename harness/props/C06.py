"""C06 — splitting a run or clearing memory never changes the trajectory.

proof:   EpsieProps/C06.lean (C06_partition_and_clear_transparent — master theorem over all
         operation sequences —, C06_counters_and_current, C06_retained_history_is_suffix, C06_run_split)
tie:     plumbing correspondence with run partitions (incl. 0 and 1) and clears
search:  identically seeded real samplers run with different partitions / clear placements
         against one uninterrupted run (bit-exact concatenated histories, swap history, counters)
known findings (root cause F6, see C09): after a clear at an iteration that is not a multiple of the
         swap interval the retained swap history misses a row, and the dynamical annealer then reads a
         stale row or indexes an empty array.
"""
import itertools
import random

import plumbing
import realsearch
from props import _plumb


def run(chk, tier, proof_ok):
    n = 40 if tier == 'quick' else 400
    divs, errs = _plumb.correspondence(chk, n, dict(allow_saveload=False, max_ops=10))
    full = tier == 'thorough' or not proof_ok or bool(divs) or bool(errs)
    rng = random.Random(chk.seed * 19 + 4)
    findings = []
    nruns = 0

    def take(fs):
        for key, text, payload in fs:
            if not any(k == key for k, _, _ in findings):
                findings.append((key, text, payload))
    # exhaustive small scope: all compositions of n <= N with all clear subsets
    N = 6 if full else 4
    ncfg = 12 if full else 4
    for _ in range(ncfg):
        c = plumbing.gen_case(rng, 'part', allow_saveload=False, allow_dynamic=True)
        for comp in realsearch.compositions(N):
            for r in range(len(comp) + 1):
                for cl in itertools.combinations(range(len(comp)), r):
                    if not full and rng.random() < 0.6:
                        continue
                    nruns += 1
                    take(realsearch.partition_findings(c, N, comp, set(cl)))
    # random larger partitions with zeros
    for j in range(120 if full else 25):
        c = plumbing.gen_case(rng, 'part', allow_saveload=False, allow_dynamic=True) if j % 4 else \
            plumbing.gen_td_case(rng, 'part-td', allow_saveload=False)
        total = rng.randint(5, 40 if full else 16)
        parts, left = [], total
        while left > 0:
            m = rng.choice([0, 1, 1, 2, 3, 5, 8])
            m = min(m, left)
            parts.append(m)
            left -= m
        cl = {k for k in range(len(parts)) if rng.random() < 0.4}
        nruns += 1
        take(realsearch.partition_findings(c, total, parts, cl))
    df, dst = realsearch.dtype_findings(chk.seed, 12 if full else 4)
    take(df)
    chk.coverage['dtype_preserved_by_clear'] = dst
    chk.coverage['search'] = {'partitioned_runs': nruns, 'exhaustive_scope': 'all compositions of %d with all clear subsets '
                              '(sampled 40%% in the quick tier) for %d configurations' % (N, ncfg),
                              'oracle': 'bit-exact equality with one uninterrupted run of the same seed'}
    chk.coverage['evaluations'] = chk.coverage.get('evaluations', 0) + nruns
    _plumb.report(chk, proof_ok, divs, errs, findings)


def replay(path):
    return _plumb.replay_case(path)
