"""C08 — recorded history is faithful.

proof:   EpsieProps/C08.lean (C08_len, C08_faithful, C08_accept_records_proposed,
         C08_reject_repeats_previous, C08_ar_unit, C08_access_paths_agree)
tie:     plumbing correspondence (dumps through every access path, chain[i] for all i)
search:  re-evaluation of the pure harness model at every recorded position,
         pre-sweep accept/reject capture, all index paths, on the real code
"""
import realsearch
from props import _plumb

NO_SUCC = dict()


def run(chk, tier, proof_ok):
    n = 40 if tier == 'quick' else 500
    divs, errs = _plumb.correspondence(chk, n, dict(allow_saveload=True, max_ops=8))
    findings = []
    full = tier == 'thorough' or not proof_ok or divs or errs
    ns = 60 if not full else 600
    cases = realsearch.gen_cases(chk.seed * 7 + 1, ns, allow_saveload=True)
    nrec = 0
    for c in cases:
        try:
            f = realsearch.faithful_findings(c)
        except TypeError as e:
            if '__round__' in repr(e):      # numpy 2 vs round() on 0-d arrays; tracked under C02/F8
                continue
            raise
        nrec += 1
        for key, text, payload in f:
            if not any(k == key for k, _, _ in findings):
                findings.append((key, text, payload))
    chk.coverage['search'] = {'cases': nrec, 'oracle': 'pure model re-evaluated at every recorded position; '
                              'accept/reject records against a pre-sweep capture; chain[i] for every i in [-len,len); '
                              'current_*; sampler stacks; ParallelTemperedChain[i]'}
    chk.coverage['evaluations'] = chk.coverage.get('evaluations', 0) + nrec
    bf, bst = realsearch.blob_number_findings(chk.seed)
    findings = findings + bf
    chk.coverage.setdefault('search', {})['blob_numbers'] = bst
    _plumb.report(chk, proof_ok, divs, errs, findings)


def replay(path):
    return _plumb.replay_case(path)
