"""C02 — a proposal's reported density is the law of its jumps; symmetric is symmetric;
the reported density depends on the two points and the current settings only.

proof:   EpsieProps/C02.lean (33 theorems C02_*: rejection loops, cell discretisation,
         telescoping normalisers, truncation points = acceptance set, wrapped difference,
         dot product / rotation, chord parametrisation, birth parametrisations,
         cache coherence for per-parameter dicts + counterexample for one shared dict,
         `symmetric` flags of the regenerated table)
tie:     harness/density.py — real logpdf / pdf / jump / birth of all 24 proposal and 3 birth
         families against EpsieModel/Density.lean through DriverDensity.lean
         obligation measured on live objects: the per-parameter CDF caches are distinct
         dict objects (hypothesis of C02_cache_coherent)
search:  harness/quadrature.py — push-forward quadrature of the real jump()/birth against the
         reported pdf, symmetric claim, history independence (real code only, no model);
         settings histories: the same comparison on real objects after every path that changes the
         settings a jump uses (Chain.reset_proposals once / twice / after re-adaptation, set_state
         from another instance, the public setters, set_jump_interval, deepcopy / pickle), and the
         metamorphic form: same current settings reached by two histories => same logpdf / pdf,
         same jump from the same scripted draws; interleaved queries (same point pairs before and
         after every state-changing step of one live object)
"""
import json
import os
import time

import common
import density
import quadrature as Q


SHARED_KEY = 'cdfcache-one-dict-shared-by-all-parameters'


def _key(key, payload):
    """Stable id of the failing input / call site."""
    if payload.get('kind', '').startswith('history') and payload.get('caches_shared'):
        return SHARED_KEY
    return key


def run(chk, tier, proof_ok):
    t0 = time.time()
    workers = min(16, os.cpu_count() or 1)
    # the search on the real code runs in worker processes while the correspondence runs here
    handle = Q.start_units(Q.plan_units(chk.seed, tier), workers=max(1, workers - 1))
    with Q.scripted():
        divs, cov, samples, shared = density.run_suite(chk.seed, tier)
    t1 = time.time()
    distinct = not any(shared)
    chk.obligations.append((
        'C02_cache_coherent applicable: `_cdfcache[i]` are distinct dict objects on every live discrete '
        'instance with >= 2 parameters (measured: %d instances, %d with one shared dict)' % (len(shared), sum(shared)),
        distinct, []))
    chk.obligations.append(('correspondence suite `density` (model = code)', not divs, []))
    broken = (not proof_ok) or bool(divs) or not distinct
    findings, agg = Q.finish_units(handle)

    def new_inputs(fs):
        """failing inputs that are not recorded known findings"""
        return [f for f in fs if _key(f[0], f[2]) not in chk.known]

    def unexplained():
        """broken obligations that no failing input found so far accounts for: a shared cache dict
        explains the `distinct caches` obligation, nothing else is explained by a known finding"""
        keys = {_key(f[0], f[2]) for f in findings}
        out = []
        for o in chk.broken_obligations():
            if o[0].startswith('C02_cache_coherent applicable') and SHARED_KEY in keys:
                continue
            out.append(o)
        return out

    if unexplained() and not new_inputs(findings) and tier == 'quick':
        # a proof obligation or the correspondence is broken and the light search found no (new)
        # failing input: run the full search before reporting `no-failing-input-found`
        # (bounded: two more light passes with other seeds, so that the quick tier stays quick; the
        # thorough tier runs the full grids)
        units = Q.plan_units(chk.seed + 101, 'quick') + Q.plan_units(chk.seed + 202, 'quick')
        more, agg2 = Q.run_units(units, workers=workers)
        findings = findings + more
        for k, v in agg2.items():
            if isinstance(v, list):
                agg.setdefault(k, []).extend(v)
            else:
                agg[k] = agg.get(k, 0) + v
        chk.notes.append('full search run because an obligation / the correspondence was broken')
    t2 = time.time()

    # ---- coverage, measured
    fams = sorted(k[len('family:'):] for k in agg if k.startswith('family:'))
    search = {k: v for k, v in agg.items() if not k.startswith('family:') and not k.startswith('hist:')
              and k not in ('notes', 'trouble')}
    search['families'] = len(fams)
    search['units_per_family'] = {f: agg['family:' + f] for f in fams}
    # settings histories, measured: history kind -> family -> number of real objects brought into that state
    hist = {}
    for k, v in agg.items():
        if k.startswith('hist:'):
            _, kind_, fam_ = k.split(':', 2)
            hist.setdefault(kind_, {})[fam_] = v
    search['settings_histories'] = {k: dict(sorted(v.items())) for k, v in sorted(hist.items())}
    search['settings_histories_per_kind'] = {k: sum(v.values()) for k, v in sorted(hist.items())}
    search['settings_histories_families'] = len({f for v in hist.values() for f in v})
    search['oracle'] = ('push-forward of the real jump()/birth under a deterministic quantile grid (Hammersley net '
                        'for the sphere) against sums / Simpson integrals of the real pdf with counting-error bounds '
                        '(see quadrature.py docstring); logpdf(x\'|x) = logpdf(x|x\') for families declaring '
                        'symmetric; bit-identical logpdf under every order of <= %d earlier queries; '
                        'identically seeded adaptive chains with / without extra queries; the solid-angle families in all '
                        'four angle conventions (radec x degs): points in the convention\'s coordinates, outputs inside '
                        'its ranges, cap and cap x sector masses against the reported pdf integrated in the geometric '
                        'frame (solid-angle element exact, no fitted Jacobian); settings histories: the same '
                        'push-forward comparison on real objects after reset_proposals (once, twice, after re-adaptation, '
                        'plus one step), set_state from another instance (into a fresh and into an adapted one), '
                        'assignment to std / cov / boundaries / kappa / successive / eigvals+eigvects, set_jump_interval '
                        '(walk through the whole schedule: jump() draws <=> logpdf != 0), deepcopy and pickle; interleaved '
                        'queries (one live object on a real chain answers the same point pairs before and after every '
                        'adaptation step / reset / setter / set_state, each answer against a never-queried object with '
                        'the same current settings); two '
                        'objects with the same settings by construction but different histories report logpdf / pdf '
                        'equal to 1e-12 and jump alike from the same scripted draws (every mismatch there is a failing '
                        'input, also for families declaring symmetric)' % (3 if tier == 'quick' else 3))
    chk.coverage['correspondence'] = cov
    chk.coverage['search'] = search
    chk.coverage['evaluations'] = int(cov['queries'] + cov['jumps'] + agg.get('cells', 0)
                                      + agg.get('history_queries', 0) + agg.get('symmetric_pairs', 0)
                                      + agg.get('reverse_checks', 0) + agg.get('twin_queries', 0)
                                      + agg.get('twin_jumps', 0) + agg.get('jump_interval_states', 0)
                                      + agg.get('interleaved_queries', 0))
    chk.coverage['distinct_nontrivial'] = int(cov['instances'] + agg.get('units', 0))
    chk.coverage['rule'] = ('one per real proposal/birth instance with its own settings (family, 1-3 parameters, '
                            'unequal scales/bounds, adapted state) that was queried at >= 2 distinct point pairs '
                            '(correspondence) or pushed a full quantile grid through jump() (search); a settings-history '
                            'unit counts once: one real object taken through one history (family x history kind, settings '
                            'and from-points from the seed) and then pushed through the same grid')
    chk.coverage['branches'] = cov['branches']
    chk.coverage['wall'] = {'correspondence_s': round(t1 - t0, 1), 'search_after_correspondence_s': round(t2 - t1, 1),
                            'note': 'the search runs in worker processes concurrently with the correspondence'}
    chk.samples.extend(samples[:4])
    for line in cov.get('driver_log_head', [])[:3]:
        chk.samples.append({'driver_request': line[0], 'driver_answer': line[1]})
    for n in sorted(set(agg.get('notes', [])))[:12]:
        chk.notes.append(n)
    chk.assumptions.extend([
        'scipy.stats norm/truncnorm/uniform/lognorm/multivariate_normal and numpy sin/cos/log/exp compute what their '
        'documentation says (the model fixes the arguments, scipy the values)',
        'numpy Generator.normal/uniform/random/lognormal/multivariate_normal have the documented laws and successive '
        'calls are independent (the search replaces them by quantile grids)',
        'change of variables for the monotone maps of the continuous families and rotation invariance of solid angle '
        '(definitions in EpsieProofs/DensityLemmas.lean: termPdf, tnPdf, tnCdf)',
        'solid-angle densities are taken with respect to solid angle (the repo\'s convention)',
        'a reported density that is a constant multiple of the jump law counts as correct (the property is about '
        'the Hastings factor); such constants are listed in notes'])

    # ---- report
    seen = {}
    findings.sort(key=lambda f: (f[2].get('family') != 'discrete', len(str(f[2].get('family'))), len(f[1])))
    for key, text, payload in findings:
        k = _key(key, payload)
        if k not in seen:
            seen[k] = (text, payload, 1)
        else:
            seen[k] = (seen[k][0], seen[k][1], seen[k][2] + 1)
    for k, (text, payload, cnt) in sorted(seen.items()):
        payload = dict(payload)
        payload['occurrences_this_run'] = cnt
        payload['how_to_replay'] = './check C02 --replay <this file>   (re-runs the stored unit on the real code)'
        chk.violation(k, text, payload, True)
    trouble = agg.get('machinery_trouble', 0)
    if trouble:
        chk.notes.append('search machinery could not drive %d units: %s' % (trouble, '; '.join(agg.get('trouble', [])[:3])[:600]))
    left = unexplained()
    if (left or trouble) and not chk.violations:
        names = [o[0] for o in left]
        if trouble and not names:
            names = ['failing-input search: the generator stand-in could not be routed for %d units' % trouble]
        first = divs[0] if divs else None
        text = 'no longer checks: ' + '; '.join(n[:160] for n in names)
        if first:
            text += ' | first divergence: %s %s: model %s, real %s' % (first['family'], first['what'],
                                                                      first['model'][:120], first['real'][:120])
        chk.violation('unproved', text, {'no_longer_checks': names, 'divergences': divs[:10],
                                         'how_to_replay': './check C02 --tier thorough'}, False)
    elif divs:
        chk.notes.append('correspondence divergences (%d), first: %s' % (len(divs), json.dumps(divs[0])[:400]))


def replay(path):
    d = json.load(open(path))
    unit = d.get('unit')
    if not unit:
        print('replay file names no failing input:', d.get('what'))
        print('re-run:', d.get('how_to_replay'))
        return 0
    import numpy
    numpy.seterr(all='ignore')
    findings, stats = Q.run_unit(unit)
    hit = 0
    for key, text, payload in findings:
        k = _key(key, payload)
        print('%s  %s' % (k, text))
        if k == d.get('key'):
            hit = 1
    if not findings:
        print('the stored input no longer fails on the real code')
    return hit
