"""C14 -- adaptive proposals stay usable: finite scales, no crash, no stall.

proof:   EpsieProps/C14.lean (partial: exact-arithmetic invariants and bounds; IEEE overflow only as the
         predicate `Representable`): C14_retry_bound(_monotone/_scale), C14_accept_mass_le, C14_ss_bounded,
         C14_ss_never_raises, C14_veitch_bounded, C14_veitch_pos (every width positive under every history:
         the guard keeps the old width when the new one would be <= 0, repo fix 36b7cfa), C14_veitch_never_raises,
         C14_veitch_guard_per_parameter, C14_veitch_guard_mixed, C14_veitch_default_std_pos,
         C14_veitch_proportional, C14_veitch_zero_width_excluded, C14_at_loglambda_bounded,
         C14_at_shape_admissible, C14_at_scale_admissible, C14_eig_cov_admissible, C14_vmf_kappa_pos,
         C14_vmf_no_raise, C14_vmf_logkappa_bounded, C14_vmf_logkappa_representable, C14_vmf_exact_never_raises,
         and C14_at_stall_exact / C14_at_stall_witness / C14_vmf_norm_underflow_witness
         (a quarter of the search runs and a third of the correspondence cases reset the adaptation with
         Chain.reset_proposals() once or twice on the way)
tie:     suite `adapt` (values of every scale attribute, raises included; every class also with its optional
         constructor arguments at non-default values, the model's constants taken from the case's
         configuration) + draws per jump counted by a counting wrapper around the generator
search:  real runs of every adaptive class and variant on flat / needle-like / smooth targets with bounded
         prior support, beta in {0, 1e-3, 1}, adaptation durations 30 ... 3e4, starts in the interior, on
         the faces and on the corners: scale attributes finite / positive / PSD, exceptions, draws per
         jump (a jump needing > 1e5 draws, or > 1e3 per jump over a 100-step block, is a stall; the run is
         cut off there, never waited for).  The same with the OPTIONAL constructor arguments at non-default
         values (variants `o:*`, n >= 2 parameters with unequal boxes): initial_std per parameter and not
         proportional to the prior widths, target_rate, adaptation_decay (Veitch); cov, max_cov, target_rate
         (Sivia-Skilling); target_rate, diagonal, componentwise (Andrieu-Thoms); cov0, target_rate,
         shuffle_rate (eigenvector); target_rate, radec, degs (solid angle) -- on flat targets, needles of
         relative width 1e-4 (long runs of rejections) and 1e-9 (everything rejected); the widths are tested
         after every single update (positive; Sivia-Skilling: never above max(initial scale, configured cap),
         C14_ss_bounded, the cap being the explicit max_cov or the documented default).  Directed: target_rate
         1/2 with the default initial widths (the first rejected update proposes a width of exactly 0: a
         regression of 36b7cfa is reported as zero-width:<family>); ridge targets (one parameter 5e6 times
         narrower than the others) for the full-covariance Andrieu-Thoms and the eigenvector proposals over a
         long window (the learnt covariance becomes singular to any tolerance)
"""
import json

import numpy

import adapt
from epsie.proposals.solid_angle import IsotropicSolidAngle


def representable_probe():
    """What the theorems assume of IEEE arithmetic, probed on the real numpy:
    `exp(lk)` is positive and finite on `Representable lk := -745 < lk < 709`; for every finite
    kappa > 0 the normalisation evaluates to a number >= 0 (never NaN, never negative) and the
    log-normalisation the density uses is finite."""
    bad = []
    for lk in numpy.concatenate([numpy.linspace(-744.9, 708.9, 600), [-744.99, 708.99]]):
        v = float(numpy.exp(lk))
        if not (v > 0 and numpy.isfinite(v)):
            bad.append('exp(%r) = %r' % (float(lk), v))
    ks = numpy.concatenate([10.0 ** numpy.arange(-320, 309, 4.0), numpy.linspace(1, 720, 500),
                            [5e-324, 707.94, 707.95, 1e308]])
    lognorm = getattr(IsotropicSolidAngle, '_lognormalisation', None)
    first_zero = None
    for k in ks:
        if not k > 0:
            continue
        nm = IsotropicSolidAngle._normalisation(k)
        if not nm >= 0:
            bad.append('normalisation(%r) = %r' % (float(k), float(nm)))
        if lognorm is not None and not numpy.isfinite(lognorm(k)):
            bad.append('lognormalisation(%r) = %r' % (float(k), float(lognorm(k))))
    for k in numpy.arange(707.0, 712.0, 0.01):
        if IsotropicSolidAngle._normalisation(k) == 0:
            first_zero = float(k)
            break
    return bad, first_zero


def run(chk, tier, proof_ok):
    search = adapt.usability_search(chk.seed, tier, full=not proof_ok)      # runs while the correspondence does
    divs, cov = adapt.correspondence(chk, tier)
    findings, scov = search.result()
    lf, lst = adapt.large_magnitude_findings(chk.seed, full=(tier != 'quick') or not proof_ok)
    for k_, (t_, c_) in lf.items():
        findings.setdefault(k_, (t_, dict(c_, nsteps=0)))
    scov['large_magnitude'] = lst
    if divs and tier != 'thorough' and proof_ok:
        # the correspondence broke: the full search
        more, mcov = adapt.usability_search(chk.seed + 1, tier, full=True).result()
        for k_, v in more.items():
            findings.setdefault(k_, v)
        scov['full_search_after_divergence'] = mcov
    import realsearch
    ef, est = realsearch.early_reset_findings(chk.seed)
    for key, text, payload in ef:
        findings.setdefault(key, (text, dict(payload, nsteps=0)))
    scov['early_resets'] = est
    bad, first_zero = representable_probe()
    c = chk.coverage
    c['correspondence'] = {'adapt': cov}
    c['search'] = dict(scov, oracle='scale attributes finite and admissible (widths > 0, covariance PSD, kappa > 0; '
                       'Sivia-Skilling scale within max(initial scale, configured cap)); '
                       'no exception from Chain.step(); generator draws per jump within the budget '
                       '(<= 1e5 in one jump, mean <= 1e3 over every 100-step block)',
                       representable={'violations of the IEEE assumptions': bad, 'first kappa with normalisation 0': first_zero})
    c['evaluations'] = cov['steps'] + scov['steps']
    c['distinct_nontrivial'] = cov['cases'] - cov['divergences'] + scov['runs']
    c['rule'] = ('one evaluation = one real Chain.step() with the scale attributes read (correspondence) or the '
                 'generator draws counted (search); distinct = distinct (family, variant, optional arguments, target, '
                 'beta, duration, start, seed) tuples generated from VERIF_SEED; every run is at least as long as its '
                 'window; the cases with non-default optional constructor arguments are counted under '
                 'optional_arguments (correspondence and search)')
    c['optional_arguments'] = {'correspondence': cov.get('optional_arguments'), 'search': scov.get('optional_arguments'),
                               'updates_where_the_guard_held_some_widths_only': cov.get('guard_fired_for_some_widths_only')}
    c['branches'] = cov['branches']
    chk.assumptions += [
        'partial: the theorems are about the exact-arithmetic recursions; IEEE arithmetic enters only through '
        '`Representable lk := -745 < lk < 709` (exp positive and finite) and "the normalisation of a finite '
        'positive kappa evaluates to a number >= 0" (both probed on the real numpy in this run)',
        'the standard normal cdf is symmetric and concave on [0, inf) (hypotheses of C14_retry_bound)',
        'acceptance ratios recorded by a chain lie in [0,1] (C08_ar_unit)',
    ]
    if bad:
        findings['representable-predicate'] = (
            'the IEEE assumptions of C14_vmf_no_raise / C14_vmf_logkappa_representable fail on this numpy: %r' % bad[:3],
            {'family': 'adaptive_isotropic_solid_angle', 'T': 0, 'nsteps': 0})
    for key, (text, case) in sorted(findings.items()):
        chk.violation(key, text, {'case': case if case.get('nsteps') else None, 'search': 'usability',
                                  'expected': 'finite admissible scale, no exception, draws per jump within the budget',
                                  'how_to_replay': './check C14 --replay <this file>'}, True)
    broken = []
    if not proof_ok:
        broken += ['lean: %s %s' % (o[0], o[2]) for o in chk.broken_obligations()]
    if divs:
        d = divs[0]
        broken.append('correspondence suite adapt: %d diverging case(s); first: %s/%s history %s step %d: %s' % (
            len(divs), d['case']['family'], d['case'].get('variant'), d['case']['model'], d['step'], d['why'][:400]))
    # a finding explains a broken correspondence only if it is about a family that diverged
    div_fams = {d['case']['family'] for d in divs}
    explained = proof_ok and bool(divs) and div_fams <= {adapt.finding_family(key) for key in findings}
    if broken and not explained:
        chk.violation('unproved', '; '.join(broken)[:1500],
                      {'no_longer_checks': broken, 'case': divs[0]['case'] if divs else None,
                       'how_to_replay': './check C14 --replay <this file>'}, False)
    elif broken:
        chk.notes.append('also broken: ' + '; '.join(broken)[:800])


def replay(path):
    return adapt.replay_case(json.load(open(path)))
