"""C10 — transdimensional states are well formed.

proof:   EpsieProps/C10.lean (C10_jump_wf, C10_jump_wf_total, C10_choice_feasible,
         C10_choice_infeasible_beyond_K, C10_reachable_wf, C10_reachable_step_total,
         C10_update_rule) over EpsieModel/Transdim.lean
tie:     correspondence suite `transdim` (harness/transdim.py, lean/DriverTransdim.lean):
         real NestedTransdimensional.jump / Chain.step / ParallelTemperedChain.step with scripted
         index draw, choice, births and in-model draws against the executable model: proposed
         point, NaN pattern, `_state`, which components were born / killed / moved, record,
         `_active_props`, which in-model proposals were updated, sweeps, clears, resumes
search:  the statement of C10 asserted on every record, every proposed_position and every
         `_active_props` along real MH and PT runs (chains, PT chains and both samplers;
         3-6 components, several index bounds, three birth families, ten in-model families,
         start patterns, clears, resumes at random cuts, swaps)
"""
import transdim


def run(chk, tier, proof_ok):
    built, log = transdim.ensure_built()
    if not built:
        proof_ok = False
        chk.obligations.append(('lake-build EpsieModel.Transdim', False, [log[-400:]]))
    n = 70 if tier == 'quick' else 1500
    divs, errs = ([], [])
    if built:
        divs, errs = transdim.correspondence(chk, n, ignore_acc=True)
    full = tier == 'thorough' or not proof_ok or divs or errs or not built
    nruns = 45 if not full else (1600 if tier == 'thorough' else 150)
    findings, cov = transdim.c10_search(chk.seed, nruns, procs=8 if full else 1)
    chk.coverage['search'] = cov
    import realsearch
    of, nopt = realsearch.td_options_findings(chk.seed * 61 + 9, 6 if tier == 'quick' else 60)
    chk.coverage['options_checks'] = nopt
    findings = list(findings) + of
    chk.coverage['evaluations'] = chk.coverage.get('evaluations', 0) + nruns
    chk.coverage['distinct_nontrivial'] = chk.coverage.get('distinct_nontrivial', 0) + nruns
    ub = transdim.probe_unchecked_bounds(chk.seed)
    chk.notes += ['index bounds the constructor does not check (hypotheses 0 <= kmin, kmax <= K of '
                  'C10_choice_feasible): ' + t for t in ub]
    # with such bounds the code may refuse (it raises when the index asks for more components than there
    # are), but it must never hand out an ill-formed point: that is the property itself
    for t in ub:
        if 'ill-formed state' in t and not any(k == 'wf-unchecked-bounds' for k, _, _ in findings):
            findings.append(('wf-unchecked-bounds', 'index bounds beyond the number of components: ' + t,
                             {'probe': t, 'how_to_replay': 'transdim.probe_unchecked_bounds(seed)', 'seed': chk.seed}))
    chk.notes += ['outside the hypotheses of C10_reachable_wf: ' + t for t in transdim.probe_corner_cases(chk.seed)]
    chk.assumptions += [
        'start values are themselves well formed (index = number of non-NaN components, within the bounds); '
        'the start_position setter checks nothing',
        'start_position is assigned only while no record is retained (it re-derives _active_props from the '
        'new start value but leaves the current position alone)',
        '0 <= kmin and kmax <= K for "the step never raises" (not checked by the constructor)',
        'a component whose parameters are partly NaN cannot be written down in the model; the real code '
        'treats it as active']
    transdim.report(chk, proof_ok, divs, errs, findings)


def replay(path):
    return transdim.replay_file(path, 'C10')
