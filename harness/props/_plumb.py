"""Shared driver for the properties decided over the plumbing model
(C05, C06, C08, C09, C15, C17, C18, C19): correspondence batch + reporting."""
import json
import os
import random

import common
import plumbing


def corpus_cases(prop):
    """Minimised past disagreements kept under corpus/<prop>/*.json run first."""
    d = os.path.join(common.CORPUS_DIR, prop)
    out = []
    if os.path.isdir(d):
        for f in sorted(os.listdir(d)):
            if f.endswith('.json'):
                try:
                    out.append(plumbing.Case.from_description(json.load(open(os.path.join(d, f)))))
                except Exception:
                    pass
    return out


def correspondence(chk, n, gen_kwargs, label='plumbing', seed_salt=0):
    """Run `n` generated cases (plus the corpus) through real code and model.

    Returns (divergences, errors); fills chk.coverage / samples."""
    rng = random.Random((chk.seed << 8) ^ seed_salt ^ 0xC0FFEE)
    cases = corpus_cases(chk.prop)
    for i in range(n):
        cases.append(plumbing.gen_case(rng, '%s-%d' % (label, i), **gen_kwargs))
    divs, errs, stats = plumbing.check_cases(cases)
    agg = {}
    fams = {}
    for st in stats:
        for k, v in st.items():
            if isinstance(v, int):
                agg[k] = agg.get(k, 0) + v
        for k, v in st['ops'].items():
            agg['op_' + k] = agg.get('op_' + k, 0) + v
        for f in st['families']:
            fams[f] = fams.get(f, 0) + 1
    cov = chk.coverage
    cov['correspondence_cases'] = cov.get('correspondence_cases', 0) + len(cases)
    cov['evaluations'] = cov.get('evaluations', 0) + len(cases)
    distinct = len({json.dumps(c.describe(), sort_keys=True, default=str) for c in cases
                    if any(o[0] == 'run' and o[1] > 0 for o in c.ops)})
    cov['distinct_nontrivial'] = cov.get('distinct_nontrivial', 0) + distinct
    cov['rule'] = ('cases generated from VERIF_SEED by plumbing.gen_case over the package\'s exported '
                   'proposal families; non-trivial = contains at least one run of >= 1 iteration; '
                   'distinct = distinct case descriptions')
    cov.setdefault('correspondence', {})[label] = {
        'cases': len(cases), 'divergences': len(divs), 'real_code_exceptions': len(errs),
        'branches': agg, 'families': fams}
    if cases:
        c0 = cases[-1]
        try:
            lines, expect, _ = plumbing.run_case(c0)
            chk.samples.append({'case': c0.describe(), 'protocol_head': lines[:12], 'expected_head': expect[:6]})
        except Exception as e:
            chk.samples.append({'case': c0.describe(), 'error': repr(e)})
    return divs, errs


def shrink(div):
    """Delta-debug the op list of a diverging case (keeps it diverging)."""
    c = div['case']
    best = c
    ops = list(c.ops)
    changed = True
    budget = 40
    while changed and budget > 0:
        changed = False
        for i in range(len(ops)):
            budget -= 1
            if budget <= 0:
                break
            trial = ops[:i] + ops[i + 1:]
            cc = plumbing.Case.from_description(dict(best.describe(), ops=trial))
            try:
                d, e, _ = plumbing.check_cases([cc])
            except Exception:
                continue
            if d or e:
                ops = trial
                best = cc
                changed = True
                break
    return best


def report(chk, proof_ok, divs, errs, findings, suite='plumbing'):
    """findings: list of (key, text, payload) failing inputs found on the real code.

    A broken proof obligation or correspondence without a failing input is
    reported as a violation ending in no-failing-input-found."""
    n0 = len(chk.violations)
    for key, text, payload in findings:
        chk.violation(key, text, payload, True)
    found_new = len(chk.violations) > n0       # a failing input that is not a recorded finding
    broken = []
    if not proof_ok:
        broken += ['lean: ' + str(o[0]) + ' ' + str(o[2]) for o in chk.broken_obligations()]
    lean_broken = list(broken)
    if divs:
        d = divs[0]
        try:
            small = shrink(d)
        except Exception:
            small = d['case']
        broken.append('correspondence suite %s: %d diverging case(s); first: model %r vs real %r' % (
            suite, len(divs), d['model_line'][:300], d['real_line'][:300]))
        payload_case = small.describe()
    else:
        payload_case = None
    if errs:
        e = errs[0]
        broken.append('correspondence suite %s: the real code raised %s' % (suite, e['exception'][:300]))
        if payload_case is None:
            payload_case = e['case'].describe()
    # a broken Lean obligation is never explained by a recorded finding (the recorded findings are
    # there on the unchanged tree, where every obligation checks); a correspondence divergence may be
    if (lean_broken and not found_new) or (broken and not found_new and not findings and not chk.known_hit):
        chk.violation('unproved', '; '.join(broken)[:1500], {
            'no_longer_checks': broken, 'case': payload_case,
            'how_to_replay': './check %s --replay <this file>' % chk.prop}, False)
    elif broken and not found_new and chk.known_hit:
        chk.notes.append('correspondence breakage attributed to known findings: ' + '; '.join(broken)[:500])


def replay_case(path):
    """Re-run the plumbing case stored in a replay file on model and real code."""
    d = json.load(open(path))
    case = d.get('case')
    if not case:
        print('replay file carries no plumbing case; see its how_to_replay field:', d.get('how_to_replay'))
        return 0
    c = plumbing.Case.from_description(case)
    divs, errs, _ = plumbing.check_cases([c])
    for dv in divs:
        print('DIVERGENCE at output line %d\n  model: %s\n  real:  %s' % (dv['index'], dv['model_line'], dv['real_line']))
    for e in errs:
        print('REAL CODE RAISED', e['exception'])
        print(e['traceback'])
    if not divs and not errs:
        print('model and real code agree on this case now')
    return 1 if (divs or errs) else 0
