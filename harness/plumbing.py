"""Correspondence suite `plumbing`: random but structured sampler
configurations and operation sequences are executed on the real epsie objects
(imported from /repo) under the logging `Recorder`, rendered as protocol lines
and replayed by the Lean model (`lean/Driver.lean`); canonical outputs are
compared line by line.

    gen_case(rng, ...)  -> Case (config + ops)
    run_case(case)      -> (protocol_lines, expected_output_lines, stats)
    check_cases(cases)  -> list of divergences
"""
import copy
import pickle
import random

import numpy

import common
from common import frac, csv
import families as F
import instrument as I

from epsie.samplers import MetropolisHastingsSampler, ParallelTemperedSampler
from epsie.chain.ptchain import DynamicalAnnealer


class Case:
    def __init__(self, cid):
        self.cid = cid
        self.kind = 'mh'
        self.nchains = 1
        self.betas = [1.0]
        self.swap_interval = 1
        self.reset_after_swap = False
        self.dynamic = False
        self.params = []          # (name, kind, dom)
        self.props = []           # (family, [param names], kwargs for F.make)
        self.model_kind = 'quad'
        self.blobs = False
        self.seed = 0
        self.ops = []             # ('run', n) ('clear',) ('dump',) ('get', c, t, i) ('saveload',) ('reset', c, t)
        self.prop_seed = 0
        self.ann_nu = 4
        self.ann_tmax_prior = True

    def describe(self):
        return {'id': self.cid, 'kind': self.kind, 'nchains': self.nchains, 'betas': self.betas,
                'swap_interval': self.swap_interval, 'reset_after_swap': self.reset_after_swap,
                'unlisted': getattr(self, 'unlisted', None),
                'dynamic': self.dynamic, 'params': self.params, 'props': self.props,
                'model': self.model_kind, 'blobs': self.blobs, 'seed': self.seed,
                'prop_seed': self.prop_seed, 'ops': self.ops,
                'ann_nu': self.ann_nu, 'ann_tmax_prior': self.ann_tmax_prior}

    @staticmethod
    def from_description(d):
        c = Case(d['id'])
        for k in ('kind', 'nchains', 'betas', 'swap_interval', 'reset_after_swap', 'dynamic',
                  'model_kind', 'blobs', 'seed', 'prop_seed', 'ann_nu', 'ann_tmax_prior'):
            if k in d:
                setattr(c, k, d[k])
        c.model_kind = d.get('model', c.model_kind)
        c.unlisted = d.get('unlisted')
        c.params = [tuple(p[:2]) + (tuple(p[2]) if p[2] is not None else None,) for p in d['params']]
        c.props = [(f, list(ps), dict(kw)) for f, ps, kw in d['props']]
        c.ops = [tuple(o) for o in d['ops']]
        return c


DYADIC_BETAS = [0.0, 0.125, 0.25, 0.375, 0.5, 0.625, 0.75, 0.875]


def gen_case(rng, cid, families=None, kinds=('mh', 'pt'), allow_saveload=True,
             allow_reset=False, max_ops=8, allow_slow=True, ntemps_choices=(2, 3, 4, 1, 3),
             allow_dynamic=False, max_run=6, window_choices=None, allow_loadinto=False):
    c = Case(cid)
    c.kind = rng.choice(kinds)
    c.nchains = rng.choice([1, 1, 2, 3])
    c.seed = rng.randrange(1 << 30)
    c.prop_seed = rng.randrange(1 << 30)
    if c.kind == 'pt':
        nt = rng.choice(ntemps_choices)
        bs = sorted(rng.sample(DYADIC_BETAS, nt - 1), reverse=True)
        c.betas = [1.0] + bs
        # a hottest level at a vanishing (still exactly representable) inverse temperature now and then
        if nt >= 2 and random.Random(c.seed ^ 0xBE7A).random() < 0.12:
            c.betas[-1] = 2.0 ** -1000
        rng.shuffle(c.betas) if rng.random() < 0.3 else None
        c.swap_interval = rng.choice([1, 1, 2, 3, 4])
        c.dynamic = allow_dynamic and nt >= 3 and rng.random() < 0.5
        if c.dynamic:
            c.betas = sorted(c.betas, reverse=True)
            # small nu = large adjustments: with a finite hottest temperature the adapted ladder
            # can transiently lose its order, which is legal and must survive clears and resumes
            c.ann_nu = rng.choice([1, 1, 2, 4, 10])
            c.ann_tmax_prior = rng.random() < 0.5
            if not c.ann_tmax_prior and c.betas[-1] == 0.0:
                c.betas[-1] = 0.0625
    # proposals / parameters
    fams = list(families or F.FAMILIES)
    nprops = rng.choice([1, 1, 2, 2, 3])
    pi = 0
    for _ in range(nprops):
        fam = rng.choice(fams)
        cls, kind, lo, hi = F.FAMILIES[fam]
        n = rng.randint(lo, hi)
        names = []
        for j in range(n):
            name = 'p%d' % pi
            pi += 1
            dom = F.domain_for(kind, rng, j)
            if kind == 'sphere':
                # (radec, degs): the angle conventions of the solid-angle proposal, fixed per proposal
                frng = random.Random((c.seed << 4) ^ (pi - j))
                dom = (frng.random() < 0.5, frng.random() < 0.4)
            c.params.append((name, kind if kind != 'sphere' else ('sphere%d' % j), dom))
            names.append(name)
        kw = {'window': rng.choice(window_choices) if window_choices else rng.randint(3, 9),
              'start_step': rng.choice([1, 1, 2, 3])}
        if allow_slow and rng.random() < 0.35:
            kw['jump_interval'] = rng.choice([2, 3])
        if fam.startswith('at_adaptive') and rng.random() < 0.4:
            kw['componentwise'] = True
        c.props.append((fam, names, kw))
    # componentwise scaling makes virtual moves that keep the other parameters fixed; a
    # non-successive discrete proposal reports density 0 for a null move, so the virtual
    # acceptance ratio is NaN and the real code raises (recorded under C14, not a plumbing matter)
    if any(F.FAMILIES[f][1] in ('int', 'intbox') for f, _, _ in c.props):
        for _, _, kw in c.props:
            kw.pop('componentwise', None)
    c.blobs = rng.random() < 0.4
    c.model_kind = rng.choice(['quad', 'quad', 'slope', 'flat'])
    # nothing may depend on the ORDER in which parameters and proposals are listed: in half of the
    # cases the sampler's parameter list, the list of proposals and each proposal's own parameter
    # list are in unrelated orders (values are paired by NAME everywhere in the protocol)
    orng = random.Random(c.seed ^ 0x0D0E)
    # reset_after_swap: exchanged levels restart their adaptation (a third of the tempered cases)
    if c.kind == 'pt' and orng.random() < 0.35:
        c.reset_after_swap = True
    # the jump interval arrives as a numpy integer now and then
    for _, _, kw in c.props:
        if 'jump_interval' in kw and orng.random() < 0.3:
            kw['jump_interval'] = numpy.int64(kw['jump_interval'])
    # optional constructor arguments of the proposals at non-default values (half of the cases)
    if orng.random() < 0.5:
        for _, _, kw in c.props:
            kw['optional'] = orng.randrange(1 << 16)
    if orng.random() < 0.5:
        orng.shuffle(c.params)
        orng.shuffle(c.props)
        for fam, names, _ in c.props:
            if F.FAMILIES[fam][1] != 'sphere':      # (azimuth, polar) is a positional pair
                orng.shuffle(names)
    # a proposal is given for a SUBSET of the parameters only (the sampler builds its default proposal
    # for the rest): one proposal over continuous parameters is left out in a fifth of the cases
    c.unlisted = None
    cont = [i for i, (fam, _, _) in enumerate(c.props) if F.FAMILIES[fam][1] in ('real', 'angle', 'box')]
    if len(c.props) >= 2 and cont and orng.random() < 0.2:
        c.unlisted = orng.choice(cont)
    # ops
    nops = rng.randint(2, max_ops)
    for _ in range(nops):
        r = rng.random()
        if r < 0.5:
            c.ops.append(('run', rng.choice([0, 1, 1, 2, 3, 4, max_run])))
        elif r < 0.65:
            c.ops.append(('clear',))
        elif r < 0.8 and allow_saveload:
            c.ops.append(('saveload',))
        elif r < 0.85 and allow_reset:
            c.ops.append(('reset', rng.randrange(c.nchains), rng.randrange(len(c.betas))))
        elif r < 0.92 and allow_loadinto:
            # save now / roll the SAME sampler object back to the last saved state later
            c.ops.append(('save',) if not any(o[0] == 'save' for o in c.ops) or rng.random() < 0.3 else ('loadinto',))
        else:
            c.ops.append(('dump',))
    c.ops.append(('run', rng.choice([1, 2, 3])))
    c.ops.append(('dump',))
    c.ops.append(('getall',))
    return c


def build_sampler(c, seed, model):
    prng = random.Random(c.prop_seed)
    doms = {name: dom for name, kind, dom in c.params}
    # parameter lists arrive as lists or as tuples
    form = c.seed % 2
    def shaped(fam, names):
        if F.FAMILIES[fam][1] == 'sphere' or form == 0:
            return names
        return tuple(names)
    props = [F.make(fam, shaped(fam, names), doms, prng, **kw) for fam, names, kw in c.props]
    if getattr(c, 'unlisted', None) is not None:
        props = [p for i, p in enumerate(props) if i != c.unlisted]
    pnames = [p[0] for p in c.params]
    if form == 1:
        pnames = tuple(pnames)
    if c.kind == 'mh':
        return MetropolisHastingsSampler(pnames, model, c.nchains, proposals=props, seed=seed)
    ann = DynamicalAnnealer(tau=rng_tau(c), nu=c.ann_nu, Tmax_prior=c.ann_tmax_prior) if c.dynamic else None
    return ParallelTemperedSampler(pnames, model, c.nchains, numpy.array(c.betas),
                                   swap_interval=c.swap_interval, proposals=props,
                                   adaptive_annealer=ann, reset_after_swap=c.reset_after_swap,
                                   seed=seed)


def rng_tau(c):
    return 20 + (c.seed % 30)


def make_model(c):
    box = {name: dom for name, kind, dom in c.params if kind in ('box', 'intbox')}
    # the prior support is bounded for the unbounded kinds too (far away): on an unbounded flat target an
    # always-accepted adaptive eigenvector proposal runs its covariance up until it overflows, which is
    # neither this suite's subject nor within C14's hypothesis (bounded prior support)
    box.update({name: (-1048576.0, 1048576.0) for name, kind, dom in c.params if kind in ('real', 'int')})
    ints = [name for name, kind, dom in c.params if kind in ('int', 'intbox')]
    m = I.LoggedModel([p[0] for p in c.params], kind=c.model_kind, blobs=c.blobs, box=box, ints=ints,
                         reuse_blob=(c.seed % 3 == 0), int_outputs={1: True, 3: 'float32'}.get(c.seed % 6, False))
    m.blob_order = (c.seed % 5 == 2)
    return m


def start_positions(c):
    srng = random.Random(c.seed ^ 0x5A5A)
    nt = len(c.betas)
    out = {}
    for name, kind, dom in c.params:
        which = 0
        k = kind
        if kind.startswith('sphere'):
            which = int(kind[-1])
            k = 'sphere'
        if c.kind == 'mh':
            vals = [F.start_value(k, dom, srng, which) for _ in range(c.nchains)]
            out[name] = numpy.array(vals)
        else:
            vals = [[F.start_value(k, dom, srng, which) for _ in range(c.nchains)] for _ in range(nt)]
            out[name] = numpy.array(vals)
    return out


def sorted_betas(c):
    return sorted([float(b) for b in c.betas], reverse=True)


def run_case(c):
    """Execute the case on the real code; return (protocol lines, expected lines, stats)."""
    lines = ['case %s' % c.cid]
    expect = ['case %s' % c.cid]
    stats = {'steps': 0, 'sweeps': 0, 'accept': 0, 'reject': 0, 'forced': 0, 'uniforms': 0,
             'jumps': 0, 'nonjump': 0, 'queries': 0, 'ops': {}, 'families': [f for f, _, _ in c.props]}
    model = make_model(c)
    with I.Recorder() as rec:
        sampler = build_sampler(c, c.seed, model)
        pnames = list(sampler.parameters)
        lv0 = I.levels_of(sampler.chains[0])[0]
        for pr in lv0.proposal_dist.proposals:
            lines.append(I.prop_line(pr, pnames))
        ispt = c.kind == 'pt'
        betas = [float(b) for b in sampler.chains[0].betas] if ispt else [1.0]
        lines.append('new nchains=%d betas=%s s=%d reset=%d dyn=%d' % (
            c.nchains, csv(betas), c.swap_interval, int(c.reset_after_swap), int(c.dynamic)))
        expect.append('ok new')
        # start
        start = start_positions(c)
        rec.take()
        sampler.start_position = start
        evs = [e for e in rec.take() if e[0] == 'E']
        k = 0
        for ci in range(c.nchains):
            for t in range(len(betas)):
                if ispt:
                    pos = [start[p][t][ci] for p in pnames]
                else:
                    pos = [start[p][ci] for p in pnames]
                lines.append('o S %s' % csv(pos))
                if k < len(evs):
                    lines.extend(I.render_oracle([evs[k]], sampler))
                k += 1
        for e in evs[k:]:
            lines.extend(I.render_oracle([e], sampler))
        lines.append('op start')
        expect.append('ok start')
        kept = None
        for op in c.ops:
            stats['ops'][op[0]] = stats['ops'].get(op[0], 0) + 1
            if op[0] == 'run':
                sampler.run(op[1])
                ents = rec.take()
                for e in ents:
                    if e[0] == 'J':
                        stats['jumps'] += 1
                    elif e[0] == 'U':
                        stats['uniforms'] += 1
                    elif e[0] == 'W':
                        stats['sweeps'] += 1
                    elif e[0] == 'Q':
                        stats['queries'] += 1
                    elif e[0] == 'E':
                        stats['steps'] += 1
                        if e[2][1] == -numpy.inf:
                            stats['forced'] += 1
                nsteps_now = sum(1 for e in ents if e[0] == 'E')
                stats['nonjump'] += nsteps_now * len(c.props) - sum(1 for e in ents if e[0] == 'J')
                for ch in sampler.chains:
                    for l in I.levels_of(ch):
                        acc = numpy.asarray(l.acceptance['accepted'])[-op[1]:] if op[1] else []
                        na = int(numpy.sum(acc))
                        stats['accept'] += na
                        stats['reject'] += len(acc) - na
                lines.extend(I.render_oracle(ents, sampler))
                lines.append('op run %d' % op[1])
                expect.append('ok run %d' % op[1])
            elif op[0] == 'clear':
                sampler.clear()
                lines.extend(I.render_oracle(rec.take(), sampler))
                lines.append('op clear')
                expect.append('ok clear')
            elif op[0] == 'dump':
                lines.append('op dump')
                expect.extend(I.dump_real(sampler, rec, model.ncalls))
                lines.extend(I.render_oracle(rec.take(), sampler))
            elif op[0] == 'getall':
                for ci, ch in enumerate(sampler.chains):
                    for t, l in enumerate(I.levels_of(ch)):
                        n = len(l)
                        for i in list(range(-n, n)) + [n, -n - 1]:
                            lines.append('op get %d %d %d' % (ci, t, i))
                            expect.append(I.getitem_real(sampler, ci, t, i))
                lines.extend(I.render_oracle(rec.take(), sampler))
            elif op[0] == 'saveload':
                try:
                    st = pickle.loads(pickle.dumps(sampler.state))
                except ValueError:
                    lines.append('op save')
                    expect.append('raise save')
                    continue
                lines.append('op save')
                expect.append('ok save')
                new = build_sampler(c, c.seed + 7919, model)
                rec.take()
                new.set_state(st)
                # the model's event count is part of the saved adaptive payload.  The counts are keyed by
                # object identity: start from an empty table, so that a new object that happens to get the
                # address of a discarded one does not inherit its count
                carried = {}
                for och, nch in zip(sampler.chains, new.chains):
                    for ol, nl in zip(I.levels_of(och), I.levels_of(nch)):
                        for op_, np_ in zip(ol.proposal_dist.proposals, nl.proposal_dist.proposals):
                            if isinstance(np_, I.BaseAdaptiveSupport):
                                carried[id(np_)] = rec.nev.get(id(op_), 0)
                rec.nev.clear()
                rec.nev.update(carried)
                sampler = new
                kept = None
                lines.extend(I.render_oracle(rec.take(), sampler))
                lines.append('op load')
                expect.append('ok load')
            elif op[0] == 'save':
                try:
                    kept = (pickle.loads(pickle.dumps(sampler.state)), dict(rec.nev))
                except ValueError:
                    lines.append('op save')
                    expect.append('raise save')
                    continue
                lines.append('op save')
                expect.append('ok save')
            elif op[0] == 'loadinto':
                if kept is None:
                    continue
                rec.take()
                sampler.set_state(pickle.loads(pickle.dumps(kept[0])))
                for ch in sampler.chains:
                    for l in I.levels_of(ch):
                        for pr in l.proposal_dist.proposals:
                            if isinstance(pr, I.BaseAdaptiveSupport):
                                rec.nev[id(pr)] = kept[1].get(id(pr), 0)
                lines.extend(I.render_oracle(rec.take(), sampler))
                lines.append('op loadinto')
                expect.append('ok loadinto')
            elif op[0] == 'reset':
                ch = sampler.chains[op[1]]
                I.levels_of(ch)[op[2]].reset_proposals()
                lines.append('op reset %d %d' % (op[1], op[2]))
                expect.append('ok reset %d %d' % (op[1], op[2]))
    return lines, expect, stats


def split_cases(out_lines):
    """Split driver output into per-case lists keyed by case id."""
    cases, cur = {}, None
    for ln in out_lines:
        if ln.startswith('case '):
            cur = ln[5:]
            cases[cur] = [ln]
        elif cur is not None:
            cases[cur].append(ln)
    return cases


def check_cases(cases):
    """Run each case on the real code and on the model. Returns (divergences, errors, stats).

    divergence: dict(case, index, model_line, real_line, lines, expect)
    error: dict(case, exception) — the real code raised while executing the ops.
    """
    all_lines, expects, stats, errors = [], {}, [], []
    for c in cases:
        try:
            lines, expect, st = run_case(c)
        except Exception as e:   # the real code raised: reported by the caller
            import traceback
            errors.append({'case': c, 'exception': repr(e), 'traceback': traceback.format_exc()})
            continue
        all_lines.extend(lines)
        expects[str(c.cid)] = (c, lines, expect)
        stats.append(st)
    out = common.run_driver(all_lines) if all_lines else []
    got = split_cases(out)
    divs = []
    for cid, (c, lines, expect) in expects.items():
        m = got.get(cid, [])
        d = common.first_divergence(m, expect)
        if d is not None:
            divs.append({'case': c, 'index': d[0], 'model_line': d[1], 'real_line': d[2],
                         'lines': lines, 'expect': expect, 'model_out': m})
    return divs, errors, stats


# --------------------------------------------------------------------------
# Nested transdimensional configurations for the real-code searches (the plumbing MODEL does not
# cover them; their well-formedness and acceptance are C10/C11's model, EpsieModel/Transdim.lean)
# --------------------------------------------------------------------------

class TDCase:
    """Adapter exposing a transdim.TDConfig through the interface the searches use."""

    def __init__(self, cid, cfg, kind, nchains, seed, ops):
        self.cid, self.cfg, self.kind, self.nchains, self.seed, self.ops = cid, cfg, kind, nchains, seed, list(ops)
        self.betas = list(cfg.betas) if kind == 'pt' else [1.0]
        self.swap_interval = cfg.swap_interval if kind == 'pt' else 1
        self.dynamic = False
        self.reset_after_swap = False
        self.params = [(n, 'td', None) for n in cfg.params]
        self.props = [('nested_transdimensional:' + cfg.inner, list(cfg.params), {})]
        self.blobs = False
        self.model_kind = 'td'
        self.prop_seed = cfg.inner_seed

    def describe(self):
        return {'id': self.cid, 'td': self.cfg.describe(), 'kind': self.kind, 'nchains': self.nchains,
                'seed': self.seed, 'ops': self.ops, 'betas': self.betas, 'swap_interval': self.swap_interval,
                'dynamic': False, 'props': self.props, 'params': self.params}


def gen_td_case(rng, cid, kinds=('mh', 'pt'), allow_saveload=True, max_ops=7):
    import transdim
    kind = rng.choice(kinds)
    cfg = transdim.gen_run_cfg(rng, kind == 'pt')
    ops = []
    for _ in range(rng.randint(2, max_ops)):
        r = rng.random()
        if r < 0.55:
            ops.append(('run', rng.choice([0, 1, 2, 3, 5, 8])))
        elif r < 0.7:
            ops.append(('clear',))
        elif r < 0.85 and allow_saveload:
            ops.append(('saveload',))
        else:
            ops.append(('dump',))
    ops += [('run', rng.choice([1, 2, 4])), ('dump',)]
    return TDCase(cid, cfg, kind, rng.choice([1, 2]), rng.randrange(1 << 30), ops)


_orig_build_sampler, _orig_make_model, _orig_start_positions = build_sampler, make_model, start_positions


def build_sampler(c, seed, model):
    if not isinstance(c, TDCase):
        return _orig_build_sampler(c, seed, model)
    props = c.cfg.build()
    if c.kind == 'mh':
        return MetropolisHastingsSampler(c.cfg.params, model, c.nchains, proposals=props, seed=seed)
    return ParallelTemperedSampler(c.cfg.params, model, c.nchains, numpy.array(c.betas),
                                   swap_interval=c.swap_interval, proposals=props, seed=seed)


def make_model(c):
    if not isinstance(c, TDCase):
        return _orig_make_model(c)
    return c.cfg.model()


def start_positions(c):
    if not isinstance(c, TDCase):
        return _orig_start_positions(c)
    srng = random.Random(c.seed ^ 0x7D7D)
    nt = len(c.betas)
    names = c.cfg.params

    def pt():
        return c.cfg.point_dict(*c.cfg.random_point(srng))
    if c.kind == 'mh':
        pts = [pt() for _ in range(c.nchains)]
        return {n: numpy.array([p[n] for p in pts]) for n in names}
    pts = [[pt() for _ in range(c.nchains)] for _ in range(nt)]
    return {n: numpy.array([[p[n] for p in row] for row in pts]) for n in names}
