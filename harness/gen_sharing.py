#!/venv/bin/python
"""Regenerate lean/EpsieModel/Generated/Sharing.lean from /repo's current source.

Data only, measured on the live code (C04 / C07):

* `variant`     three facts the Lean model (EpsieModel/Streams.lean) does not hard-wire:
                how `set_proposals` orders the parameters of the default proposal
                (probed with strings whose hash the harness chooses), whether seating
                a generator through `JointProposal` reaches the inside of a
                `NestedTransdimensional`, whether the PT sampler hands every chain its
                own annealer;
* `rows`        for freshly built real samplers of every kind (MH, PT, PT with
                `DynamicalAnnealer`, nested transdimensional under MH and PT, a
                transdimensional proposal made with an integer seed) the partition of
                the draw sites by `id(bit_generator)` and by generator state (walk:
                chain -> proposal_dist -> proposals -> model proposal, in-model
                proposals, birth distributions) and the kinds of the mutable objects
                reachable from two different chains (pickle-style traversal; the user
                model, classes, functions, modules and immutable values excluded);
* `scanSites`   ast scan of epsie/ for every place that can consult an unordered
                container (iteration over / ordering of a set, set.pop, hash(), id()),
                the entropy pool (SeedSequence() & friends, and every call of the
                entropy-capable helpers create_seed / create_bit_generator(s)) or a
                foreign random stream (numpy.random.* / random.* calls and imports,
                scipy `.rvs(` without `random_state=`), with the allow-list below.

Deterministic and idempotent: sorted output, no addresses, no hash order, no line
numbers, no wall clock; the file is only rewritten when its content changes.
"""
import ast
import os
import sys
import tempfile
import types

sys.path.insert(0, os.path.dirname(os.path.abspath(__file__)))
import common  # noqa: E402  (puts /repo on sys.path)

import numpy  # noqa: E402

OUT = os.path.join(common.LEAN_DIR, 'EpsieModel', 'Generated', 'Sharing.lean')


# --------------------------------------------------------------------------
# configurations: the Python twin of `Epsie.Streams.Cfg`
# --------------------------------------------------------------------------
#
# cfg = {'nparams': n,                       parameters p00 .. p<n-1> (sorted = index order)
#        'props': [('plain', [i, ...], touched) | ('nested', seed_or_None, index, [[i], [j], ...])],
#        'kind': ('mh',) | ('pt', ntemps, annealer: bool),
#        'nchains': k, 'seed': int | None}

def pname(i):
    return 'p%02d' % i


def lbool(b):
    return 'true' if b else 'false'


def lstr(s):
    return '"' + str(s).replace('\\', '\\\\').replace('"', '\\"') + '"'


def llist(items):
    return '[' + ', '.join(items) + ']'


def lnats(xs):
    return llist(str(int(x)) for x in xs)


def lopt(x):
    return 'none' if x is None else 'some %d' % x


def lean_prop(p):
    if p[0] == 'plain':
        return '.plain %s %s' % (lnats(p[1]), lbool(p[2]))
    return '.nested (%s) %d %s' % (lopt(p[1]), p[2], llist(lnats(x) for x in p[3]))


def lean_kind(k):
    if k[0] == 'mh':
        return '.mh'
    return '.pt %d %s' % (k[1], lbool(k[2]))


def lean_cfg(cfg):
    return '{ params := %s, props := %s, kind := %s, nchains := %d, seed := %s }' % (
        lnats(range(cfg['nparams'])), llist(lean_prop(p) for p in cfg['props']),
        lean_kind(cfg['kind']), cfg['nchains'], lopt(cfg['seed']))


def covered(cfg):
    out = []
    for p in cfg['props']:
        if p[0] == 'plain':
            out += list(p[1])
        else:
            out += [i for grp in p[3] for i in grp] + [p[2]]
    return out


def missing(cfg):
    cov = set(covered(cfg))
    return [i for i in range(cfg['nparams']) if i not in cov]


class QuadModel:
    """Module-level (picklable) user model: Gaussian likelihood around 0.25*(i+1),
    flat prior on a box, NaN (= inactive transdimensional component) ignored.
    `blobs`: also return a blob dictionary."""

    def __init__(self, params, blobs=False, box=8.0):
        self.params = tuple(params)
        self.blobs = blobs
        self.box = box

    def __call__(self, **kw):
        s = 0.0
        logp = 0.0
        for i, p in enumerate(self.params):
            v = float(kw[p])
            if v != v:
                continue
            if not (-self.box <= v <= self.box):
                logp = -numpy.inf
            s += (v - 0.25 * (i + 1)) ** 2 * (1.0 + 0.5 * i)
        logl = -0.5 * s
        if self.blobs:
            return logl, logp, {'b0': s, 'b1': float(len(kw))}
        return logl, logp


def make_plain(family, names, rng=None):
    """A real elementary proposal over `names`. `family` = 'normal' or a name of
    harness/families.py (adaptive variants for the C07 runs)."""
    from epsie import proposals as P
    if family == 'normal':
        return P.Normal(list(names))
    import random
    import families as F
    rng = rng or random.Random(5)
    doms = {n: (-8.0, 8.0) for n in names}
    return F.make(family, list(names), doms, rng, window=12)


def build_real(cfg, family='normal', model=None, pool=None, default_family=None, rng=None,
               annealer=None, swap_interval=1, betas=None):
    """Construct the real sampler that `cfg` describes. Returns (sampler, info)."""
    from epsie import proposals as P
    from epsie.samplers import MetropolisHastingsSampler, ParallelTemperedSampler
    from epsie.chain.ptchain import DynamicalAnnealer
    names = [pname(i) for i in range(cfg['nparams'])]
    if model is None:
        model = QuadModel(names)
    props = []
    for p in cfg['props']:
        if p[0] == 'plain':
            fam = family if isinstance(family, str) else family[len(props) % len(family)]
            pr = make_plain(fam, [names[i] for i in p[1]], rng)
            if p[2]:
                _ = pr.bit_generator          # the user "touches" the fresh proposal
            props.append(pr)
        else:
            _, garg, ix, inner = p
            inn = [P.Normal([names[i] for i in grp]) for grp in inner]
            births = [P.UniformBirth([names[i] for i in grp], {names[i]: (0., 4.) for i in grp}) for grp in inner]
            mp = P.BoundedDiscrete([names[ix]], boundaries={names[ix]: (0, len(inner))},
                                   successive={names[ix]: True})
            pars = [names[i] for grp in inner for i in grp] + [names[ix]]
            props.append(P.NestedTransdimensional(pars, mp, inn, births, bit_generator=garg))
    kw = {}
    if default_family is not None:
        kw['default_proposal'] = default_family[0]
        kw['default_proposal_args'] = default_family[1]
    if cfg['kind'][0] == 'mh':
        s = MetropolisHastingsSampler(names, model, cfg['nchains'], proposals=props, seed=cfg['seed'],
                                      pool=pool, **kw)
        ann = None
    else:
        nt = cfg['kind'][1]
        ann = None
        if cfg['kind'][2]:
            ann = annealer if annealer is not None else DynamicalAnnealer(tau=20, nu=4)
        if betas is None:
            betas = [1.0 / (2 ** t) for t in range(nt)]
        s = ParallelTemperedSampler(names, model, cfg['nchains'], numpy.array(betas),
                                    swap_interval=swap_interval, proposals=props,
                                    adaptive_annealer=ann, seed=cfg['seed'], pool=pool, **kw)
    return s, {'names': names, 'model': model, 'user_props': props, 'annealer': ann}


def start_positions(cfg, salt=0):
    """Deterministic start positions ([ntemps x] nchains) valid for `cfg` (transdimensional:
    the index equals the number of finite components)."""
    nt = cfg['kind'][1] if cfg['kind'][0] == 'pt' else None
    shape = (cfg['nchains'],) if nt is None else (nt, cfg['nchains'])
    n = cfg['nparams']
    out = {}
    vals = {}
    for i in range(n):
        a = numpy.empty(shape, dtype=float)
        for idx in numpy.ndindex(*shape):
            k = sum((j + 1) * (3 + 2 * d) for d, j in enumerate(idx))
            a[idx] = ((i * 37 + k * 11 + salt * 5) % 29) / 10.0 - 0.7     # in [-0.7, 2.1]
        vals[i] = a
    for p in cfg['props']:
        if p[0] == 'nested':
            _, _, ix, inner = p
            karr = numpy.zeros(shape, dtype=int)
            for idx in numpy.ndindex(*shape):
                nact = (1 + (sum(idx) + salt) % len(inner)) if inner else 0     # at least one active component
                karr[idx] = nact
                for gi, grp in enumerate(inner):
                    for i in grp:
                        if gi >= nact:
                            vals[i][idx] = numpy.nan
                        else:
                            vals[i][idx] = abs(vals[i][idx]) % 3.5 + 0.2   # inside the birth box (0, 4)
            vals[ix] = karr
    for i in range(n):
        out[pname(i)] = vals[i]
    return out


# --------------------------------------------------------------------------
# walking the real object graph
# --------------------------------------------------------------------------

def gen_of(obj):
    """The generator object seated on `obj`, without triggering the lazy getter."""
    return getattr(obj, '__dict__', {}).get('_bit_generator')


def level_sites(chain):
    jp = chain.proposal_dist
    out = [('accept', (), gen_of(jp), jp)]
    for p in jp.proposals:
        if getattr(p, 'transdimensional', False):
            out.append(('tdChoice', (), gen_of(p), p))
            mp = p.model_proposal
            out.append(('modelIndex', tuple(mp.parameters), gen_of(mp), mp))
            for q in p.proposals:
                out.append(('jump', tuple(q.parameters), gen_of(q), q))
                b = q.birth_distribution
                out.append(('birth', tuple(b.parameters), gen_of(b), b))
        else:
            out.append(('jump', tuple(p.parameters), gen_of(p), p))
    return out


def chain_sites(ch):
    """Draw sites of a chain in the order of `Epsie.Streams.AnyChain.sites`:
    (kind, parameter names, generator object, site object)."""
    if hasattr(ch, 'chains'):
        out = []
        if ch.chains:
            out.append(('swap', (), gen_of(ch.chains[0].proposal_dist), ch))
        for lvl in ch.chains:
            out += level_sites(lvl)
        return out
    return level_sites(ch)


def chain_generator(ch):
    """`chain.bit_generator` as handed over by the sampler."""
    if hasattr(ch, 'chains'):
        return ch.__dict__.get('_bit_generator')
    return gen_of(ch.proposal_dist)


def gen_state_key(g):
    if g is None:
        return None
    ss = getattr(g, 'seed_seq', None)
    return (repr(getattr(ss, 'entropy', None)), repr(tuple(getattr(ss, 'spawn_key', ()))), repr(g.state))


def origin_of(g, seed):
    if g is None:
        return 'other'
    ss = getattr(g, 'seed_seq', None)
    key = tuple(getattr(ss, 'spawn_key', ()))
    if seed is not None and getattr(ss, 'entropy', None) == seed and len(key) == 1:
        return 'spawn %d' % key[0]
    return 'other'


def site_rows(sampler, names, seed):
    """Per chain: (kind, sorted parameter indices, generator class, stream class, origin).
    `seed`: the seed the *user* gave (None: the sampler made one up, every origin is `other`)."""
    gcls, scls = {}, {}
    rows = []
    for ch in sampler.chains:
        r = []
        for kind, pars, g, _ in chain_sites(ch):
            gk = None if g is None else id(g)
            gi = gcls.setdefault(gk, len(gcls))
            si = scls.setdefault(gen_state_key(g), len(scls))
            r.append((kind, sorted(names.index(p) for p in pars), gi, si, origin_of(g, seed)))
        rows.append(r)
    return rows


def order_rows(sampler, names):
    """Per chain: (kind, parameter indices in the order the site uses them)."""
    return [[(kind, [names.index(p) for p in pars]) for kind, pars, _, _ in chain_sites(ch)]
            for ch in sampler.chains]


_IMMUTABLE = (int, float, complex, str, bytes, bool, type(None), numpy.generic, range, slice,
              type(Ellipsis), type(NotImplemented))
_SKIP = (types.ModuleType, type, types.FunctionType, types.BuiltinFunctionType, types.MethodDescriptorType,
         types.WrapperDescriptorType, types.GetSetDescriptorType, types.MemberDescriptorType,
         numpy.ufunc, numpy.dtype, property, staticmethod, classmethod)


def reachable(root, exclude_ids):
    """Pickle-style traversal from `root`: id -> (object, attribute path) of every *mutable*
    object reachable (containers, arrays, instances, generators).  Not descended and not
    counted: the objects in `exclude_ids` (the user model), modules, classes, functions,
    immutable values, locks.  Tuples / frozensets are descended but not counted."""
    seen = {}
    visited = set()
    stack = [(root, '')]
    lock_types = ('lock', 'RLock', '_thread.lock', '_thread.RLock')
    while stack:
        obj, path = stack.pop()
        oid = id(obj)
        if oid in visited or oid in exclude_ids:
            continue
        if isinstance(obj, _IMMUTABLE) or isinstance(obj, _SKIP):
            continue
        if type(obj).__name__ in lock_types or type(obj).__module__ == '_thread':
            continue
        visited.add(oid)
        children = []
        if isinstance(obj, (tuple, frozenset)):
            children = [(x, path) for x in obj]
        elif isinstance(obj, types.MethodType):
            children = [(obj.__self__, path)]
        else:
            seen[oid] = (obj, path)
            if isinstance(obj, dict):
                for k, v in obj.items():
                    children.append((k, path))
                    children.append((v, '%s[%s]' % (path, k if isinstance(k, str) else type(k).__name__)))
            elif isinstance(obj, (list, set)):
                children = [(x, path + '[]') for x in obj]
            elif isinstance(obj, numpy.ndarray):
                if obj.dtype == object:
                    children = [(x, path + '[]') for x in obj.ravel().tolist()]
            elif isinstance(obj, numpy.random.BitGenerator) or isinstance(obj, numpy.random.Generator) \
                    or isinstance(obj, numpy.random.RandomState):
                children = []
            else:
                d = getattr(obj, '__dict__', None)
                if isinstance(d, dict):
                    for k, v in d.items():
                        children.append((v, '%s.%s' % (path, k)))
                for cls in type(obj).__mro__:
                    for slot in getattr(cls, '__slots__', ()) or ():
                        if isinstance(slot, str) and hasattr(obj, slot) and slot not in ('__dict__', '__weakref__'):
                            try:
                                children.append((getattr(obj, slot), '%s.%s' % (path, slot)))
                            except AttributeError:
                                pass
        stack.extend(children)
    return seen


def cross_chain(sampler):
    """Mutable objects reachable from two different chains: list of (kind, type name, path),
    entry points of the sharing only (objects referenced from a chain-private object)."""
    import epsie
    from epsie.proposals.base import BaseRandom
    # excluded: the user model, and numpy's module-level RandomState singleton, which every scipy
    # frozen distribution made at run time references (`rv_generic._random_state`).  Whether anybody
    # *draws* from it is decided elsewhere: the scan table (no `.rvs(` without random_state, no
    # numpy.random.* call) and the draw log (global generator state unchanged by stepping).
    excl = {id(sampler.model), id(numpy.random.mtrand._rand)}
    per = [reachable(ch, excl) for ch in sampler.chains]
    shared = {}
    for i in range(len(per)):
        for j in range(i + 1, len(per)):
            for oid in per[i].keys() & per[j].keys():
                shared.setdefault(oid, per[i][oid])
    # entry points: shared objects whose path is not an extension of another shared object's path
    out = []
    paths = sorted({p for _, p in shared.values()})
    for oid, (obj, path) in shared.items():
        if any(path != q and path.startswith(q) and path[len(q):len(q) + 1] in '.[' for q in paths):
            continue
        if isinstance(obj, BaseRandom):
            kind = 'proposal'
        elif isinstance(obj, epsie.BIT_GENERATOR) or isinstance(obj, numpy.random.BitGenerator):
            kind = 'bit_generator'
        elif path.endswith('adaptive_annealer'):
            kind = 'annealer'
        else:
            kind = type(obj).__name__
        out.append((kind, type(obj).__name__, path))
    return sorted(set(out))


# --------------------------------------------------------------------------
# the three measured facts
# --------------------------------------------------------------------------

class HashedStr(str):
    """A parameter name whose hash the harness chooses (set iteration order then is
    the order of the hashes for small sets)."""

    def __new__(cls, s, h):
        o = super().__new__(cls, s)
        o._h = h
        return o

    def __hash__(self):
        return self._h

    def __eq__(self, other):
        return str.__eq__(self, other)

    def __ne__(self, other):
        return str.__ne__(self, other)


def probe_default_order():
    """hashSet | asGiven | sorted | other(<observations>)"""
    from epsie.samplers import MetropolisHastingsSampler
    names = ['pb', 'pa', 'pc']
    obs = []
    for hashes in ([1, 2, 3], [3, 2, 1], [2, 3, 1]):
        params = [HashedStr(n, h) for n, h in zip(names, hashes)]
        s = object.__new__(MetropolisHastingsSampler)
        s.parameters = params
        s.set_proposals(None)
        got = [str(p) for p in s.proposals[-1].parameters]
        by_hash = [n for _, n in sorted(zip(hashes, names))]
        obs.append((got, by_hash))
    if all(g == names for g, _ in obs):
        return 'asGiven', None
    if all(g == sorted(names) for g, _ in obs):
        return 'sorted', None
    if all(g == b for g, b in obs):
        return 'hashSet', None
    return 'hashSet', 'default-order probe: unrecognised ordering %r' % ([g for g, _ in obs],)


def probe_reseats_inner():
    """Does seating a generator through JointProposal reach everything inside a
    NestedTransdimensional?  Returns (bool, error or None)."""
    import epsie
    from epsie import proposals as P
    inner = [P.Normal(['a1']), P.Normal(['a2'])]
    births = [P.UniformBirth(['a1'], {'a1': (0., 1.)}), P.UniformBirth(['a2'], {'a2': (0., 1.)})]
    mp = P.BoundedDiscrete(['k'], boundaries={'k': (0, 2)}, successive={'k': True})
    td = P.NestedTransdimensional(['a1', 'a2', 'k'], mp, inner, births)
    g = epsie.create_bit_generator(12345)
    P.JointProposal(td, bit_generator=g)
    objs = [td.model_proposal] + list(td.proposals) + [q.birth_distribution for q in td.proposals]
    follow = [gen_of(o) is g for o in objs]
    if gen_of(td) is not g:
        return False, 'reseat probe: JointProposal did not seat its generator on the nested proposal itself'
    if all(follow):
        return True, None
    if not any(follow):
        return False, None
    return False, 'reseat probe: only part of the nested proposal follows the generator: %r' % (follow,)


def probe_annealer_per_chain():
    from epsie.samplers import ParallelTemperedSampler
    from epsie.chain.ptchain import DynamicalAnnealer
    ann = DynamicalAnnealer()
    s = ParallelTemperedSampler(['x'], QuadModel(['x']), 3, numpy.array([1.0, 0.5, 0.25]),
                                adaptive_annealer=ann, seed=1)
    ids = [id(c.adaptive_annealer) for c in s.chains]
    if len(set(ids)) == len(ids):
        return True, None
    if len(set(ids)) == 1:
        return False, None
    return False, 'annealer probe: some chains share an annealer, some do not'


def measure_variant():
    errs = []
    order, e = probe_default_order()
    if e:
        errs.append(e)
    try:
        reseat, e = probe_reseats_inner()
    except Exception as ex:            # the probe itself failed: recorded, decided by the obligations
        reseat, e = False, 'reseat probe raised %r' % (ex,)
    if e:
        errs.append(e)
    try:
        per_chain, e = probe_annealer_per_chain()
    except Exception as ex:
        per_chain, e = False, 'annealer probe raised %r' % (ex,)
    if e:
        errs.append(e)
    return {'defaultOrder': order, 'reseatsInner': reseat, 'annealerPerChain': per_chain}, errs


def lean_variant(v):
    return '{ defaultOrder := .%s, reseatsInner := %s, annealerPerChain := %s }' % (
        v['defaultOrder'], lbool(v['reseatsInner']), lbool(v['annealerPerChain']))


# --------------------------------------------------------------------------
# the sampler kinds of the table
# --------------------------------------------------------------------------

TABLE_CFGS = [
    ('mh', {'nparams': 3, 'props': [('plain', [0], False), ('plain', [1], True)], 'kind': ('mh',),
            'nchains': 3, 'seed': 11}),
    ('mh-two-defaulted', {'nparams': 3, 'props': [('plain', [1], False)], 'kind': ('mh',),
                          'nchains': 2, 'seed': 5}),
    ('pt', {'nparams': 2, 'props': [('plain', [0, 1], False)], 'kind': ('pt', 3, False),
            'nchains': 2, 'seed': 11}),
    ('pt-dynamical-annealer', {'nparams': 2, 'props': [('plain', [0], False)], 'kind': ('pt', 3, True),
                               'nchains': 3, 'seed': 7}),
    ('transdimensional-mh', {'nparams': 5, 'props': [('nested', None, 4, [[1], [2], [3]])], 'kind': ('mh',),
                             'nchains': 2, 'seed': 11}),
    ('transdimensional-pt', {'nparams': 4, 'props': [('nested', None, 3, [[1], [2]]), ('plain', [0], False)],
                             'kind': ('pt', 2, False), 'nchains': 2, 'seed': 11}),
    ('transdimensional-int-seed-pt-annealer', {'nparams': 3, 'props': [('nested', 99, 2, [[0], [1]])],
                                               'kind': ('pt', 3, True), 'nchains': 2, 'seed': 3}),
    ('mh-unseeded', {'nparams': 1, 'props': [], 'kind': ('mh',), 'nchains': 2, 'seed': None}),
]

KIND_TAG = {'accept': '.accept', 'swap': '.swap', 'jump': '.jump', 'tdChoice': '.tdChoice',
            'modelIndex': '.modelIndex', 'birth': '.birth'}


def lean_site(r):
    kind, pars, g, s, origin = r
    return '⟨%s, %s, %d, %d, .%s⟩' % (KIND_TAG[kind], lnats(pars), g, s, origin)


def measure_rows():
    rows, errs = [], []
    for name, cfg in TABLE_CFGS:
        try:
            s, info = build_real(cfg)
            sites = site_rows(s, info['names'], cfg['seed'])
            cc = cross_chain(s)
            rows.append((name, cfg, sites, sorted({k for k, _, _ in cc}), cc))
        except Exception as ex:
            errs.append('sampler kind %s could not be built/walked: %r' % (name, ex))
    return rows, errs


# --------------------------------------------------------------------------
# ast scan
# --------------------------------------------------------------------------

# Benign sites, each with its justification.  Key: (file, function, kind, detail).
ALLOW = {
    ('epsie/chain/ptchain.py', 'bit_generator', 'entropy-call', 'create_bit_generator:noseed'):
        'setter of ParallelTemperedChain.bit_generator: only reached when a PT chain is constructed '
        'without a generator; both samplers always pass one (re-checked on every run by the draw-site '
        'rows: the generator of every PT chain has origin spawn i)',
}

ORDER_INSENSITIVE = {'len', 'set', 'frozenset', 'sorted', 'any', 'all', 'bool', 'isinstance', 'min', 'max',
                     'set.union', 'set.intersection', 'set.difference', 'set.issubset', 'set.issuperset',
                     'frozenset.union'}
ENTROPY_HELPERS = {'create_seed', 'create_bit_generator', 'create_bit_generators'}
NUMPY_RANDOM_OK = {'Generator', 'SeedSequence', 'PCG64', 'PCG64DXSM', 'Philox', 'SFC64', 'MT19937',
                   'BitGenerator'}
ENTROPY_CALLS = {'os.urandom', 'time.time', 'time.time_ns', 'time.perf_counter', 'time.monotonic',
                 'os.getpid', 'uuid.uuid1', 'uuid.uuid4', 'datetime.now', 'datetime.datetime.now',
                 'secrets.token_bytes', 'secrets.randbits', 'random.SystemRandom'}


def dotted(n):
    if isinstance(n, ast.Name):
        return n.id
    if isinstance(n, ast.Attribute):
        b = dotted(n.value)
        return (b + '.' + n.attr) if b else None
    return None


def is_setexpr(e, local):
    if isinstance(e, (ast.Set, ast.SetComp)):
        return True
    if isinstance(e, ast.Call):
        fn = dotted(e.func)
        if fn in ('set', 'frozenset', 'set.union', 'set.intersection', 'set.difference'):
            return True
        if isinstance(e.func, ast.Attribute) and e.func.attr in ('union', 'intersection', 'difference',
                                                                 'symmetric_difference') \
                and is_setexpr(e.func.value, local):
            return True
    if isinstance(e, ast.BinOp) and isinstance(e.op, (ast.Sub, ast.BitOr, ast.BitAnd, ast.BitXor)):
        return is_setexpr(e.left, local) or is_setexpr(e.right, local)
    if isinstance(e, ast.Name) and local.get(e.id):
        return True
    return False


def src(node):
    try:
        return ast.unparse(node)
    except Exception:
        return '<expr>'


def seed_detail(call, fn):
    """`<helper>:noseed` when no seed is passed (or a literal None), else `<helper>:seed=<expr>`."""
    short = fn.split('.')[-1]
    arg = None
    pos = 1 if short == 'create_bit_generators' else 0
    if len(call.args) > pos:
        arg = call.args[pos]
    for k in call.keywords:
        if k.arg == 'seed':
            arg = k.value
    if arg is None or (isinstance(arg, ast.Constant) and arg.value is None):
        return '%s:noseed' % short
    return '%s:seed=%s' % (short, src(arg))


def scan_file(path, rel):
    sites = []
    try:
        tree = ast.parse(open(path).read())
    except SyntaxError as ex:
        return [(rel, '<module>', 'unparsable', str(ex), 0)]
    # imports of foreign random sources
    rng_aliases = set()
    for n in ast.walk(tree):
        if isinstance(n, ast.ImportFrom) and n.module in ('numpy.random', 'random', 'numpy.random.mtrand'):
            for a in n.names:
                if not (n.module.startswith('numpy.random') and a.name in NUMPY_RANDOM_OK):
                    sites.append((rel, '<module>', 'global-rng-import', '%s.%s' % (n.module, a.name), n.lineno))
        if isinstance(n, ast.Import):
            for a in n.names:
                if a.name == 'random':
                    rng_aliases.add(a.asname or 'random')

    def scan_scope(node, fname):
        local = {}
        body_nodes = list(ast.walk(node))
        # do not descend into nested function definitions twice: they are scanned as own scopes,
        # but their set-valued locals are found here too (harmless over-approximation)
        for n in body_nodes:
            if isinstance(n, ast.Assign) and len(n.targets) == 1 and isinstance(n.targets[0], ast.Name):
                if is_setexpr(n.value, local):
                    local[n.targets[0].id] = True
        for n in body_nodes:
            if isinstance(n, ast.For) and is_setexpr(n.iter, local):
                sites.append((rel, fname, 'iterates-set', src(n.iter), n.lineno))
            if isinstance(n, (ast.ListComp, ast.SetComp, ast.DictComp, ast.GeneratorExp)):
                for c in n.generators:
                    if is_setexpr(c.iter, local):
                        # a set comprehension / order-insensitive consumer of the result would be benign,
                        # but is flagged all the same: the allow-list has to say why
                        sites.append((rel, fname, 'iterates-set', src(c.iter), n.lineno))
            if isinstance(n, ast.Starred) and is_setexpr(n.value, local):
                sites.append((rel, fname, 'orders-set', '*' + src(n.value), n.lineno))
            if isinstance(n, ast.Call):
                fn = dotted(n.func) or (n.func.attr if isinstance(n.func, ast.Attribute) else None) or '<call>'
                if fn in ('hash', 'id'):
                    sites.append((rel, fname, 'uses-' + fn, src(n), n.lineno))
                if isinstance(n.func, ast.Attribute) and n.func.attr == 'pop' and not n.args \
                        and is_setexpr(n.func.value, local):
                    sites.append((rel, fname, 'set-pop', src(n.func.value), n.lineno))
                short = fn.split('.')[-1]
                if short in ENTROPY_HELPERS:
                    sites.append((rel, fname, 'entropy-call', seed_detail(n, fn), n.lineno))
                if short == 'SeedSequence' and not n.args and not any(k.arg == 'entropy' for k in n.keywords):
                    sites.append((rel, fname, 'entropy', 'SeedSequence()', n.lineno))
                if short == 'default_rng' and not n.args and not n.keywords:
                    sites.append((rel, fname, 'entropy', 'default_rng()', n.lineno))
                if short in ('PCG64', 'BIT_GENERATOR', 'Philox', 'SFC64', 'MT19937') and not n.args \
                        and not n.keywords:
                    sites.append((rel, fname, 'entropy', short + '()', n.lineno))
                if fn in ENTROPY_CALLS:
                    sites.append((rel, fname, 'entropy', fn, n.lineno))
                parts = fn.split('.')
                if len(parts) >= 3 and parts[-2] == 'random' and parts[0] in ('numpy', 'np') \
                        and parts[-1] not in NUMPY_RANDOM_OK:
                    if not (parts[-1] == 'default_rng' and (n.args or n.keywords)):
                        sites.append((rel, fname, 'global-rng', fn, n.lineno))
                if len(parts) == 2 and parts[0] in rng_aliases:
                    sites.append((rel, fname, 'global-rng', fn, n.lineno))
                if short == 'rvs' and not any(k.arg == 'random_state' for k in n.keywords):
                    sites.append((rel, fname, 'global-rng', src(n.func), n.lineno))
                # a set handed to something that will order it
                if fn not in ORDER_INSENSITIVE:
                    for a in list(n.args) + [k.value for k in n.keywords]:
                        if is_setexpr(a, local):
                            sites.append((rel, fname, 'orders-set', '%s(%s)' % (fn, src(a)), n.lineno))

    class V(ast.NodeVisitor):
        def visit_FunctionDef(self, node):
            scan_scope(node, node.name)
            # nested defs are covered by ast.walk above; do not recurse

        visit_AsyncFunctionDef = visit_FunctionDef

        def visit_ClassDef(self, node):
            for b in node.body:
                if isinstance(b, (ast.FunctionDef, ast.AsyncFunctionDef)):
                    self.visit_FunctionDef(b)
                elif isinstance(b, ast.ClassDef):
                    self.visit_ClassDef(b)
                else:
                    scan_scope(b, '<class %s>' % node.name)

    v = V()
    for b in tree.body:
        if isinstance(b, (ast.FunctionDef, ast.AsyncFunctionDef)):
            v.visit_FunctionDef(b)
        elif isinstance(b, ast.ClassDef):
            v.visit_ClassDef(b)
        else:
            scan_scope(b, '<module>')
    return sites


def scan_sites():
    """Sorted list of (file, func, kind, detail, allowed, [line numbers])."""
    root = os.path.join(common.REPO, 'epsie')
    found = {}
    for dp, dn, files in sorted(os.walk(root)):
        dn.sort()
        for f in sorted(files):
            if not f.endswith('.py') or f == '_version.py':
                continue
            path = os.path.join(dp, f)
            rel = os.path.relpath(path, common.REPO)
            for (a, b, c, d, line) in scan_file(path, rel):
                found.setdefault((a, b, c, d), []).append(line)
    return [(k[0], k[1], k[2], k[3], k in ALLOW, sorted(set(v))) for k, v in sorted(found.items())]


# --------------------------------------------------------------------------

def render():
    variant, errs = measure_variant()
    rows, errs2 = measure_rows()
    errs += errs2
    sites = scan_sites()
    out = ['-- GENERATED by harness/gen_sharing.py from the current /repo source. Do not edit.',
           'import EpsieModel.Streams', 'namespace Epsie.Generated.Sharing', 'open Epsie.Streams', '',
           '/-- which of the code variants of EpsieModel/Streams.lean /repo is today (measured) -/',
           'def variant : Variant := ' + lean_variant(variant), '',
           'def probeErrors : List String := ' + llist(lstr(e) for e in errs), '',
           '/-- draw sites by generator object / generator state, and cross-chain objects, of freshly',
           '    built real samplers -/',
           'def rows : List SamplerRow := [']
    rtxt = []
    for name, cfg, sites_, kinds, _ in rows:
        chains = ',\n      '.join(llist(lean_site(r) for r in ch) for ch in sites_)
        rtxt.append('  { name := %s,\n    cfg := %s,\n    chains := [\n      %s],\n    crossChain := %s }' % (
            lstr(name), lean_cfg(cfg), chains, llist(lstr(k) for k in kinds)))
    out.append(',\n'.join(rtxt))
    out += [']', '',
            '/-- every place in epsie/ that can consult an unordered container, the entropy pool or a',
            '    foreign random stream; `allowed` = on the justified allow-list of harness/gen_sharing.py -/',
            'def scanSites : List ScanSite := [',
            ',\n'.join('  { file := %s, func := %s, kind := %s, detail := %s, allowed := %s }' % (
                lstr(a), lstr(b), lstr(c), lstr(d), lbool(al)) for a, b, c, d, al, _ in sites),
            ']', '', 'end Epsie.Generated.Sharing', '']
    return '\n'.join(out), {'variant': variant, 'errors': errs, 'rows': rows, 'sites': sites}


def main(quiet=False):
    """Write the table if its content changed. Returns (changed, info)."""
    with numpy.errstate(all='ignore'):
        text, info = render()
    os.makedirs(os.path.dirname(OUT), exist_ok=True)
    old = open(OUT).read() if os.path.exists(OUT) else None
    changed = old != text
    if changed:
        fd, tmp = tempfile.mkstemp(dir=os.path.dirname(OUT), prefix='.Sharing', suffix='.tmp')
        with os.fdopen(fd, 'w') as fh:
            fh.write(text)
        os.chmod(tmp, 0o644)
        os.replace(tmp, OUT)
    if not quiet:
        print('gen_sharing: variant=%s, %d sampler rows, %d scan sites (%d allowed), %d probe errors, %s' % (
            ','.join('%s=%s' % kv for kv in sorted(info['variant'].items())), len(info['rows']),
            len(info['sites']), sum(1 for s in info['sites'] if s[4]), len(info['errors']),
            'rewritten' if changed else 'unchanged'))
    return changed, info


if __name__ == '__main__':
    import warnings
    warnings.filterwarnings('ignore')
    import logging
    logging.disable(logging.WARNING)
    main()
