#!/venv/bin/python
"""Regenerate lean/EpsieModel/Generated/Sharing.lean from /repo's current source.

Data only, measured on the live code (C04 / C07):

* `variant`     three facts the Lean model (EpsieModel/Streams.lean) does not hard-wire:
                how `set_proposals` orders the parameters of the default proposal
                (probed with strings whose hash the harness chooses), whether seating
                a generator through `JointProposal` reaches the inside of a
                `NestedTransdimensional`, whether the PT sampler hands every chain its
                own annealer;
* `rows`        for freshly built real samplers of every kind (MH, PT, PT with
                `DynamicalAnnealer`, nested transdimensional under MH and PT, a
                transdimensional proposal made with an integer seed) the partition of
                the draw sites by `id(bit_generator)` and by generator state (walk:
                chain -> proposal_dist -> proposals -> model proposal, in-model
                proposals, birth distributions) and the kinds of the mutable objects
                reachable from two different chains (pickle-style traversal; the user
                model, classes, functions, modules and immutable values excluded);
* `scanSites`   ast scan of epsie/ for every place that can consult an unordered
                container (iteration over / ordering of a set, set.pop, hash(), id()),
                the entropy pool (SeedSequence() & friends, and every call of the
                entropy-capable helpers create_seed / create_bit_generator(s)) or a
                foreign random stream (numpy.random.* / random.* calls and imports,
                scipy `.rvs(` without `random_state=`), with the allow-list below.

* `classState`  ast scan of epsie/ for class-level (and module-level) attributes bound to a
                mutable value (dict / list / set literals, comprehensions, dict(), list(),
                numpy.zeros(..), any constructor call) that the package mutates through an
                instance (`self.X.update(..)`, `self.X[k] = v`, `.append`, `self.X += ..`,
                `out=self.X`, ...) without rebinding `self.X = ...` earlier in the same
                function, through the class (`cls.X..`, `type(self).X..`, `<Class>.X = ..`,
                `setattr(cls, ..)`), through a local alias, or (module level) through `global`:
                one object per process, reachable from every instance, in no pickle.  The
                traversal behind `crossChain` does not descend into classes; this table is
                its complement (C07_generated_no_shared_class_state).

Deterministic and idempotent: sorted output, no addresses, no hash order, no line
numbers, no wall clock; the file is only rewritten when its content changes.
"""
import ast
import os
import sys
import tempfile
import types

sys.path.insert(0, os.path.dirname(os.path.abspath(__file__)))
import common  # noqa: E402  (puts /repo on sys.path)

import numpy  # noqa: E402

OUT = os.path.join(common.LEAN_DIR, 'EpsieModel', 'Generated', 'Sharing.lean')


# --------------------------------------------------------------------------
# configurations: the Python twin of `Epsie.Streams.Cfg`
# --------------------------------------------------------------------------
#
# cfg = {'nparams': n,                       parameters p00 .. p<n-1> (sorted = index order)
#        'props': [('plain', [i, ...], touched) | ('nested', seed_or_None, index, [[i], [j], ...])],
#        'kind': ('mh',) | ('pt', ntemps, annealer: bool),
#        'nchains': k, 'seed': int | None}

def pname(i):
    return 'p%02d' % i


def lbool(b):
    return 'true' if b else 'false'


def lstr(s):
    return '"' + str(s).replace('\\', '\\\\').replace('"', '\\"') + '"'


def llist(items):
    return '[' + ', '.join(items) + ']'


def lnats(xs):
    return llist(str(int(x)) for x in xs)


def lopt(x):
    return 'none' if x is None else 'some %d' % x


def lean_prop(p):
    if p[0] == 'plain':
        return '.plain %s %s' % (lnats(p[1]), lbool(p[2]))
    return '.nested (%s) %d %s' % (lopt(p[1]), p[2], llist(lnats(x) for x in p[3]))


def lean_kind(k):
    if k[0] == 'mh':
        return '.mh'
    return '.pt %d %s' % (k[1], lbool(k[2]))


def lean_cfg(cfg):
    return '{ params := %s, props := %s, kind := %s, nchains := %d, seed := %s }' % (
        lnats(range(cfg['nparams'])), llist(lean_prop(p) for p in cfg['props']),
        lean_kind(cfg['kind']), cfg['nchains'], lopt(cfg['seed']))


def covered(cfg):
    out = []
    for p in cfg['props']:
        if p[0] == 'plain':
            out += list(p[1])
        else:
            out += [i for grp in p[3] for i in grp] + [p[2]]
    return out


def missing(cfg):
    cov = set(covered(cfg))
    return [i for i in range(cfg['nparams']) if i not in cov]


class QuadModel:
    """Module-level (picklable) user model: Gaussian likelihood around 0.25*(i+1),
    flat prior on a box, NaN (= inactive transdimensional component) ignored.
    `blobs`: also return a blob dictionary."""

    def __init__(self, params, blobs=False, box=8.0):
        self.params = tuple(params)
        self.blobs = blobs
        self.box = box

    def __call__(self, **kw):
        s = 0.0
        logp = 0.0
        for i, p in enumerate(self.params):
            v = float(kw[p])
            if v != v:
                continue
            if not (-self.box <= v <= self.box):
                logp = -numpy.inf
            s += (v - 0.25 * (i + 1)) ** 2 * (1.0 + 0.5 * i)
        logl = -0.5 * s
        if self.blobs:
            return logl, logp, {'b0': s, 'b1': float(len(kw))}
        return logl, logp


def make_plain(family, names, rng=None):
    """A real elementary proposal over `names`. `family` = 'normal' or a name of
    harness/families.py (adaptive variants for the C07 runs)."""
    from epsie import proposals as P
    if family == 'normal':
        return P.Normal(list(names))
    import random
    import families as F
    rng = rng or random.Random(5)
    doms = {n: (-8.0, 8.0) for n in names}
    return F.make(family, list(names), doms, rng, window=12)


def build_real(cfg, family='normal', model=None, pool=None, default_family=None, rng=None,
               annealer=None, swap_interval=1, betas=None, user_props=None, before_sampler=None,
               reset_after_swap=False):
    """Construct the real sampler that `cfg` describes. Returns (sampler, info).

    `user_props`: hand these (already existing) proposal objects to the sampler instead of making
    new ones (a script that builds two samplers from the same proposals); `before_sampler(props,
    names)`: what the user does with the proposals before the sampler is constructed;
    `reset_after_swap`: the PT sampler's option of that name."""
    from epsie import proposals as P
    from epsie.samplers import MetropolisHastingsSampler, ParallelTemperedSampler
    from epsie.chain.ptchain import DynamicalAnnealer
    names = [pname(i) for i in range(cfg['nparams'])]
    if model is None:
        model = QuadModel(names)
    props = []
    for p in (cfg['props'] if user_props is None else []):
        if p[0] == 'plain':
            fam = family if isinstance(family, str) else family[len(props) % len(family)]
            pr = make_plain(fam, [names[i] for i in p[1]], rng)
            if p[2]:
                _ = pr.bit_generator          # the user "touches" the fresh proposal
            props.append(pr)
        else:
            _, garg, ix, inner = p
            inn = [P.Normal([names[i] for i in grp]) for grp in inner]
            births = [P.UniformBirth([names[i] for i in grp], {names[i]: (0., 4.) for i in grp}) for grp in inner]
            mp = P.BoundedDiscrete([names[ix]], boundaries={names[ix]: (0, len(inner))},
                                   successive={names[ix]: True})
            pars = [names[i] for grp in inner for i in grp] + [names[ix]]
            props.append(P.NestedTransdimensional(pars, mp, inn, births, bit_generator=garg))
    if user_props is not None:
        props = list(user_props)
    if before_sampler is not None:
        before_sampler(props, names)
    kw = {}
    if default_family is not None:
        kw['default_proposal'] = default_family[0]
        kw['default_proposal_args'] = default_family[1]
    if cfg['kind'][0] == 'mh':
        s = MetropolisHastingsSampler(names, model, cfg['nchains'], proposals=props, seed=cfg['seed'],
                                      pool=pool, **kw)
        ann = None
    else:
        nt = cfg['kind'][1]
        ann = None
        if cfg['kind'][2]:
            ann = annealer if annealer is not None else DynamicalAnnealer(tau=20, nu=4)
        if betas is None:
            betas = [1.0 / (2 ** t) for t in range(nt)]
        s = ParallelTemperedSampler(names, model, cfg['nchains'], numpy.array(betas),
                                    swap_interval=swap_interval, proposals=props,
                                    adaptive_annealer=ann, seed=cfg['seed'], pool=pool,
                                    reset_after_swap=bool(reset_after_swap), **kw)
    return s, {'names': names, 'model': model, 'user_props': props, 'annealer': ann}


def start_positions(cfg, salt=0):
    """Deterministic start positions ([ntemps x] nchains) valid for `cfg` (transdimensional:
    the index equals the number of finite components)."""
    nt = cfg['kind'][1] if cfg['kind'][0] == 'pt' else None
    shape = (cfg['nchains'],) if nt is None else (nt, cfg['nchains'])
    n = cfg['nparams']
    out = {}
    vals = {}
    for i in range(n):
        a = numpy.empty(shape, dtype=float)
        for idx in numpy.ndindex(*shape):
            k = sum((j + 1) * (3 + 2 * d) for d, j in enumerate(idx))
            a[idx] = ((i * 37 + k * 11 + salt * 5) % 29) / 10.0 - 0.7     # in [-0.7, 2.1]
        vals[i] = a
    for p in cfg['props']:
        if p[0] == 'nested':
            _, _, ix, inner = p
            karr = numpy.zeros(shape, dtype=int)
            for idx in numpy.ndindex(*shape):
                nact = (1 + (sum(idx) + salt) % len(inner)) if inner else 0     # at least one active component
                karr[idx] = nact
                for gi, grp in enumerate(inner):
                    for i in grp:
                        if gi >= nact:
                            vals[i][idx] = numpy.nan
                        else:
                            vals[i][idx] = abs(vals[i][idx]) % 3.5 + 0.2   # inside the birth box (0, 4)
            vals[ix] = karr
    for i in range(n):
        out[pname(i)] = vals[i]
    return out


# --------------------------------------------------------------------------
# walking the real object graph
# --------------------------------------------------------------------------

def gen_of(obj):
    """The generator object seated on `obj`, without triggering the lazy getter."""
    return getattr(obj, '__dict__', {}).get('_bit_generator')


def level_sites(chain):
    jp = chain.proposal_dist
    out = [('accept', (), gen_of(jp), jp)]
    for p in jp.proposals:
        if getattr(p, 'transdimensional', False):
            out.append(('tdChoice', (), gen_of(p), p))
            mp = p.model_proposal
            out.append(('modelIndex', tuple(mp.parameters), gen_of(mp), mp))
            for q in p.proposals:
                out.append(('jump', tuple(q.parameters), gen_of(q), q))
                b = q.birth_distribution
                out.append(('birth', tuple(b.parameters), gen_of(b), b))
        else:
            out.append(('jump', tuple(p.parameters), gen_of(p), p))
    return out


def chain_sites(ch):
    """Draw sites of a chain in the order of `Epsie.Streams.AnyChain.sites`:
    (kind, parameter names, generator object, site object)."""
    if hasattr(ch, 'chains'):
        out = []
        if ch.chains:
            out.append(('swap', (), gen_of(ch.chains[0].proposal_dist), ch))
        for lvl in ch.chains:
            out += level_sites(lvl)
        return out
    return level_sites(ch)


def chain_generator(ch):
    """`chain.bit_generator` as handed over by the sampler."""
    if hasattr(ch, 'chains'):
        return ch.__dict__.get('_bit_generator')
    return gen_of(ch.proposal_dist)


def gen_state_key(g):
    if g is None:
        return None
    ss = getattr(g, 'seed_seq', None)
    return (repr(getattr(ss, 'entropy', None)), repr(tuple(getattr(ss, 'spawn_key', ()))), repr(g.state))


def origin_of(g, seed):
    if g is None:
        return 'other'
    ss = getattr(g, 'seed_seq', None)
    key = tuple(getattr(ss, 'spawn_key', ()))
    if seed is not None and getattr(ss, 'entropy', None) == seed and len(key) == 1:
        return 'spawn %d' % key[0]
    return 'other'


def site_rows(sampler, names, seed):
    """Per chain: (kind, sorted parameter indices, generator class, stream class, origin).
    `seed`: the seed the *user* gave (None: the sampler made one up, every origin is `other`)."""
    gcls, scls = {}, {}
    rows = []
    for ch in sampler.chains:
        r = []
        for kind, pars, g, _ in chain_sites(ch):
            gk = None if g is None else id(g)
            gi = gcls.setdefault(gk, len(gcls))
            si = scls.setdefault(gen_state_key(g), len(scls))
            r.append((kind, sorted(names.index(p) for p in pars), gi, si, origin_of(g, seed)))
        rows.append(r)
    return rows


def order_rows(sampler, names):
    """Per chain: (kind, parameter indices in the order the site uses them)."""
    return [[(kind, [names.index(p) for p in pars]) for kind, pars, _, _ in chain_sites(ch)]
            for ch in sampler.chains]


_IMMUTABLE = (int, float, complex, str, bytes, bool, type(None), numpy.generic, range, slice,
              type(Ellipsis), type(NotImplemented))
_SKIP = (types.ModuleType, type, types.FunctionType, types.BuiltinFunctionType, types.MethodDescriptorType,
         types.WrapperDescriptorType, types.GetSetDescriptorType, types.MemberDescriptorType,
         numpy.ufunc, numpy.dtype, property, staticmethod, classmethod)


def reachable(root, exclude_ids):
    """Pickle-style traversal from `root`: id -> (object, attribute path) of every *mutable*
    object reachable (containers, arrays, instances, generators).  Not descended and not
    counted: the objects in `exclude_ids` (the user model), modules, classes, functions,
    immutable values, locks.  Tuples / frozensets are descended but not counted."""
    seen = {}
    visited = set()
    stack = [(root, '')]
    lock_types = ('lock', 'RLock', '_thread.lock', '_thread.RLock')
    while stack:
        obj, path = stack.pop()
        oid = id(obj)
        if oid in visited or oid in exclude_ids:
            continue
        if isinstance(obj, _IMMUTABLE) or isinstance(obj, _SKIP):
            continue
        if type(obj).__name__ in lock_types or type(obj).__module__ == '_thread':
            continue
        visited.add(oid)
        children = []
        if isinstance(obj, (tuple, frozenset)):
            children = [(x, path) for x in obj]
        elif isinstance(obj, types.MethodType):
            children = [(obj.__self__, path)]
        else:
            seen[oid] = (obj, path)
            if isinstance(obj, dict):
                for k, v in obj.items():
                    children.append((k, path))
                    children.append((v, '%s[%s]' % (path, k if isinstance(k, str) else type(k).__name__)))
            elif isinstance(obj, (list, set)):
                children = [(x, path + '[]') for x in obj]
            elif isinstance(obj, numpy.ndarray):
                if obj.dtype == object:
                    children = [(x, path + '[]') for x in obj.ravel().tolist()]
            elif isinstance(obj, numpy.random.BitGenerator) or isinstance(obj, numpy.random.Generator) \
                    or isinstance(obj, numpy.random.RandomState):
                children = []
            else:
                d = getattr(obj, '__dict__', None)
                if isinstance(d, dict):
                    for k, v in d.items():
                        children.append((v, '%s.%s' % (path, k)))
                for cls in type(obj).__mro__:
                    for slot in getattr(cls, '__slots__', ()) or ():
                        if isinstance(slot, str) and hasattr(obj, slot) and slot not in ('__dict__', '__weakref__'):
                            try:
                                children.append((getattr(obj, slot), '%s.%s' % (path, slot)))
                            except AttributeError:
                                pass
        stack.extend(children)
    return seen


def cross_chain(sampler):
    """Mutable objects reachable from two different chains: list of (kind, type name, path),
    entry points of the sharing only (objects referenced from a chain-private object)."""
    import epsie
    from epsie.proposals.base import BaseRandom
    # excluded: the user model, and numpy's module-level RandomState singleton, which every scipy
    # frozen distribution made at run time references (`rv_generic._random_state`).  Whether anybody
    # *draws* from it is decided elsewhere: the scan table (no `.rvs(` without random_state, no
    # numpy.random.* call) and the draw log (global generator state unchanged by stepping).
    excl = {id(sampler.model), id(numpy.random.mtrand._rand)}
    per = [reachable(ch, excl) for ch in sampler.chains]
    shared = {}
    for i in range(len(per)):
        for j in range(i + 1, len(per)):
            for oid in per[i].keys() & per[j].keys():
                shared.setdefault(oid, per[i][oid])
    # entry points: shared objects whose path is not an extension of another shared object's path
    out = []
    paths = sorted({p for _, p in shared.values()})
    for oid, (obj, path) in shared.items():
        if any(path != q and path.startswith(q) and path[len(q):len(q) + 1] in '.[' for q in paths):
            continue
        if isinstance(obj, BaseRandom):
            kind = 'proposal'
        elif isinstance(obj, epsie.BIT_GENERATOR) or isinstance(obj, numpy.random.BitGenerator):
            kind = 'bit_generator'
        elif path.endswith('adaptive_annealer'):
            kind = 'annealer'
        else:
            kind = type(obj).__name__
        out.append((kind, type(obj).__name__, path))
    return sorted(set(out))


# --------------------------------------------------------------------------
# the three measured facts
# --------------------------------------------------------------------------

class HashedStr(str):
    """A parameter name whose hash the harness chooses (set iteration order then is
    the order of the hashes for small sets)."""

    def __new__(cls, s, h):
        o = super().__new__(cls, s)
        o._h = h
        return o

    def __hash__(self):
        return self._h

    def __eq__(self, other):
        return str.__eq__(self, other)

    def __ne__(self, other):
        return str.__ne__(self, other)


def probe_default_order():
    """hashSet | asGiven | sorted | other(<observations>)"""
    from epsie.samplers import MetropolisHastingsSampler
    names = ['pb', 'pa', 'pc']
    obs = []
    for hashes in ([1, 2, 3], [3, 2, 1], [2, 3, 1]):
        params = [HashedStr(n, h) for n, h in zip(names, hashes)]
        s = object.__new__(MetropolisHastingsSampler)
        s.parameters = params
        s.set_proposals(None)
        got = [str(p) for p in s.proposals[-1].parameters]
        by_hash = [n for _, n in sorted(zip(hashes, names))]
        obs.append((got, by_hash))
    if all(g == names for g, _ in obs):
        return 'asGiven', None
    if all(g == sorted(names) for g, _ in obs):
        return 'sorted', None
    if all(g == b for g, b in obs):
        return 'hashSet', None
    return 'hashSet', 'default-order probe: unrecognised ordering %r' % ([g for g, _ in obs],)


def probe_reseats_inner():
    """Does seating a generator through JointProposal reach everything inside a
    NestedTransdimensional?  Returns (bool, error or None)."""
    import epsie
    from epsie import proposals as P
    inner = [P.Normal(['a1']), P.Normal(['a2'])]
    births = [P.UniformBirth(['a1'], {'a1': (0., 1.)}), P.UniformBirth(['a2'], {'a2': (0., 1.)})]
    mp = P.BoundedDiscrete(['k'], boundaries={'k': (0, 2)}, successive={'k': True})
    td = P.NestedTransdimensional(['a1', 'a2', 'k'], mp, inner, births)
    g = epsie.create_bit_generator(12345)
    P.JointProposal(td, bit_generator=g)
    objs = [td.model_proposal] + list(td.proposals) + [q.birth_distribution for q in td.proposals]
    follow = [gen_of(o) is g for o in objs]
    if gen_of(td) is not g:
        return False, 'reseat probe: JointProposal did not seat its generator on the nested proposal itself'
    if all(follow):
        return True, None
    if not any(follow):
        return False, None
    return False, 'reseat probe: only part of the nested proposal follows the generator: %r' % (follow,)


def probe_annealer_per_chain():
    from epsie.samplers import ParallelTemperedSampler
    from epsie.chain.ptchain import DynamicalAnnealer
    ann = DynamicalAnnealer()
    s = ParallelTemperedSampler(['x'], QuadModel(['x']), 3, numpy.array([1.0, 0.5, 0.25]),
                                adaptive_annealer=ann, seed=1)
    ids = [id(c.adaptive_annealer) for c in s.chains]
    if len(set(ids)) == len(ids):
        return True, None
    if len(set(ids)) == 1:
        return False, None
    return False, 'annealer probe: some chains share an annealer, some do not'


def measure_variant():
    errs = []
    order, e = probe_default_order()
    if e:
        errs.append(e)
    try:
        reseat, e = probe_reseats_inner()
    except Exception as ex:            # the probe itself failed: recorded, decided by the obligations
        reseat, e = False, 'reseat probe raised %r' % (ex,)
    if e:
        errs.append(e)
    try:
        per_chain, e = probe_annealer_per_chain()
    except Exception as ex:
        per_chain, e = False, 'annealer probe raised %r' % (ex,)
    if e:
        errs.append(e)
    return {'defaultOrder': order, 'reseatsInner': reseat, 'annealerPerChain': per_chain}, errs


def lean_variant(v):
    return '{ defaultOrder := .%s, reseatsInner := %s, annealerPerChain := %s }' % (
        v['defaultOrder'], lbool(v['reseatsInner']), lbool(v['annealerPerChain']))


# --------------------------------------------------------------------------
# the sampler kinds of the table
# --------------------------------------------------------------------------

TABLE_CFGS = [
    ('mh', {'nparams': 3, 'props': [('plain', [0], False), ('plain', [1], True)], 'kind': ('mh',),
            'nchains': 3, 'seed': 11}),
    ('mh-two-defaulted', {'nparams': 3, 'props': [('plain', [1], False)], 'kind': ('mh',),
                          'nchains': 2, 'seed': 5}),
    ('pt', {'nparams': 2, 'props': [('plain', [0, 1], False)], 'kind': ('pt', 3, False),
            'nchains': 2, 'seed': 11}),
    ('pt-dynamical-annealer', {'nparams': 2, 'props': [('plain', [0], False)], 'kind': ('pt', 3, True),
                               'nchains': 3, 'seed': 7}),
    ('transdimensional-mh', {'nparams': 5, 'props': [('nested', None, 4, [[1], [2], [3]])], 'kind': ('mh',),
                             'nchains': 2, 'seed': 11}),
    ('transdimensional-pt', {'nparams': 4, 'props': [('nested', None, 3, [[1], [2]]), ('plain', [0], False)],
                             'kind': ('pt', 2, False), 'nchains': 2, 'seed': 11}),
    ('transdimensional-int-seed-pt-annealer', {'nparams': 3, 'props': [('nested', 99, 2, [[0], [1]])],
                                               'kind': ('pt', 3, True), 'nchains': 2, 'seed': 3}),
    ('mh-unseeded', {'nparams': 1, 'props': [], 'kind': ('mh',), 'nchains': 2, 'seed': None}),
]

KIND_TAG = {'accept': '.accept', 'swap': '.swap', 'jump': '.jump', 'tdChoice': '.tdChoice',
            'modelIndex': '.modelIndex', 'birth': '.birth'}


def lean_site(r):
    kind, pars, g, s, origin = r
    return '⟨%s, %s, %d, %d, .%s⟩' % (KIND_TAG[kind], lnats(pars), g, s, origin)


def measure_rows():
    rows, errs = [], []
    for name, cfg in TABLE_CFGS:
        try:
            s, info = build_real(cfg)
            sites = site_rows(s, info['names'], cfg['seed'])
            cc = cross_chain(s)
            rows.append((name, cfg, sites, sorted({k for k, _, _ in cc}), cc))
        except Exception as ex:
            errs.append('sampler kind %s could not be built/walked: %r' % (name, ex))
    return rows, errs


# --------------------------------------------------------------------------
# ast scan
# --------------------------------------------------------------------------

# Benign sites, each with its justification.  Key: (file, function, kind, detail).
ALLOW = {
    ('epsie/chain/ptchain.py', 'bit_generator', 'entropy-call', 'create_bit_generator:noseed'):
        'setter of ParallelTemperedChain.bit_generator: only reached when a PT chain is constructed '
        'without a generator; both samplers always pass one (re-checked on every run by the draw-site '
        'rows: the generator of every PT chain has origin spawn i)',
}

ORDER_INSENSITIVE = {'len', 'set', 'frozenset', 'sorted', 'any', 'all', 'bool', 'isinstance', 'min', 'max',
                     'set.union', 'set.intersection', 'set.difference', 'set.issubset', 'set.issuperset',
                     'frozenset.union'}
ENTROPY_HELPERS = {'create_seed', 'create_bit_generator', 'create_bit_generators'}
NUMPY_RANDOM_OK = {'Generator', 'SeedSequence', 'PCG64', 'PCG64DXSM', 'Philox', 'SFC64', 'MT19937',
                   'BitGenerator'}
ENTROPY_CALLS = {'os.urandom', 'time.time', 'time.time_ns', 'time.perf_counter', 'time.monotonic',
                 'os.getpid', 'uuid.uuid1', 'uuid.uuid4', 'datetime.now', 'datetime.datetime.now',
                 'secrets.token_bytes', 'secrets.randbits', 'random.SystemRandom'}


def dotted(n):
    if isinstance(n, ast.Name):
        return n.id
    if isinstance(n, ast.Attribute):
        b = dotted(n.value)
        return (b + '.' + n.attr) if b else None
    return None


def is_setexpr(e, local):
    if isinstance(e, (ast.Set, ast.SetComp)):
        return True
    if isinstance(e, ast.Call):
        fn = dotted(e.func)
        if fn in ('set', 'frozenset', 'set.union', 'set.intersection', 'set.difference'):
            return True
        if isinstance(e.func, ast.Attribute) and e.func.attr in ('union', 'intersection', 'difference',
                                                                 'symmetric_difference') \
                and is_setexpr(e.func.value, local):
            return True
    if isinstance(e, ast.BinOp) and isinstance(e.op, (ast.Sub, ast.BitOr, ast.BitAnd, ast.BitXor)):
        return is_setexpr(e.left, local) or is_setexpr(e.right, local)
    if isinstance(e, ast.Name) and local.get(e.id):
        return True
    return False


def src(node):
    try:
        return ast.unparse(node)
    except Exception:
        return '<expr>'


def seed_detail(call, fn):
    """`<helper>:noseed` when no seed is passed (or a literal None), else `<helper>:seed=<expr>`."""
    short = fn.split('.')[-1]
    arg = None
    pos = 1 if short == 'create_bit_generators' else 0
    if len(call.args) > pos:
        arg = call.args[pos]
    for k in call.keywords:
        if k.arg == 'seed':
            arg = k.value
    if arg is None or (isinstance(arg, ast.Constant) and arg.value is None):
        return '%s:noseed' % short
    return '%s:seed=%s' % (short, src(arg))


def scan_file(path, rel):
    sites = []
    try:
        tree = ast.parse(open(path).read())
    except SyntaxError as ex:
        return [(rel, '<module>', 'unparsable', str(ex), 0)]
    # imports of foreign random sources
    rng_aliases = set()
    for n in ast.walk(tree):
        if isinstance(n, ast.ImportFrom) and n.module in ('numpy.random', 'random', 'numpy.random.mtrand'):
            for a in n.names:
                if not (n.module.startswith('numpy.random') and a.name in NUMPY_RANDOM_OK):
                    sites.append((rel, '<module>', 'global-rng-import', '%s.%s' % (n.module, a.name), n.lineno))
        if isinstance(n, ast.Import):
            for a in n.names:
                if a.name == 'random':
                    rng_aliases.add(a.asname or 'random')

    def scan_scope(node, fname):
        local = {}
        body_nodes = list(ast.walk(node))
        # do not descend into nested function definitions twice: they are scanned as own scopes,
        # but their set-valued locals are found here too (harmless over-approximation)
        for n in body_nodes:
            if isinstance(n, ast.Assign) and len(n.targets) == 1 and isinstance(n.targets[0], ast.Name):
                if is_setexpr(n.value, local):
                    local[n.targets[0].id] = True
        for n in body_nodes:
            if isinstance(n, ast.For) and is_setexpr(n.iter, local):
                sites.append((rel, fname, 'iterates-set', src(n.iter), n.lineno))
            if isinstance(n, (ast.ListComp, ast.SetComp, ast.DictComp, ast.GeneratorExp)):
                for c in n.generators:
                    if is_setexpr(c.iter, local):
                        # a set comprehension / order-insensitive consumer of the result would be benign,
                        # but is flagged all the same: the allow-list has to say why
                        sites.append((rel, fname, 'iterates-set', src(c.iter), n.lineno))
            if isinstance(n, ast.Starred) and is_setexpr(n.value, local):
                sites.append((rel, fname, 'orders-set', '*' + src(n.value), n.lineno))
            if isinstance(n, ast.Call):
                fn = dotted(n.func) or (n.func.attr if isinstance(n.func, ast.Attribute) else None) or '<call>'
                if fn in ('hash', 'id'):
                    sites.append((rel, fname, 'uses-' + fn, src(n), n.lineno))
                if isinstance(n.func, ast.Attribute) and n.func.attr == 'pop' and not n.args \
                        and is_setexpr(n.func.value, local):
                    sites.append((rel, fname, 'set-pop', src(n.func.value), n.lineno))
                short = fn.split('.')[-1]
                if short in ENTROPY_HELPERS:
                    sites.append((rel, fname, 'entropy-call', seed_detail(n, fn), n.lineno))
                if short == 'SeedSequence' and not n.args and not any(k.arg == 'entropy' for k in n.keywords):
                    sites.append((rel, fname, 'entropy', 'SeedSequence()', n.lineno))
                if short == 'default_rng' and not n.args and not n.keywords:
                    sites.append((rel, fname, 'entropy', 'default_rng()', n.lineno))
                if short in ('PCG64', 'BIT_GENERATOR', 'Philox', 'SFC64', 'MT19937') and not n.args \
                        and not n.keywords:
                    sites.append((rel, fname, 'entropy', short + '()', n.lineno))
                if fn in ENTROPY_CALLS:
                    sites.append((rel, fname, 'entropy', fn, n.lineno))
                parts = fn.split('.')
                if len(parts) >= 3 and parts[-2] == 'random' and parts[0] in ('numpy', 'np') \
                        and parts[-1] not in NUMPY_RANDOM_OK:
                    if not (parts[-1] == 'default_rng' and (n.args or n.keywords)):
                        sites.append((rel, fname, 'global-rng', fn, n.lineno))
                if len(parts) == 2 and parts[0] in rng_aliases:
                    sites.append((rel, fname, 'global-rng', fn, n.lineno))
                if short == 'rvs' and not any(k.arg == 'random_state' for k in n.keywords):
                    sites.append((rel, fname, 'global-rng', src(n.func), n.lineno))
                # a set handed to something that will order it
                if fn not in ORDER_INSENSITIVE:
                    for a in list(n.args) + [k.value for k in n.keywords]:
                        if is_setexpr(a, local):
                            sites.append((rel, fname, 'orders-set', '%s(%s)' % (fn, src(a)), n.lineno))

    class V(ast.NodeVisitor):
        def visit_FunctionDef(self, node):
            scan_scope(node, node.name)
            # nested defs are covered by ast.walk above; do not recurse

        visit_AsyncFunctionDef = visit_FunctionDef

        def visit_ClassDef(self, node):
            for b in node.body:
                if isinstance(b, (ast.FunctionDef, ast.AsyncFunctionDef)):
                    self.visit_FunctionDef(b)
                elif isinstance(b, ast.ClassDef):
                    self.visit_ClassDef(b)
                else:
                    scan_scope(b, '<class %s>' % node.name)

    v = V()
    for b in tree.body:
        if isinstance(b, (ast.FunctionDef, ast.AsyncFunctionDef)):
            v.visit_FunctionDef(b)
        elif isinstance(b, ast.ClassDef):
            v.visit_ClassDef(b)
        else:
            scan_scope(b, '<module>')
    return sites


def scan_sites():
    """Sorted list of (file, func, kind, detail, allowed, [line numbers])."""
    root = os.path.join(common.REPO, 'epsie')
    found = {}
    for dp, dn, files in sorted(os.walk(root)):
        dn.sort()
        for f in sorted(files):
            if not f.endswith('.py') or f == '_version.py':
                continue
            path = os.path.join(dp, f)
            rel = os.path.relpath(path, common.REPO)
            for (a, b, c, d, line) in scan_file(path, rel):
                found.setdefault((a, b, c, d), []).append(line)
    return [(k[0], k[1], k[2], k[3], k in ALLOW, sorted(set(v))) for k, v in sorted(found.items())]


# --------------------------------------------------------------------------
# ast scan: class-level / module-level mutable state
# --------------------------------------------------------------------------
#
# An attribute bound in a class body (or a name bound at module level) to a mutable value is one
# object per *process*: every instance of the class (every chain's proposals, every sampler made in
# the process) reaches the same object, a deep copy or a pickle of an instance does not contain it,
# and a worker process has its own (as of the moment the worker was created).  The pickle-style
# traversal `reachable` above does not descend into classes and modules (pickle stores them by
# reference), so such an object is a sharing edge that the measured `crossChain` column cannot see.
# This scan lists every such attribute that the package *mutates*: through an instance
# (`self.X.update(..)`, `self.X[k] = v`, `self.X += ..`, `.append`, ...) without having rebound it on
# the instance earlier in the same function (`self.X = ...`), through the class (`cls.X..`,
# `type(self).X..`, `<Class>.X..`, including plain rebinding `cls.X = ..` of any class attribute), or
# through a local alias.  Attributes that are only read, or rebound per instance before they are
# changed, are not listed.

ALLOW_CLASS_STATE = {
    # (file of the mutation, owner, attribute, mutating function): 'justification'
}

MUTATORS = {'update', 'setdefault', 'pop', 'popitem', 'clear', 'append', 'extend', 'insert', 'remove', 'sort',
            'reverse', 'add', 'discard', 'difference_update', 'intersection_update',
            'symmetric_difference_update', 'appendleft', 'extendleft', 'popleft', 'rotate', 'fill', 'put',
            'itemset', 'resize', 'partition', 'setfield', 'setflags', 'byteswap', 'move_to_end',
            '__setitem__', '__delitem__', '__iadd__', '__ior__', '__imul__'}
IMMUTABLE_CALLS = {'tuple', 'frozenset', 'int', 'float', 'complex', 'str', 'bytes', 'bool', 'property',
                   'staticmethod', 'classmethod', 'namedtuple', 'collections.namedtuple', 'object', 'range',
                   'slice', 'type', 'abs', 'len', 'min', 'max', 'sum', 'round', 'getattr', 'super',
                   'numpy.float64', 'numpy.int64', 'numpy.log', 'numpy.exp', 'numpy.sqrt', 'float.fromhex',
                   'math.log', 'math.exp', 'math.sqrt', 're.compile', 'abstractmethod'}


def mutable_value(e):
    """None, or a short description of why the value of a class-level / module-level binding is a
    mutable object (literal containers, comprehensions, and every call that is not known to return
    an immutable value: dict(), list(), set(), numpy.zeros(..), defaultdict(..), SomeClass(), ...)."""
    if isinstance(e, ast.Dict):
        return 'dict literal'
    if isinstance(e, ast.List):
        return 'list literal'
    if isinstance(e, ast.Set):
        return 'set literal'
    if isinstance(e, (ast.ListComp, ast.DictComp, ast.SetComp)):
        return 'comprehension'
    if isinstance(e, ast.Call):
        fn = dotted(e.func) or '<call>'
        fn = fn.replace('np.', 'numpy.', 1) if fn.startswith('np.') else fn
        if fn in IMMUTABLE_CALLS:
            return None
        return 'call ' + fn
    if isinstance(e, ast.BinOp):
        return mutable_value(e.left) or mutable_value(e.right)
    if isinstance(e, ast.IfExp):
        return mutable_value(e.body) or mutable_value(e.orelse)
    return None


def _attr_chain(node):
    """Descend through subscripts / attributes / starred to the attribute accesses underneath:
    yields every ast.Attribute and the final ast.Name on the way down (outermost first)."""
    while True:
        if isinstance(node, ast.Attribute):
            yield node
            node = node.value
        elif isinstance(node, (ast.Subscript, ast.Starred)):
            node = node.value
        elif isinstance(node, ast.Name):
            yield node
            return
        else:
            return


def _is_class_ref(node, class_names):
    """`cls`, `type(x)`, `x.__class__`, or the name of a class of the package."""
    if isinstance(node, ast.Name):
        return node.id == 'cls' or node.id in class_names
    if isinstance(node, ast.Attribute):
        return node.attr == '__class__' or node.attr in class_names
    if isinstance(node, ast.Call):
        return dotted(node.func) == 'type' and len(node.args) == 1
    return False


def class_state_sites(repo=None):
    """Sorted list of (file, owner, attr, value text, mutation text, allowed, [lines])."""
    repo = repo or common.REPO
    root = os.path.join(repo, 'epsie')
    trees = []
    for dp, dn, files in sorted(os.walk(root)):
        dn.sort()
        for f in sorted(files):
            if not f.endswith('.py') or f == '_version.py':
                continue
            path = os.path.join(dp, f)
            rel = os.path.relpath(path, repo)
            try:
                trees.append((rel, ast.parse(open(path).read())))
            except SyntaxError:
                continue            # reported by scan_sites as `unparsable`
    # pass 1: class-level and module-level bindings
    class_names = set()
    class_attrs = {}                # attr -> [(file, class, value description or None, value text)]
    module_names = {}               # (file, name) -> (description, value text)
    for rel, tree in trees:
        for n in ast.walk(tree):
            if isinstance(n, ast.ClassDef):
                class_names.add(n.name)
                for b in n.body:
                    tv = []
                    if isinstance(b, ast.Assign):
                        tv = [(t, b.value) for t in b.targets]
                    elif isinstance(b, ast.AnnAssign) and b.value is not None:
                        tv = [(b.target, b.value)]
                    for t, v in tv:
                        for tt in (t.elts if isinstance(t, (ast.Tuple, ast.List)) else [t]):
                            if isinstance(tt, ast.Name):
                                class_attrs.setdefault(tt.id, []).append((rel, n.name, mutable_value(v), src(v)[:60]))
        for b in tree.body:
            tv = []
            if isinstance(b, ast.Assign):
                tv = [(t, b.value) for t in b.targets]
            elif isinstance(b, ast.AnnAssign) and b.value is not None:
                tv = [(b.target, b.value)]
            for t, v in tv:
                if isinstance(t, ast.Name) and mutable_value(v):
                    module_names[(rel, t.id)] = (mutable_value(v), src(v)[:60])
    mutable_attrs = {a: [d for d in defs if d[2]] for a, defs in class_attrs.items()}
    mutable_attrs = {a: d for a, d in mutable_attrs.items() if d}
    found = {}

    def hit(rel, fname, owner_file, owner, attr, value, how, line):
        found.setdefault((rel, owner_file, owner, attr, value, fname), []).append((line, how))

    def scan_function(rel, fn, qual, mod_mutables):
        nodes = [n for n in ast.walk(fn)]
        # instance rebinding `recv.X = ...` (plain assignment) : (receiver text, attr) -> first line
        rebound = {}
        local_names = {a.arg for a in fn.args.args + fn.args.kwonlyargs + fn.args.posonlyargs}
        declared_global = set()
        for n in nodes:
            if isinstance(n, ast.Global):
                declared_global |= set(n.names)
        for n in nodes:
            targets = []
            if isinstance(n, ast.Assign):
                targets = n.targets
            elif isinstance(n, ast.AnnAssign) and n.value is not None:
                targets = [n.target]
            elif isinstance(n, (ast.For, ast.comprehension)):
                targets = [n.target]
            elif isinstance(n, ast.With):
                targets = [i.optional_vars for i in n.items if i.optional_vars is not None]
            for t in targets:
                for tt in ast.walk(t):
                    if isinstance(tt, ast.Attribute) and isinstance(tt.ctx, ast.Store) and tt is t:
                        key = (src(tt.value), tt.attr)
                        rebound[key] = min(rebound.get(key, n.lineno), n.lineno)
                    if isinstance(tt, ast.Name) and isinstance(tt.ctx, ast.Store) and tt.id not in declared_global:
                        local_names.add(tt.id)
        # local aliases `d = recv.X` / `d = recv.X[k]` of a tracked attribute (or of a module-level mutable)
        aliases = {}
        for n in nodes:
            if isinstance(n, ast.Assign) and len(n.targets) == 1 and isinstance(n.targets[0], ast.Name):
                for a in _attr_chain(n.value):
                    if isinstance(a, ast.Attribute) and a.attr in mutable_attrs:
                        if (src(a.value), a.attr) not in rebound or rebound[(src(a.value), a.attr)] > n.lineno:
                            aliases[n.targets[0].id] = (a, n.lineno)
                        break

        def tracked(expr, line):
            """[(owner_file, owner, attr, value, via)] of the shared objects `expr` denotes (or is part of)."""
            out = []
            for a in _attr_chain(expr):
                if isinstance(a, ast.Attribute):
                    recv = a.value
                    if _is_class_ref(recv, class_names) and a.attr in class_attrs:
                        # through the class: shared whatever the value was bound to
                        for f_, c_, d_, v_ in class_attrs[a.attr]:
                            out.append((f_, 'class ' + c_, a.attr, v_, ''))
                        return out
                    if a.attr in mutable_attrs:
                        first = rebound.get((src(recv), a.attr))
                        if first is not None and first <= line:
                            return out          # rebound on this receiver earlier in the function
                        for f_, c_, d_, v_ in mutable_attrs[a.attr]:
                            out.append((f_, 'class ' + c_, a.attr, v_, ''))
                        return out
                elif isinstance(a, ast.Name):
                    if a.id in aliases and aliases[a.id][1] <= line:
                        al = aliases[a.id][0]
                        for f_, c_, d_, v_ in mutable_attrs[al.attr]:
                            out.append((f_, 'class ' + c_, al.attr, v_, 'alias %s = %s; ' % (a.id, src(al))))
                        return out
                    if a.id in mod_mutables and (a.id not in local_names or a.id in declared_global):
                        d_, v_ = mod_mutables[a.id]
                        out.append((rel, 'module', a.id, v_, ''))
                        return out
            return out

        for n in nodes:
            line = getattr(n, 'lineno', 0)
            if isinstance(n, (ast.Assign, ast.AugAssign, ast.AnnAssign, ast.Delete)):
                if isinstance(n, ast.Assign):
                    tgts = n.targets
                elif isinstance(n, ast.Delete):
                    tgts = n.targets
                else:
                    tgts = [n.target]
                flat = []
                for t in tgts:
                    flat += list(t.elts) if isinstance(t, (ast.Tuple, ast.List)) else [t]
                for t in flat:
                    if isinstance(t, ast.Subscript):
                        for o in tracked(t.value, line):
                            hit(rel, qual, o[0], o[1], o[2], o[3], o[4] + src(n)[:70], line)
                    elif isinstance(t, ast.Attribute):
                        # rebinding / augmented assignment of the attribute itself
                        if _is_class_ref(t.value, class_names) and t.attr in class_attrs:
                            for f_, c_, d_, v_ in class_attrs[t.attr]:
                                hit(rel, qual, f_, 'class ' + c_, t.attr, v_, src(n)[:70], line)
                        elif isinstance(n, ast.AugAssign) and t.attr in mutable_attrs:
                            first = rebound.get((src(t.value), t.attr))
                            if first is None or first > line:
                                for f_, c_, d_, v_ in mutable_attrs[t.attr]:
                                    hit(rel, qual, f_, 'class ' + c_, t.attr, v_, src(n)[:70], line)
                        elif isinstance(t.value, (ast.Attribute, ast.Subscript)):
                            # `self.X.field = v`: writes into the object X denotes
                            for o in tracked(t.value, line):
                                hit(rel, qual, o[0], o[1], o[2], o[3], o[4] + src(n)[:70], line)
                    elif isinstance(t, ast.Name) and isinstance(n, ast.AugAssign) and t.id not in declared_global:
                        for o in tracked(t, line):
                            hit(rel, qual, o[0], o[1], o[2], o[3], o[4] + src(n)[:70], line)
                    elif isinstance(t, ast.Name) and t.id in declared_global and not isinstance(n, ast.Delete):
                        # a module-level name rebound from inside a function: process-level state
                        # whatever its value
                        v_ = mod_mutables[t.id][1] if t.id in mod_mutables else '<module-level name>'
                        hit(rel, qual, rel, 'module', t.id, v_, 'global %s; %s' % (t.id, src(n)[:60]), line)
            if isinstance(n, ast.Call):
                if isinstance(n.func, ast.Attribute) and n.func.attr in MUTATORS:
                    for o in tracked(n.func.value, line):
                        hit(rel, qual, o[0], o[1], o[2], o[3], o[4] + src(n)[:70], line)
                for k in n.keywords:
                    if k.arg == 'out':
                        for o in tracked(k.value, line):
                            hit(rel, qual, o[0], o[1], o[2], o[3], o[4] + src(n)[:70], line)
                if dotted(n.func) in ('setattr', 'delattr') and n.args and _is_class_ref(n.args[0], class_names) \
                        and not (isinstance(n.args[0], ast.Name) and n.args[0].id in local_names
                                 and n.args[0].id != 'cls'):
                    attr = n.args[1].value if len(n.args) > 1 and isinstance(n.args[1], ast.Constant) else '<computed>'
                    hit(rel, qual, rel, 'class ' + src(n.args[0]), str(attr), '<set at run time>', src(n)[:70], line)

    for rel, tree in trees:
        mod_mutables = {name: v for (f, name), v in module_names.items() if f == rel}

        def visit(node, prefix):
            for b in ast.iter_child_nodes(node):
                if isinstance(b, (ast.FunctionDef, ast.AsyncFunctionDef)):
                    scan_function(rel, b, prefix + b.name, mod_mutables)      # nested defs: covered by ast.walk
                elif isinstance(b, ast.ClassDef):
                    visit(b, prefix + b.name + '.')
                elif isinstance(b, (ast.If, ast.Try, ast.With, ast.For, ast.While)):
                    visit(b, prefix)
        visit(tree, '')
    out = []
    for (rel, ofile, owner, attr, value, fname), hits in sorted(found.items()):
        how = '%s: %s: %s' % (rel, fname, min(hits)[1])          # one row per function: its first mutation
        key = (rel, owner, attr, fname)
        out.append((ofile, owner, attr, value, how, key in ALLOW_CLASS_STATE, sorted({l for l, _ in hits})))
    return sorted(out, key=lambda r: r[:5])


SELFTEST_SOURCE = '''
import numpy
from collections import defaultdict
REGISTRY = {}
READONLY = {'a': 1}
COUNT = 0
CACHE = []
def register(name, obj):
    REGISTRY[name] = obj
def lookup(name):
    return READONLY[name]
def bump():
    global COUNT
    COUNT += 1
def shadow():
    CACHE = []
    CACHE.append(1)
class A:
    readonly = {'x': 1}
    perinst = {}
    shared = {}
    lst = []
    arr = numpy.zeros(3)
    dd = defaultdict(list)
    tup = (1, 2)
    counter = 0
    viaalias = {}
    outarr = numpy.zeros(2)
    late = {}
    other = {}
    copied = {}
    def __init__(self):
        self.perinst = {}
        self.perinst['k'] = 1
        self.perinst.update(a=2)
        print(self.readonly['x'], self.readonly.get('x'), len(self.lst), sorted(self.lst))
    def m1(self):
        self.shared.update(a=1)
        self.lst.append(3)
        self.arr[0] = 1.0
        self.dd['k'].append(1)
        numpy.add(self.arr, 1, out=self.outarr)
    def m2(self):
        d = self.viaalias
        d['x'] = 1
    def m3(self):
        self.late['x'] = 1
        self.late = {}
    def m4(self):
        type(self).counter += 1
        self.__class__.tup = (3,)
    @classmethod
    def m5(cls):
        cls.other['k'] = 1
    def m7(self):
        self.tup = (4,)
        self.counter += 1
        for k, v in self.shared.items():
            pass
        y = self.copied.copy()
        y['q'] = 1
class B(A):
    def m(self):
        self.copied = dict(self.copied)
        self.copied['mine'] = 1
'''
SELFTEST_FLAGGED = {('module', 'REGISTRY'), ('module', 'COUNT'), ('class A', 'shared'), ('class A', 'lst'),
                    ('class A', 'arr'), ('class A', 'dd'), ('class A', 'outarr'), ('class A', 'viaalias'),
                    ('class A', 'late'), ('class A', 'counter'), ('class A', 'tup'), ('class A', 'other')}


def class_state_selftest():
    """The scan on a source whose answer is known: every kind of mutation it claims to see is seen,
    and reads / per-instance rebinding / copies / shadowing locals are not reported.  Returns an
    error text or None (goes to `probeErrors`: an obligation of C04_generated_no_probe_errors)."""
    import shutil
    tmp = tempfile.mkdtemp(prefix='classscan')
    try:
        os.makedirs(os.path.join(tmp, 'epsie'))
        with open(os.path.join(tmp, 'epsie', 'mod.py'), 'w') as fh:
            fh.write(SELFTEST_SOURCE)
        got = {(r[1], r[2]) for r in class_state_sites(tmp)}
    finally:
        shutil.rmtree(tmp, ignore_errors=True)
    if got != SELFTEST_FLAGGED:
        return 'class-state scan self-test: missed %s, wrongly reported %s' % (
            sorted(SELFTEST_FLAGGED - got), sorted(got - SELFTEST_FLAGGED))
    return None


def class_level_bindings():
    """For the evidence: how many class-level / module-level bindings the scan looked at."""
    n_cls = n_mut = 0
    root = os.path.join(common.REPO, 'epsie')
    for dp, dn, files in sorted(os.walk(root)):
        for f in sorted(files):
            if not f.endswith('.py'):
                continue
            try:
                tree = ast.parse(open(os.path.join(dp, f)).read())
            except SyntaxError:
                continue
            for n in ast.walk(tree):
                if isinstance(n, ast.ClassDef):
                    for b in n.body:
                        if isinstance(b, (ast.Assign, ast.AnnAssign)) and getattr(b, 'value', None) is not None:
                            n_cls += 1
                            n_mut += bool(mutable_value(b.value))
            for b in tree.body:
                if isinstance(b, (ast.Assign, ast.AnnAssign)) and getattr(b, 'value', None) is not None:
                    n_cls += 1
                    n_mut += bool(mutable_value(b.value))
    return {'class_and_module_level_bindings': n_cls, 'bound_to_a_mutable_value': n_mut}


# --------------------------------------------------------------------------

def render():
    variant, errs = measure_variant()
    rows, errs2 = measure_rows()
    errs += errs2
    sites = scan_sites()
    cstate = class_state_sites()
    e = class_state_selftest()
    if e:
        errs.append(e)
    out = ['-- GENERATED by harness/gen_sharing.py from the current /repo source. Do not edit.',
           'import EpsieModel.Streams', 'namespace Epsie.Generated.Sharing', 'open Epsie.Streams', '',
           '/-- which of the code variants of EpsieModel/Streams.lean /repo is today (measured) -/',
           'def variant : Variant := ' + lean_variant(variant), '',
           'def probeErrors : List String := ' + llist(lstr(e) for e in errs), '',
           '/-- draw sites by generator object / generator state, and cross-chain objects, of freshly',
           '    built real samplers -/',
           'def rows : List SamplerRow := [']
    rtxt = []
    for name, cfg, sites_, kinds, _ in rows:
        chains = ',\n      '.join(llist(lean_site(r) for r in ch) for ch in sites_)
        rtxt.append('  { name := %s,\n    cfg := %s,\n    chains := [\n      %s],\n    crossChain := %s }' % (
            lstr(name), lean_cfg(cfg), chains, llist(lstr(k) for k in kinds)))
    out.append(',\n'.join(rtxt))
    out += [']', '',
            '/-- every place in epsie/ that can consult an unordered container, the entropy pool or a',
            '    foreign random stream; `allowed` = on the justified allow-list of harness/gen_sharing.py -/',
            'def scanSites : List ScanSite := [',
            ',\n'.join('  { file := %s, func := %s, kind := %s, detail := %s, allowed := %s }' % (
                lstr(a), lstr(b), lstr(c), lstr(d), lbool(al)) for a, b, c, d, al, _ in sites),
            ']', '',
            '/-- every class-level (or module-level) attribute of epsie/ bound to a mutable value that the',
            '    package mutates through an instance (without rebinding it on the instance first), through',
            '    the class or through an alias: state shared by all objects of a process, not part of a',
            '    pickled / deep-copied object; `allowed` = on the justified allow-list of gen_sharing.py -/',
            'def classState : List ClassState := [',
            ',\n'.join('  { file := %s, owner := %s, attr := %s, value := %s, mutation := %s, allowed := %s }' % (
                lstr(a), lstr(b), lstr(c), lstr(d), lstr(e), lbool(al)) for a, b, c, d, e, al, _ in cstate),
            ']', '', 'end Epsie.Generated.Sharing', '']
    return '\n'.join(out), {'variant': variant, 'errors': errs, 'rows': rows, 'sites': sites,
                            'class_state': cstate, 'class_bindings': class_level_bindings()}


def main(quiet=False):
    """Write the table if its content changed. Returns (changed, info)."""
    with numpy.errstate(all='ignore'):
        text, info = render()
    os.makedirs(os.path.dirname(OUT), exist_ok=True)
    old = open(OUT).read() if os.path.exists(OUT) else None
    changed = old != text
    if changed:
        fd, tmp = tempfile.mkstemp(dir=os.path.dirname(OUT), prefix='.Sharing', suffix='.tmp')
        with os.fdopen(fd, 'w') as fh:
            fh.write(text)
        os.chmod(tmp, 0o644)
        os.replace(tmp, OUT)
    if not quiet:
        print('gen_sharing: variant=%s, %d sampler rows, %d scan sites (%d allowed), %d mutated class-level '
              'attributes, %d probe errors, %s' % (
                  ','.join('%s=%s' % kv for kv in sorted(info['variant'].items())), len(info['rows']),
                  len(info['sites']), sum(1 for s in info['sites'] if s[4]), len(info['class_state']),
                  len(info['errors']), 'rewritten' if changed else 'unchanged'))
    return changed, info


if __name__ == '__main__':
    import warnings
    warnings.filterwarnings('ignore')
    import logging
    logging.disable(logging.WARNING)
    main()
