"""Shared plumbing of the /verif checks: paths, tiers, Lean build/audit/driver,
evidence, replays, known findings, canonical number formatting.

All checks import epsie from /repo's *current working tree* (sys.path[0]).
"""
import fcntl
import hashlib
import json
import math
import os
import re
import subprocess
import sys
import time
from fractions import Fraction

VERIF = os.path.dirname(os.path.dirname(os.path.abspath(__file__)))
REPO = os.environ.get('EPSIE_REPO', '/repo')
LEAN_DIR = os.environ.get('EPSIE_LEAN_DIR', os.path.join(VERIF, 'lean'))
EVIDENCE_DIR = os.environ.get('EPSIE_EVIDENCE_DIR', os.path.join(VERIF, 'evidence'))
REPLAY_DIR = os.environ.get('EPSIE_REPLAY_DIR', os.path.join(VERIF, 'replays'))
CORPUS_DIR = os.path.join(VERIF, 'corpus')
KNOWN_FINDINGS = os.path.join(VERIF, 'known_findings.txt')
PY = '/venv/bin/python'

if REPO not in sys.path:
    sys.path.insert(0, REPO)

GENERATORS = ['gen_tables.py', 'gen_sharing.py', 'gen_alias.py', 'gen_source.py']
ALLOWED_AXIOMS = {'propext', 'Classical.choice', 'Quot.sound'}
FORBIDDEN_RE = re.compile(
    r'\bsorry\b|\badmit\b|^axiom\s|native_decide|bv_decide|implemented_by|'
    r'\bunsafe\s|maxHeartbeats\s+0', re.M)


def seed():
    try:
        return int(os.environ.get('VERIF_SEED', '0'))
    except ValueError:
        return 0


# --------------------------------------------------------------------------
# canonical numbers
# --------------------------------------------------------------------------

def frac(x):
    """Exact canonical text of a number as the Lean driver prints it."""
    import numpy
    if isinstance(x, (bool, numpy.bool_)):
        x = int(x)
    if isinstance(x, (int, numpy.integer)):
        return str(int(x))
    if isinstance(x, Fraction):
        f = x
    else:
        x = float(x)
        if math.isnan(x):
            return 'nan'
        if math.isinf(x):
            return 'inf' if x > 0 else '-inf'
        f = Fraction(x)
    if f.denominator == 1:
        return str(f.numerator)
    return '%d/%d' % (f.numerator, f.denominator)


def csv(vals):
    vals = list(vals)
    if not vals:
        return '-'
    return ','.join(frac(v) for v in vals)


def parse_frac(s):
    if s == 'nan':
        return float('nan')
    return Fraction(s)


def log_exact(u):
    """A rational within 1e-30 of ln(u) for a float u in (0, 1]."""
    from decimal import Decimal, getcontext
    getcontext().prec = 50
    if u <= 0.0:
        return Fraction(-10**6)      # log(0) = -inf: below every finite logar
    d = Decimal(u).ln()
    return Fraction(d).limit_denominator(10**40)


# --------------------------------------------------------------------------
# Lean: build, audit, driver
# --------------------------------------------------------------------------

class LeanResult:
    def __init__(self):
        self.ok = True
        self.log = ''
        self.failed_modules = []      # modules whose compilation failed
        self.axioms = {}              # theorem -> set of axioms
        self.forbidden = []           # grep hits
        self.theorems = []            # audited theorem names
        self.errors = []
        self.built = []
        self.wall = 0.0


def _lake(args, timeout=3600):
    env = dict(os.environ)
    env.pop('LEAN_PATH', None)
    return subprocess.run(['lake'] + args, cwd=LEAN_DIR, env=env,
                          stdout=subprocess.PIPE, stderr=subprocess.STDOUT,
                          text=True, timeout=timeout)


def lean_build(targets=None):
    """Regenerate the tables from /repo, `lake build` the given modules one by one, so
    that a failure is attributed to the module that carries the broken obligation.
    Serialised by a lock."""
    res = LeanResult()
    res.built = []
    t0 = time.time()
    os.makedirs(os.path.join(LEAN_DIR, '.lake'), exist_ok=True)
    lockf = open(os.path.join(LEAN_DIR, '.lake', 'verif.lock'), 'w')
    fcntl.flock(lockf, fcntl.LOCK_EX)
    try:
        for gen_script in GENERATORS:
            gp = os.path.join(VERIF, 'harness', gen_script)
            if not os.path.exists(gp):
                continue
            gen = subprocess.run([PY, gp], stdout=subprocess.PIPE, stderr=subprocess.STDOUT, text=True)
            res.log += gen.stdout
            if gen.returncode != 0:
                res.ok = False
                res.failed_modules.append(gen_script)
        if not res.ok:
            res.wall = time.time() - t0
            return res
        for tgt in (targets or [None]):
            p = _lake(['build'] + ([tgt] if tgt else []))
            res.log += p.stdout
            if p.returncode != 0:
                res.ok = False
                res.failed_modules.append(tgt or 'all')
                for m in re.finditer(r'^error: (.*)$', p.stdout, re.M):
                    res.errors.append(m.group(1)[:400])
            else:
                res.built.append(tgt or 'all')
    finally:
        fcntl.flock(lockf, fcntl.LOCK_UN)
        lockf.close()
    res.wall = time.time() - t0
    return res


def lean_grep():
    """Forbidden constructs in the Lean sources (comments stripped)."""
    hits = []
    for root, _, files in os.walk(LEAN_DIR):
        if '.lake' in root:
            continue
        for f in files:
            if not f.endswith('.lean'):
                continue
            path = os.path.join(root, f)
            src = open(path).read()
            src = re.sub(r'/-.*?-/', lambda m: '\n' * m.group(0).count('\n'), src, flags=re.S)
            src = re.sub(r'--.*', '', src)
            for m in FORBIDDEN_RE.finditer(src):
                line = src.count('\n', 0, m.start()) + 1
                hits.append('%s:%d: %s' % (os.path.relpath(path, VERIF), line, m.group(0).strip()))
    return hits


_AUDIT_CACHE = {}


def prop_modules(prop_id):
    """Lean modules that carry the obligations of a property: EpsieProps.<id> and,
    when present, EpsieProps.<id>Table (obligations about the generated tables)."""
    mods = []
    for f in sorted(os.listdir(os.path.join(LEAN_DIR, 'EpsieProps'))):
        # EpsieProps/<id>.lean, <id>Table.lean (generated tables), <id>Source*.lean (source ties)
        if f.endswith('.lean') and re.fullmatch(re.escape(prop_id) + r'(Table|Source\w*)?', f[:-5]):
            mods.append('EpsieProps.' + f[:-5])
    return mods


def lean_axioms(prop_id, built_modules=None):
    """`#print axioms` of every theorem named <prop_id>_* in the property's modules.
    Returns (dict theorem -> sorted axioms, raw output)."""
    names = []
    mods = [m for m in prop_modules(prop_id) if built_modules is None or m in built_modules]
    imports = ''
    for mod in mods:
        path = os.path.join(LEAN_DIR, *mod.split('.')) + '.lean'
        src = open(path).read()
        src_nc = re.sub(r'/-.*?-/', '', src, flags=re.S)
        src_nc = re.sub(r'--.*', '', src_nc)
        found = re.findall(r'^\s*theorem\s+(%s_\w+)' % prop_id, src_nc, re.M)
        ns = re.search(r'^namespace\s+(\S+)', src_nc, re.M)
        prefix = (ns.group(1) + '.') if ns else ''
        names += [(prefix, n) for n in found]
        imports += 'import %s\n' % mod
    if not names:
        return {}, 'no theorems found for ' + prop_id
    body = imports + ''.join('#print axioms %s%s\n' % (pre, n) for pre, n in names)
    tmp = os.path.join(LEAN_DIR, '.lake', 'audit_%s_%d.lean' % (prop_id, os.getpid()))
    with open(tmp, 'w') as fh:
        fh.write(body)
    try:
        p = _lake(['env', 'lean', tmp])
    finally:
        os.unlink(tmp)
    out = p.stdout
    axioms = {}
    for m in re.finditer(r"'([^']+)' depends on axioms: \[([^\]]*)\]", out, re.S):
        axioms[m.group(1).split('.')[-1]] = sorted(a.strip() for a in m.group(2).split(',') if a.strip())
    for m in re.finditer(r"'([^']+)' does not depend on any axioms", out):
        axioms[m.group(1).split('.')[-1]] = []
    for _, n in names:
        axioms.setdefault(n, ['<not reported: %s>' % out.strip()[:200]])
    return axioms, out


def leanchecker(modules, timeout=1800):
    """Independent re-check of the compiled .olean files (thorough tier). Returns (ok, output)."""
    if not modules:
        return True, ''
    p = _lake(['env', 'leanchecker'] + list(modules), timeout=timeout)
    return p.returncode == 0, p.stdout[-1500:]


def run_driver(lines, timeout=3600):
    """Feed protocol lines to the Lean driver; return its output lines."""
    env = dict(os.environ)
    p = subprocess.run(['lake', 'env', 'lean', '--run', 'Driver.lean'], cwd=LEAN_DIR,
                       input='\n'.join(lines) + '\n', stdout=subprocess.PIPE,
                       stderr=subprocess.PIPE, text=True, timeout=timeout, env=env)
    if p.returncode != 0:
        raise RuntimeError('Lean driver failed: ' + p.stderr[-2000:])
    return p.stdout.splitlines()


# --------------------------------------------------------------------------
# comparison of model output with real output
# --------------------------------------------------------------------------

def _ar_close(model_tok, real_tok, rtol=1e-9):
    """model: 0 | 1 | E<q> ; real: exact fraction text of the recorded float."""
    try:
        real = float(Fraction(real_tok))
    except (ValueError, ZeroDivisionError):
        return model_tok == real_tok
    if model_tok == '0':
        return real == 0.0
    if model_tok == '1':
        return real == 1.0
    if model_tok.startswith('E'):
        q = Fraction(model_tok[1:])
        want = math.exp(float(q)) if q > -745 else 0.0
        return abs(real - want) <= rtol * max(abs(want), 1e-300) or (want < 1e-300 and real < 1e-300)
    return model_tok == real_tok


def lines_agree(model_line, real_line):
    """Token-wise comparison; `ar=`/`ars=` tokens numerically (the only transcendental values)."""
    if model_line == real_line:
        return True
    a, b = model_line.split(' '), real_line.split(' ')
    if len(a) != len(b):
        return False
    for x, y in zip(a, b):
        if x == y:
            continue
        if x.startswith('ar=') and y.startswith('ar='):
            if not _ar_close(x[3:], y[3:]):
                return False
        elif x.startswith('nev=') and y.startswith('nev<='):
            if not int(x[4:]) >= int(y[5:]):
                return False
        elif x.startswith('ars=') and y.startswith('ars='):
            xs, ys = x[4:].split(','), y[4:].split(',')
            if len(xs) != len(ys) or not all(_ar_close(p, q) for p, q in zip(xs, ys)):
                return False
        else:
            return False
    return True


def first_divergence(model_lines, real_lines):
    """Index and pair of the first disagreeing output line, or None."""
    n = max(len(model_lines), len(real_lines))
    for i in range(n):
        m = model_lines[i] if i < len(model_lines) else '<model output ended>'
        r = real_lines[i] if i < len(real_lines) else '<real output ended>'
        if not lines_agree(m, r):
            return i, m, r
    return None


# --------------------------------------------------------------------------
# replays, known findings, evidence
# --------------------------------------------------------------------------

def write_replay(prop_id, payload):
    os.makedirs(REPLAY_DIR, exist_ok=True)
    blob = json.dumps(payload, sort_keys=True, default=str)
    h = hashlib.sha1(blob.encode()).hexdigest()[:12]
    path = os.path.join(REPLAY_DIR, '%s-%s.json' % (prop_id, h))
    payload = dict(payload)
    payload.setdefault('property', prop_id)
    with open(path, 'w') as fh:
        json.dump(payload, fh, indent=1, sort_keys=True, default=str)
    return os.path.relpath(path, VERIF)


def load_known_findings():
    """Lines `finding: property=<id> key=<key> <text>`; `fixed:` lines suppress nothing."""
    out = {}
    if not os.path.exists(KNOWN_FINDINGS):
        return out
    for line in open(KNOWN_FINDINGS):
        line = line.strip()
        m = re.match(r'finding:\s+property=(\S+)\s+key=(\S+)\s+(.*)', line)
        if m:
            out.setdefault(m.group(1), {})[m.group(2)] = m.group(3)
    return out


class Check:
    """Collects what one run of one property's check did, and reports."""

    def __init__(self, prop_id, tier):
        self.prop = prop_id
        self.tier = tier
        self.t0 = time.time()
        self.seed = seed()
        self.violations = []       # (key, text, replay-payload, found_input)
        self.known_hit = []
        self.coverage = {}
        self.assumptions = []
        self.obligations = []      # (name, discharged:bool)
        self.samples = []
        self.notes = []
        self.known = load_known_findings().get(prop_id, {})

    # ---- proof side
    def lean(self, build_result, extra_obligations=()):
        """Record the Lean obligations of this property: every <id>_* theorem must be
        compiled and depend on allowed axioms only; forbidden constructs: none."""
        self.build = build_result
        ax, raw = ({}, '')
        if build_result.built:
            ax, raw = lean_axioms(self.prop, build_result.built)
        self.axioms = ax
        forb = lean_grep()
        for name, axs in sorted(ax.items()):
            good = set(axs) <= ALLOWED_AXIOMS
            self.obligations.append((name, good, axs))
        for name, good in extra_obligations:
            self.obligations.append((name, good, []))
        self.forbidden = forb
        gen_lines = [ln.strip() for ln in (build_result.log or '').splitlines() if ln.strip().startswith('gen_source:')]
        if gen_lines:
            self.coverage['source_translation'] = {
                'translator': 'harness/gen_source.py (Python AST of the kernels listed in its KERNELS table -> '
                              'lean/EpsieModel/Generated/Source.lean, regenerated from /repo on this run)',
                'status': gen_lines,
                'tie_modules': [m for m in prop_modules(self.prop) if 'Source' in m]}
        if forb:
            self.obligations.append(('no-forbidden-constructs', False, forb[:5]))
        for mod in build_result.failed_modules:
            self.obligations.append(('lake build ' + str(mod), False, build_result.errors[:3]))
        return build_result.ok and not forb and all(o[1] for o in self.obligations)

    def broken_obligations(self):
        return [o for o in self.obligations if not o[1]]

    # ---- reporting
    def violation(self, key, text, payload, found_input=True):
        """A property violation. `key` identifies the failing input/call site for the
        known-findings file."""
        if key in self.known:
            if key not in self.known_hit:
                self.known_hit.append(key)
                print('KNOWN-FINDING: property=%s %s' % (self.prop, self.known[key]))
            return
        payload = dict(payload)
        payload['property'] = self.prop
        payload['key'] = key
        payload['what'] = text
        payload['kind'] = 'failing-input' if found_input else 'no-failing-input-found'
        path = write_replay(self.prop, payload)
        self.violations.append((key, text, path, found_input))

    def finish(self, level='proof'):
        n_obl = len(self.obligations)
        n_dis = sum(1 for o in self.obligations if o[1])
        cov = dict(self.coverage)
        cov.setdefault('obligations', n_obl)
        cov.setdefault('discharged', n_dis)
        cov.setdefault('checker_cmd', 'cd lean && lake build && lake env lean <#print axioms of every %s_* theorem>' % self.prop)
        cov.setdefault('trusted_base', [
            'Lean 4.33.0 kernel', 'Mathlib v4.33.0 (single modules)',
            'axioms: propext, Classical.choice, Quot.sound only',
            'hand-written model tied to /repo by the correspondence suites and generated tables run in this check',
            'harness: scripted/logging generator, canonicalisation, Lean driver parser/printer'])
        cov['obligation_list'] = [{'name': o[0], 'discharged': o[1], 'axioms': o[2]} for o in self.obligations]
        cov.setdefault('samples', self.samples[:8] or ['<none>'])
        cov.setdefault('evaluations', cov.get('evaluations', 0))
        cov['known_findings_hit'] = self.known_hit
        cov['notes'] = self.notes
        ev = {
            'property_id': self.prop, 'tier': self.tier, 'seed': self.seed,
            'level': level, 'coverage': cov, 'assumptions': self.assumptions,
            'wall_s': round(time.time() - self.t0, 3), 'violations': len(self.violations),
        }
        os.makedirs(EVIDENCE_DIR, exist_ok=True)
        with open(os.path.join(EVIDENCE_DIR, self.prop + '.json'), 'w') as fh:
            json.dump(ev, fh, indent=1, sort_keys=True, default=str)
        for key, text, path, found in self.violations:
            tail = '' if found else ' no-failing-input-found'
            print('VIOLATION property=%s replay=%s%s' % (self.prop, path, tail))
            print('  ' + text)
        if not self.violations:
            print('OK property=%s tier=%s obligations=%d/%d wall=%.1fs' % (
                self.prop, self.tier, n_dis, n_obl, time.time() - self.t0))
        return 1 if self.violations else 0
