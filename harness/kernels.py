"""Failing-input searches for C01 / C03 on the REAL code, independent of the Lean model.

(i)   acceptance_oracle   every step of seeded runs of real chains (all proposal families, joint
      mixes over disjoint parameters, adaptive ones in whatever state the history left them,
      beta in {0, 1/8, .., 1}, blobs on/off, prior holes):  the recorded `acceptance_ratio` is
      compared with  min(1, exp(dlogp + beta*dlogl) * r),  dlogp/dlogl from a *second, pure*
      instance of the user model evaluated at x and x', r the ratio of the densities the
      constituents report for the move (queried on copies taken right before `update`; whether
      a reported density is the law of the jumps is property C02).  Also: zero prior => ar = 0
      and rejected; accepted <=> u <= ar for the uniform the step drew (the generator is a
      logging stand-in); a rejected step repeats position, stats and blob; an accepted one
      records x' with the pure model's outputs.
(ii)  exact_kernel        bounded-discrete / discrete proposals on lattices of 3..8 points: the
      jump law q(x, .) is measured by pushing an exhaustive quantile grid of N standard normals
      through the real `_jump` (the map z -> x' is monotone, so every cell is an interval of
      quantiles and its count is off by at most 2; through a rejection loop of acceptance
      count A the cell probabilities are off by at most (2 + 2K)/A), the acceptance ratio of
      every move is read off a real `Chain.step()` scripted to land on it; checked:
      f_x P_xy = f_y P_yx and f P = f for f = p L^beta, beta in {0, 1/4, 1}, within the
      tolerance the counting bound gives.
(iii) sweep_kernel        real `ParallelTemperedChain.step()` (level steps forced to reject, then
      the real `swap_temperatures()`) on every configuration of 3 states over n levels and every
      vector of scripted accept/reject uniforms: the exact kernel K(c, .) = sum over the decision
      paths (decoded from the recorded swap index) of the product of the recorded ratios
      ar / (1 - ar); checked: rows sum to 1 and pi K = pi to 1e-12 for
      pi(c) = prod_t p(c_t) L(c_t)^beta_t with the betas of the *levels*.

No statistical test anywhere; every tolerance is a proved bound or float rounding (1e-9
relative on well-conditioned values, 1e-12 on sums of at most a few thousand terms).
"""
import copy
import itertools
import math
import random
from fractions import Fraction

import numpy
from scipy import special

import common
import families as F
import instrument as I
import scripted_rng as R

from epsie.chain.chain import Chain
from epsie.chain.ptchain import ParallelTemperedChain
from epsie import proposals as P

DYADIC_BETAS = [0.0, 0.125, 0.25, 0.375, 0.5, 0.625, 0.75, 0.875, 1.0]
RTOL = 1e-9
MAX_FINDINGS = 3          # distinct failing inputs reported per search (the first ones found)


def _feq(a, b):
    a, b = float(a), float(b)
    return a == b or (math.isnan(a) and math.isnan(b))


# --------------------------------------------------------------------------
# (i) acceptance oracle
# --------------------------------------------------------------------------

class OracleCase:
    def __init__(self):
        self.params = []
        self.props = []
        self.prop_seed = 0
        self.beta = 1.0
        self.model_kind = 'quad'
        self.blobs = False
        self.holes = {}
        self.start = {}
        self.steps = 10
        self.seed = 0

    def describe(self):
        return {'search': 'acceptance-oracle', 'params': self.params, 'props': self.props,
                'prop_seed': self.prop_seed, 'beta': self.beta, 'model': self.model_kind,
                'blobs': self.blobs, 'holes': self.holes, 'start': self.start, 'steps': self.steps,
                'seed': self.seed, 'pt_betas': getattr(self, 'pt_betas', None),
                'pt_swap_interval': getattr(self, 'pt_swap_interval', 1), 'pt_dynamic': getattr(self, 'pt_dynamic', False)}

    @staticmethod
    def from_description(d):
        c = OracleCase()
        c.params = [tuple(p[:2]) + (tuple(p[2]) if p[2] is not None else None,) for p in d['params']]
        c.props = [(f, list(ps), dict(kw)) for f, ps, kw in d['props']]
        c.holes = {k: tuple(v) for k, v in d['holes'].items()}
        for k in ('prop_seed', 'beta', 'blobs', 'start', 'steps', 'seed'):
            setattr(c, k, d[k])
        c.model_kind = d['model']
        c.pt_betas = d.get('pt_betas')
        c.pt_swap_interval = d.get('pt_swap_interval', 1)
        c.pt_dynamic = d.get('pt_dynamic', False)
        return c


def gen_oracle_case(rng, families=None, steps=12):
    c = OracleCase()
    fams = list(families or F.FAMILIES)
    nprops = rng.choice([1, 1, 2, 2, 3])
    srng = random.Random(rng.randrange(1 << 30))
    pi = 0
    for _ in range(nprops):
        fam = rng.choice(fams)
        cls, kind, lo, hi = F.FAMILIES[fam]
        n = rng.randint(lo, hi)
        names = []
        for j in range(n):
            name = 'p%d' % pi
            pi += 1
            dom = F.domain_for(kind, rng, j)
            c.params.append((name, kind if kind != 'sphere' else 'sphere%d' % j, dom))
            c.start[name] = F.start_value(kind, dom, srng, j if kind == 'sphere' else 0)
            if kind == 'real' and rng.random() < 0.5:
                c.holes[name] = (-1.5, 1.5)
            if kind == 'int' and rng.random() < 0.5:
                c.holes[name] = (-4, 4)
            names.append(name)
        kw = {'window': rng.randint(3, 9), 'start_step': rng.choice([1, 1, 2])}
        if rng.random() < 0.3:
            kw['jump_interval'] = rng.choice([2, 3])
        c.props.append((fam, names, kw))
    c.prop_seed = rng.randrange(1 << 30)
    c.beta = rng.choice(DYADIC_BETAS)
    c.model_kind = rng.choice(['quad', 'quad', 'slope', 'needle', 'flat'])
    c.blobs = rng.random() < 0.4
    c.steps = steps
    c.seed = rng.randrange(1 << 30)
    return c


def _make_model(c):
    box = {name: dom for name, kind, dom in c.params if kind in ('box', 'intbox')}
    box.update(c.holes)
    return I.LoggedModel([p[0] for p in c.params], kind=c.model_kind, blobs=c.blobs, box=box)


def _verify_step(chain, pnames, ref, x, sx, bx, u, snap, beta, it, bump, bad, level=None):
    """One real step of `chain` (a Chain, possibly a temperature level BEFORE the swap of that
    iteration) against the closed form.  x, sx, bx: position, stats, blob before the step; u: the
    acceptance uniform (None if none was drawn); snap: the proposals as they were when the move was made."""
    xp = {p: chain.proposed_position[p] for p in pnames}
    acc = chain.acceptance[-1]
    ar, accepted = float(acc['acceptance_ratio']), bool(acc['accepted'])
    rx, rxp = ref(**x), ref(**xp)
    bump('steps')
    detail = {'iteration': it + 1, 'x': {k: float(v) for k, v in x.items()},
              'xprime': {k: float(v) for k, v in xp.items()}, 'beta': beta,
              'recorded_ar': ar, 'recorded_accepted': accepted, 'uniform': u, 'level': level}
    if not (_feq(sx['logl'], rx[0]) and _feq(sx['logp'], rx[1])):
        bad('stale-stats', 'current stats are not the model outputs at the current position', detail)
    # ---- expected acceptance probability
    lr_sum = 0.0
    reported = []
    for pr in snap:
        if pr.symmetric:
            continue
        bx_ = {p: x[p] for p in pr.parameters}
        bxp = {p: xp[p] for p in pr.parameters}
        if all(_feq(bx_[p], bxp[p]) for p in pr.parameters):
            continue                        # block copied or unchanged: ratio 1
        rev = float(pr._logpdf(bx_, bxp))   # log q(x | x')
        fwd = float(pr._logpdf(bxp, bx_))   # log q(x' | x)
        reported.append((pr.name, rev, fwd))
        lr_sum += rev - fwd
    detail['reported_logq'] = reported
    if rxp[1] == -numpy.inf:
        bump('forced')
        want = 0.0
        if ar != 0.0 or accepted:
            bad('zero-prior', 'a proposal of zero prior probability was not rejected with ar = 0',
                dict(detail, expected_ar=0.0))
        if u is not None:
            bump('forced_but_drew')
    else:
        logar = (Fraction(float(rxp[1])) + Fraction(float(rxp[0])) * Fraction(beta)
                 - Fraction(float(rx[1])) - Fraction(float(rx[0])) * Fraction(beta))
        if math.isnan(lr_sum):
            bump('nan_density')
            return 'stop'
        tot = float(logar) + lr_sum
        want = 1.0 if tot > 0 else math.exp(tot)
        detail['expected_ar'] = want
        detail['expected_logar'] = tot
        scale = abs(float(logar)) + sum(abs(r) + abs(f) for _, r, f in reported)
        if scale < 1e4:                     # well conditioned: rounding of logar < 1e-11
            if abs(ar - want) > RTOL * max(want, 1e-300) and not (want < 1e-290 and ar < 1e-290):
                bad('ar', 'recorded acceptance ratio %r differs from min(1, p\'L\'^b q(x|x\')/(p L^b q(x\'|x))) = %r'
                    % (ar, want), detail)
            bump('ar_checked')
            if reported:
                bump('ar_checked_nonsymmetric')
        else:
            bump('ill_conditioned_skipped')
        if tot > 1e-9 and u is not None:
            bump('sure_but_drew')
        if u is not None:
            bump('draws')
            if accepted != (u <= ar):
                bad('decision', 'accepted = %r but the uniform was %r and ar = %r' % (accepted, u, ar),
                    detail)
        elif not accepted or ar != 1.0:
            bad('decision', 'no uniform was drawn but the step is not a sure accept', detail)
    # ---- what was recorded
    pos = {p: chain.positions[-1][p] for p in pnames}
    sts = chain.stats[-1]
    if accepted:
        bump('accepted')
        ok = all(_feq(pos[p], xp[p]) for p in pnames) and _feq(sts['logl'], rxp[0]) and _feq(sts['logp'], rxp[1])
        if ok and chain.hasblobs:
            ok = all(_feq(chain.blobs[-1][k], rxp[2][k]) for k in rxp[2])
        if not ok:
            bad('accept-record', 'an accepted step did not record x\' with the model outputs at x\'', detail)
    else:
        bump('rejected')
        ok = all(_feq(pos[p], x[p]) for p in pnames) and _feq(sts['logl'], sx['logl']) and _feq(sts['logp'], sx['logp'])
        if ok and chain.hasblobs:
            ok = all(_feq(chain.blobs[-1][k], bx[k]) for k in bx)
        if not ok:
            bad('reject-moves', 'a rejected step did not leave the chain exactly where it was', detail)
    return None


def run_oracle_case(c, stats=None):
    """Returns a list of (key, text, detail) failing inputs (empty when the property held)."""
    stats = stats if stats is not None else {}
    pnames = [p[0] for p in c.params]
    model, ref = _make_model(c), _make_model(c)
    prng = random.Random(c.prop_seed)
    doms = {name: dom for name, kind, dom in c.params}
    props = [F.make(fam, names, doms, prng, **kw) for fam, names, kw in c.props]
    fams = '+'.join(sorted({f for f, _, _ in c.props}))
    g = numpy.random.Generator(numpy.random.PCG64(c.seed))
    st = {'in_jump': 0, 'u': None, 'snap': None}

    def tail(kind):
        if kind == 'z':
            return g.standard_normal()
        u = g.random()
        if st['in_jump'] == 0:
            st['u'] = u            # drawn outside the jump: the acceptance uniform
        return u

    def bump(k, n=1):
        stats[k] = stats.get(k, 0) + n

    findings = []

    def bad(kind, text, detail):
        findings.append(('C01-%s:%s' % (kind, fams), text, dict(detail, case=c.describe())))

    with R.scripted(R.Script(tail=tail, budget=400000)):
        chain = Chain(pnames, model, props, bit_generator=7, beta=c.beta)
        jp = chain.proposal_dist
        orig_jump, orig_update = jp.jump, jp.update

        def jump(fromx):
            st['in_jump'] += 1
            try:
                return orig_jump(fromx)
            finally:
                st['in_jump'] -= 1

        def update(ch):
            st['snap'] = [copy.deepcopy(p) for p in jp.proposals]   # state the move was made with
            return orig_update(ch)
        jp.jump, jp.update = jump, update
        chain.start_position = dict(c.start)
        for it in range(c.steps):
            x = {p: chain.current_position[p] for p in pnames}
            sx = dict(chain.current_stats)
            bx = None if not chain.hasblobs else dict(chain.current_blob)
            st['u'] = None
            try:
                chain.step()
            except ValueError as e:
                if 'NaN acceptance' in str(e):      # a NaN density: properties C12/C14, not C01
                    bump('nan_density')
                    break
                raise
            if _verify_step(chain, pnames, ref, x, sx, bx, st['u'], st['snap'], c.beta, it, bump, bad) == 'stop':
                break
            if findings:
                break
    return findings


def run_pt_oracle_case(c, stats=None):
    """The same oracle on every level of a real ParallelTemperedChain: each level's step is checked
    BEFORE the swap of that iteration (hook in front of `swap_temperatures`), with the level's own beta
    and with the state the level holds at that time -- i.e. after whatever earlier sweeps put there."""
    from epsie.chain import ParallelTemperedChain
    stats = stats if stats is not None else {}
    pnames = [p[0] for p in c.params]
    model, ref = _make_model(c), _make_model(c)
    prng = random.Random(c.prop_seed)
    doms = {name: dom for name, kind, dom in c.params}
    props = [F.make(fam, names, doms, prng, **kw) for fam, names, kw in c.props]
    fams = '+'.join(sorted({f for f, _, _ in c.props}))
    g = numpy.random.Generator(numpy.random.PCG64(c.seed))
    glob = {'in_jump': 0, 'u': None}
    betas = list(c.pt_betas)
    nt = len(betas)
    per = [{'snap': None, 'u': None, 'pre': None, 'stepped': False} for _ in range(nt)]

    def tail(kind):
        if kind == 'z':
            return g.standard_normal()
        u = g.random()
        if glob['in_jump'] == 0:
            glob['u'] = u
        return u

    def bump(k, n=1):
        stats[k] = stats.get(k, 0) + n

    findings = []

    def bad(kind, text, detail):
        findings.append(('C01-%s:pt:%s' % (kind, fams), text, dict(detail, case=c.describe())))

    with R.scripted(R.Script(tail=tail, budget=400000)):
        ann = None
        if getattr(c, 'pt_dynamic', False) and nt >= 3:
            from epsie.chain.ptchain import DynamicalAnnealer
            ann = DynamicalAnnealer(tau=50, nu=4, Tmax_prior=bool(c.seed % 2))
        pt = ParallelTemperedChain(pnames, model, props, betas=numpy.array(betas), swap_interval=c.pt_swap_interval,
                                   adaptive_annealer=ann, bit_generator=7)
        # the temperature of level t is the t-th entry of the ladder the chain holds (an annealer fixes the
        # hottest one at infinity at construction, and moves the intermediate ones after every sweep)
        betas = [float(b) for b in pt.betas]
        srng = random.Random(c.seed ^ 0x51A87)
        kinds = {name: (kind, dom) for name, kind, dom in c.params}
        start = {}
        for name in pnames:
            kind, dom = kinds[name]
            which = int(kind[-1]) if kind.startswith('sphere') else 0
            start[name] = numpy.array([F.start_value('sphere' if kind.startswith('sphere') else kind, dom, srng, which)
                                       for _ in range(nt)])
            if name in c.holes:
                lo, hi = c.holes[name]
                start[name] = numpy.clip(start[name], lo, hi)
                if kind == 'int':
                    start[name] = start[name].astype(int)
        pt.start_position = start
        state = {'it': 0, 'stop': False}

        def hook_level(t, l):
            jp = l.proposal_dist
            orig_jump, orig_update, orig_step = jp.jump, jp.update, l.step

            def jump(fromx):
                glob['in_jump'] += 1
                try:
                    return orig_jump(fromx)
                finally:
                    glob['in_jump'] -= 1

            def update(ch):
                per[t]['snap'] = [copy.deepcopy(p) for p in jp.proposals]
                return orig_update(ch)

            def step():
                x = {p: l.current_position[p] for p in pnames}
                per[t]['beta'] = float(pt.betas[t])       # the ladder entry when the step is made
                per[t]['pre'] = (x, dict(l.current_stats), None if not l.hasblobs else dict(l.current_blob))
                glob['u'] = None
                r = orig_step()
                per[t]['u'] = glob['u']
                per[t]['stepped'] = True
                return r
            jp.jump, jp.update, l.step = jump, update, step

        for t, l in enumerate(pt.chains):
            hook_level(t, l)

        def verify_levels():
            for t, l in enumerate(pt.chains):
                if not per[t]['stepped']:
                    continue
                per[t]['stepped'] = False
                x, sx, bx = per[t]['pre']
                bt = per[t].get('beta', float(betas[t]))
                if _verify_step(l, pnames, ref, x, sx, bx, per[t]['u'], per[t]['snap'], bt, state['it'],
                                bump, bad, level=t) == 'stop':
                    state['stop'] = True
                if ann is None and float(l.beta) != bt:
                    bad('level-beta', 'level %d samples at beta %r, the ladder says %r' % (t, float(l.beta), bt),
                        {'level': t})

        orig_swap = pt.swap_temperatures

        def swap():
            verify_levels()            # the levels' records as their own steps left them
            bump('sweeps')
            return orig_swap()
        pt.swap_temperatures = swap
        for it in range(c.steps):
            state['it'] = it
            try:
                pt.step()
            except ValueError as e:
                if 'NaN acceptance' in str(e):
                    bump('nan_density')
                    break
                raise
            verify_levels()            # iterations without a sweep
            if findings or state['stop']:
                break
    return findings


def acceptance_oracle(seed, tier, full=False):
    rng = random.Random((seed << 3) ^ 0xACCE97)
    n = 60 if tier == 'quick' and not full else 700
    steps = 10 if tier == 'quick' and not full else 25
    cases = [gen_oracle_case(rng, steps=steps) for _ in range(n)]
    for fam in sorted(F.FAMILIES):
        for beta in (0.0, 0.25, 1.0):
            c = gen_oracle_case(rng, families=[fam], steps=steps)
            c.beta = beta
            cases.append(c)
    # every third case runs as a parallel tempered chain (2-4 levels, sweeps every 1-2 iterations): the
    # state a level steps from is then what earlier sweeps put there
    for i, c in enumerate(cases):
        c.pt_betas = None
        if i % 3 == 2:
            prng_ = random.Random(c.seed ^ 0x9A7)
            c.pt_betas = [1.0] + sorted(prng_.sample(DYADIC_BETAS[:-1] if 1.0 in DYADIC_BETAS else DYADIC_BETAS,
                                                     prng_.randint(1, 3)), reverse=True)
            c.pt_betas = [b for j, b in enumerate(c.pt_betas) if j == 0 or b != 1.0]
            c.pt_swap_interval = prng_.choice([1, 1, 2])
            c.pt_dynamic = prng_.random() < 0.4
    stats, findings, fam_hist = {}, [], {}
    for c in cases:
        try:
            f = run_pt_oracle_case(c, stats) if getattr(c, 'pt_betas', None) and len(c.pt_betas) > 1 \
                else run_oracle_case(c, stats)
        except (R.DrawBudgetExceeded, R.ScriptExhausted):
            stats['stalled'] = stats.get('stalled', 0) + 1
            continue
        for fam, _, _ in c.props:
            fam_hist[fam] = fam_hist.get(fam, 0) + 1
        for key, text, payload in f:
            if not any(k == key for k, _, _ in findings):
                findings.append((key, text, dict(payload, how_to_replay='./check C01 --replay <this file>')))
        if len(findings) >= MAX_FINDINGS:
            break
    stats['cases'] = len(cases)
    stats['families'] = fam_hist
    return findings, stats


# --------------------------------------------------------------------------
# (i-b) vanishing likelihood: L(x') = 0 with p(x') > 0
# --------------------------------------------------------------------------
def zero_likelihood_findings(seed, tier, full=False):
    """Targets whose likelihood vanishes on part of the prior's support (logl = -inf, logp finite) --
    hard constraints put into the likelihood.  The property's formula gives, for a symmetric proposal,
    acceptance probability 0 into that region for beta > 0 and min(1, p(x')/p(x)) for beta = 0 (L^0 = 1:
    the hottest chain of a ladder with beta = 0 samples the prior, which is what DynamicalAnnealer sets up
    by default).  Real chains are stepped with their real generator; every step is judged from the
    recorded proposal, the pure model and the drawn record."""
    import math
    import numpy
    from epsie.chain import Chain
    from epsie.proposals import Normal
    from epsie.samplers import ParallelTemperedSampler
    from epsie.chain.ptchain import DynamicalAnnealer
    findings, stats = [], {'steps': 0, 'into_zero_likelihood': 0, 'from_zero_likelihood': 0, 'pt_iterations': 0}
    cut = 0.25

    def model(x):
        return (-0.5 * x * x if x >= cut else -numpy.inf), -0.5 * (x / 4.) ** 2

    nsteps = 60 if tier == 'quick' and not full else 600
    for beta in (0.0, 0.25, 1.0):
        ch = Chain(['x'], model, [Normal(['x'], cov=[4.])], bit_generator=(seed % 1000) * 7 + 11, beta=beta)
        ch.start_position = {'x': 1.}
        for it in range(nsteps):
            cur = float(ch.current_position['x'])
            cur_l, cur_p = model(cur)
            try:
                ch.step()
            except ValueError as e:
                findings.append(('zero-likelihood:step-raised:beta=%g' % beta,
                                 'Chain.step raised %r on a proposal of vanishing likelihood and finite prior '
                                 '(beta=%g, current x=%r, proposed x=%r): the step has to accept with '
                                 'probability min(1, p(x\')L(x\')^beta/(p(x)L(x)^beta))' % (
                                     str(e).split('\n')[0], beta, cur, float(ch.proposed_position['x'])),
                                 {'beta': beta, 'iteration': it, 'current': cur,
                                  'proposed': float(ch.proposed_position['x']), 'seed': seed,
                                  'model': 'logl = -x^2/2 for x >= 0.25 else -inf; logp = -(x/4)^2/2'}))
                break
            stats['steps'] += 1
            prop = float(ch.proposed_position['x'])
            l, pr = model(prop)
            ar = float(ch.acceptance['acceptance_ratio'][-1])
            if beta == 0.0:
                want = min(1.0, math.exp(pr - cur_p))
            elif l == -numpy.inf:
                want = 0.0 if cur_l > -numpy.inf else None
            elif cur_l == -numpy.inf:
                want = 1.0
            else:
                want = min(1.0, math.exp(pr + beta * l - cur_p - beta * cur_l))
            if l == -numpy.inf:
                stats['into_zero_likelihood'] += 1
            if cur_l == -numpy.inf:
                stats['from_zero_likelihood'] += 1
            if want is not None and not (abs(ar - want) <= 1e-9 * max(1.0, want)):
                findings.append(('zero-likelihood:wrong-acceptance:beta=%g' % beta,
                                 'recorded acceptance probability %r for the move %r -> %r at beta=%g; the '
                                 'property gives %r' % (ar, cur, prop, beta, want),
                                 {'beta': beta, 'iteration': it, 'current': cur, 'proposed': prop, 'seed': seed}))
                break
    # the default dynamical annealer puts the hottest level at beta = 0
    def model2(x, y):
        return (-0.5 * (x * x + y * y) if x >= cut else -numpy.inf), -0.5 * ((x / 4.) ** 2 + (y / 4.) ** 2)
    for dyn in (True, False):
        betas = numpy.array([1.0, 0.5, 0.0]) if not dyn else numpy.array([1.0, 0.5, 0.1])
        try:
            kw = dict(adaptive_annealer=DynamicalAnnealer()) if dyn else {}
            smp = ParallelTemperedSampler(['x', 'y'], model2, 2, betas=betas, seed=seed % 997 + 3,
                                          proposals=[Normal(['x', 'y'], cov=[4., 4.])], **kw)
            smp.start_position = {'x': numpy.full((3, 2), 1.0), 'y': numpy.full((3, 2), 0.5)}
            n = 40 if tier == 'quick' and not full else 400
            smp.run(n)
            stats['pt_iterations'] += n
            lg = smp.stats['logl']
            if lg.shape[0] != 3 or not numpy.all(numpy.isfinite(lg[:2])):   # ntemps x nchains x niterations
                findings.append(('zero-likelihood:cold-level-holds-zero-likelihood-state',
                                 'a level with beta > 0 recorded a state of vanishing likelihood', {'dynamic': dyn, 'seed': seed}))
        except ValueError as e:
            findings.append(('zero-likelihood:tempered-run-raised:%s' % ('annealer' if dyn else 'fixed'),
                             'a tempered sampler whose hottest level has beta = 0 (%s) raised %r on a target whose '
                             'likelihood vanishes on part of the prior support' % (
                                 'the default DynamicalAnnealer sets this up' if dyn else 'betas [1, 0.5, 0]',
                                 str(e).split('\n')[0]),
                             {'dynamic': dyn, 'seed': seed,
                              'model': 'logl = -(x^2+y^2)/2 for x >= 0.25 else -inf; logp = -((x/4)^2+(y/4)^2)/2'}))
    return findings, stats


# --------------------------------------------------------------------------
# (ii) exact kernel on lattices
# --------------------------------------------------------------------------

class LatticeModel:
    """Pure table model on the integers lo..hi; -inf prior outside and at the holes."""

    def __init__(self, lo, logl, logp):
        self.lo = lo
        self.logl = list(logl)
        self.logp = list(logp)     # None = hole

    def __call__(self, k):
        i = int(k) - self.lo
        if i < 0 or i >= len(self.logl) or self.logp[i] is None:
            return 0.0, -numpy.inf
        return self.logl[i], self.logp[i]


def quantile_grid(N):
    return special.ndtri((numpy.arange(N) + 0.5) / N)


def push_forward(prop, x, grid):
    """Counts of the real `_jump` from x over the grid; (counts dict, witness z per target, rejected)."""
    counts, witness, rejected = {}, {}, 0
    for z in grid:
        try:
            with R.scripted(R.Script(z=[float(z)])):
                y = int(prop._jump({'k': x})['k'])
        except R.ScriptExhausted:
            rejected += 1            # the rejection loop asked for another draw
            continue
        counts[y] = counts.get(y, 0) + 1
        witness.setdefault(y, float(z))
    return counts, witness, rejected


def lattice_config(rng, idx):
    K = 3 + idx % 6
    lo = rng.randint(-3, 2)
    bounded = idx % 2 == 0
    std = [0.7, 1.5, 3.0][idx % 3]
    successive = bool((idx // 2) % 2)
    logl = [-rng.randrange(0, 33) / 8.0 for _ in range(K)]
    logp = [-rng.randrange(0, 9) / 8.0 for _ in range(K)]
    if idx % 4 == 3 and K >= 4:
        logp[rng.randrange(1, K - 1)] = None          # an interior prior hole
    return {'search': 'exact-kernel', 'K': K, 'lo': lo, 'bounded': bounded, 'std': std,
            'successive': successive, 'logl': logl, 'logp': logp}


def make_lattice_prop(cfg):
    lo, hi = cfg['lo'], cfg['lo'] + cfg['K'] - 1
    if cfg['bounded']:
        return P.BoundedDiscrete(['k'], {'k': (lo, hi)}, cov=[cfg['std'] ** 2],
                                 successive={'k': cfg['successive']})
    return P.NormalDiscrete(['k'], cov=[cfg['std'] ** 2], successive={'k': cfg['successive']})


def run_lattice(cfg, N, betas=(0.0, 0.25, 1.0), stats=None):
    stats = stats if stats is not None else {}
    findings = []
    lo, K = cfg['lo'], cfg['K']
    model = LatticeModel(lo, cfg['logl'], cfg['logp'])
    states = [lo + i for i in range(K) if cfg['logp'][i] is not None]
    grid = quantile_grid(N)
    prop = make_lattice_prop(cfg)
    q, wit, delta = {}, {}, {}
    for x in states:
        counts, witness, rejected = push_forward(prop, x, grid)
        A = N - rejected
        q[x] = {y: cnt / A for y, cnt in counts.items()}
        wit[x] = witness
        # counting bound: every cell is an interval of quantiles (count off by <= 2); through the
        # rejection loop the normaliser is off by <= 2K as well (K = number of lattice points)
        delta[x] = (2.0 + (2.0 * K if rejected else 0.0)) / A
        stats['jumps'] = stats.get('jumps', 0) + N
    name = '%s%s' % ('bounded_discrete' if cfg['bounded'] else 'discrete', '-successive' if cfg['successive'] else '')
    for beta in betas:
        f = {x: math.exp(model(x)[1] + beta * model(x)[0]) for x in states}
        tot = sum(f.values())
        f = {x: v / tot for x, v in f.items()}
        Pm = {x: {} for x in states}
        for x in states:
            for y, z in sorted(wit[x].items()):
                if y == x:
                    continue
                ch = Chain(['k'], model, [copy.deepcopy(prop)], bit_generator=3, beta=beta)
                ch.start_position = {'k': x}
                with R.scripted(R.Script(z=[z], u=[0.5])):
                    ch.step()
                stats['steps'] = stats.get('steps', 0) + 1
                prop_y = int(ch.proposed_position['k'])
                ar = float(ch.acceptance[-1]['acceptance_ratio'])
                detail = {'config': cfg, 'beta': beta, 'x': x, 'y': y, 'z': z, 'recorded_ar': ar}
                if prop_y != y:
                    findings.append(('C01-kernel-jump:' + name, 'the step did not propose the point its jump '
                                     'produces for the same base draw', detail))
                    continue
                if y not in f:
                    if ar != 0.0 or bool(ch.acceptance[-1]['accepted']):
                        findings.append(('C01-zero-prior:' + name, 'a proposal outside the prior support was '
                                         'not rejected with ar = 0', detail))
                    continue
                Pm[x][y] = (q[x][y], ar)
        worst = 0.0
        resid = {y: 0.0 for y in states}
        rtol = {y: 0.0 for y in states}
        for x in states:
            for y in states:
                if x >= y:
                    continue
                qxy, axy = Pm[x].get(y, (0.0, 0.0))
                qyx, ayx = Pm[y].get(x, (0.0, 0.0))
                flux = f[x] * qxy * axy - f[y] * qyx * ayx
                tol = f[x] * delta[x] * axy + f[y] * delta[y] * ayx + 1e-12
                # a move never seen in N draws has q <= delta, and its recorded ar is unknown: bound by 1
                if y not in Pm[x]:
                    tol = f[x] * delta[x] + f[y] * delta[y] * ayx + 1e-12
                if x not in Pm[y]:
                    tol = f[x] * delta[x] * axy + f[y] * delta[y] + 1e-12
                worst = max(worst, abs(flux) / tol)
                stats['db_pairs'] = stats.get('db_pairs', 0) + 1
                if abs(flux) > tol:
                    findings.append(('C01-detailed-balance:' + name,
                                     'f_x P_xy - f_y P_yx = %.3e exceeds the counting bound %.3e '
                                     '(x=%d, y=%d, beta=%s)' % (flux, tol, x, y, beta),
                                     {'config': cfg, 'beta': beta, 'x': x, 'y': y, 'N': N,
                                      'q_xy': qxy, 'ar_xy': axy, 'q_yx': qyx, 'ar_yx': ayx,
                                      'f_x': f[x], 'f_y': f[y], 'tolerance': tol}))
                resid[y] += flux
                resid[x] -= flux
                rtol[y] += tol
                rtol[x] += tol
        for y in states:
            stats['stationarity_rows'] = stats.get('stationarity_rows', 0) + 1
            if abs(resid[y]) > rtol[y]:
                findings.append(('C01-stationary:' + name,
                                 '(fP - f)_y = %.3e exceeds the counting bound %.3e (y=%d, beta=%s)'
                                 % (resid[y], rtol[y], y, beta),
                                 {'config': cfg, 'beta': beta, 'y': y, 'N': N}))
        stats['worst_flux_over_tol'] = max(stats.get('worst_flux_over_tol', 0.0), worst)
    return findings


def exact_kernel(seed, tier, full=False):
    rng = random.Random((seed << 3) ^ 0x1A771CE)
    if tier == 'quick' and not full:
        idxs, N = [0, 1, 3, 8, 11], 8000
    else:
        idxs, N = list(range(24)), 60000
    stats, findings = {'N': N}, []
    for i in idxs:
        cfg = lattice_config(rng, i)
        for key, text, payload in run_lattice(cfg, N, stats=stats):
            if not any(k == key for k, _, _ in findings):
                findings.append((key, text, dict(payload, how_to_replay='./check C01 --replay <this file>')))
        if len(findings) >= MAX_FINDINGS:
            break
    stats['lattices'] = len(idxs)
    return findings, stats


# --------------------------------------------------------------------------
# (iii) exact sweep kernel
# --------------------------------------------------------------------------

STATE_POS = [0.25, 0.75, 1.25]


class ThreeStateModel:
    """Three states at positions 0.25, 0.75, 1.25 with table logl / logp; zero prior elsewhere."""

    def __init__(self, logl, logp):
        self.logl, self.logp = list(logl), list(logp)

    def __call__(self, x):
        for s, v in enumerate(STATE_POS):
            if float(x) == v:
                return self.logl[s], self.logp[s]
        return 0.0, -numpy.inf


def sweep_rows(betas, logl, logp, cfg_states):
    """Real sweeps from configuration `cfg_states` (state per level, coldest first) for every vector
    of scripted decisions by draw order.  Returns (dict decisions -> (weight, outcome), level betas)."""
    n = len(betas)
    model = ThreeStateModel(logl, logp)
    paths = {}
    level_betas = None
    for e in itertools.product([0.0, 1.0 - 2.0 ** -53], repeat=n - 1):
        us = list(e)

        def tail(kind, us=us):
            if kind == 'z':
                return 1000.0           # every level's jump leaves the support: forced reject
            return us.pop(0) if us else 0.5
        with R.scripted(R.Script(tail=tail)):
            prop = P.Normal(['x'], cov=[1.0])
            pt = ParallelTemperedChain(['x'], model, [prop], betas=numpy.array(betas, dtype=float),
                                       swap_interval=1, bit_generator=1)
            pt.start_position = {'x': numpy.array([STATE_POS[s] for s in cfg_states])}
            pt.step()
        idx = [int(v) for v in pt.temperature_swaps[:, -1]]
        ars = [float(v) for v in pt.temperature_acceptance[:, -1]]
        dec = tuple(idx[tj + 1] == tj for tj in range(n - 1))
        w = 1.0
        for tj in range(n - 1):
            w *= ars[tj] if dec[tj] else (1.0 - ars[tj])
        out = tuple(STATE_POS.index(float(ch.current_position['x'])) for ch in pt.chains)
        level_betas = [float(ch.beta) for ch in pt.chains]
        if dec in paths and paths[dec][1] != out:
            paths[dec] = (float('nan'), out)      # the same decisions led to two outcomes
        else:
            paths[dec] = (w, out)
    return paths, level_betas


def run_sweep_kernel(cfg, stats=None):
    stats = stats if stats is not None else {}
    betas, logl, logp, n = cfg['betas'], cfg['logl'], cfg['logp'], len(cfg['betas'])
    findings = []
    configs = list(itertools.product(range(3), repeat=n))
    K = {}
    lb = None
    for c in configs:
        paths, lb = sweep_rows(betas, logl, logp, c)
        stats['sweeps'] = stats.get('sweeps', 0) + 2 ** (n - 1)
        stats['paths'] = stats.get('paths', 0) + len(paths)
        row = {}
        for dec, (w, out) in paths.items():
            row[out] = row.get(out, 0.0) + w
        K[c] = row
        tot = sum(row.values())
        if not abs(tot - 1.0) <= 1e-12:
            findings.append(('C03-row-sum', 'the path probabilities of a sweep sum to %r, not 1' % tot,
                             {'config': cfg, 'states': list(c), 'paths': {str(k): v for k, v in paths.items()}}))
    pi = {}
    for c in configs:
        pi[c] = math.exp(sum(logp[c[t]] + lb[t] * logl[c[t]] for t in range(n)))
    tot = sum(pi.values())
    pi = {c: v / tot for c, v in pi.items()}
    worst = 0.0
    for c2 in configs:
        s = sum(pi[c] * K[c].get(c2, 0.0) for c in configs)
        worst = max(worst, abs(s - pi[c2]))
        if not abs(s - pi[c2]) <= 1e-12:
            findings.append(('C03-invariance', '(pi K - pi)(c\') = %.3e for c\' = %s' % (s - pi[c2], list(c2)),
                             {'config': cfg, 'cprime': list(c2), 'piK': s, 'pi': pi[c2], 'level_betas': lb}))
            break
    stats['configurations'] = stats.get('configurations', 0) + len(configs)
    stats['worst_residual'] = max(stats.get('worst_residual', 0.0), worst)
    return findings


def sweep_kernel_configs(rng, tier, full=False):
    out = []
    sizes = [3, 4] if tier == 'quick' and not full else [3, 3, 4, 4, 5, 5]
    for i, n in enumerate(sizes):
        mids = sorted(rng.sample(DYADIC_BETAS[1:-1], n - 2), reverse=True)
        betas = [1.0] + mids + [0.0 if i % 2 == 0 else 0.125]
        logl = [0.0, -rng.randrange(1, 17) / 8.0, -rng.randrange(1, 33) / 8.0]
        if i % 2 == 1:
            logl[2] = logl[1]                          # a tie in log-likelihood
        logp = [-rng.randrange(0, 9) / 8.0 for _ in range(3)]
        out.append({'search': 'sweep-kernel', 'betas': betas, 'logl': logl, 'logp': logp})
    return out


def sweep_kernel(seed, tier, full=False):
    rng = random.Random((seed << 3) ^ 0x5EE9)
    stats, findings = {}, []
    for cfg in sweep_kernel_configs(rng, tier, full):
        for key, text, payload in run_sweep_kernel(cfg, stats):
            if not any(k == key for k, _, _ in findings):
                findings.append((key, text, dict(payload, how_to_replay='./check C03 --replay <this file>')))
        stats['ladders'] = stats.get('ladders', 0) + 1
    return findings, stats


# --------------------------------------------------------------------------
# replay
# --------------------------------------------------------------------------

def replay(d):
    """Re-run a stored failing input; returns the findings it produces now."""
    if 'case' in d and d['case'].get('search') == 'acceptance-oracle':
        c_ = OracleCase.from_description(d['case'])
        if c_.pt_betas and len(c_.pt_betas) > 1:
            return run_pt_oracle_case(c_)
        return run_oracle_case(c_)
    cfg = d.get('config') or {}
    if cfg.get('search') == 'exact-kernel':
        return run_lattice(cfg, d.get('N', 20000), betas=(d['beta'],) if 'beta' in d else (0.0, 0.25, 1.0))
    if cfg.get('search') == 'sweep-kernel':
        return run_sweep_kernel(cfg)
    return None


if __name__ == '__main__':
    import json
    import sys
    import time
    tier = sys.argv[1] if len(sys.argv) > 1 else 'quick'
    numpy.seterr(all='ignore')
    for name, fn in (('acceptance_oracle', acceptance_oracle), ('exact_kernel', exact_kernel),
                     ('sweep_kernel', sweep_kernel)):
        t0 = time.time()
        f, st = fn(common.seed(), tier)
        print(name, '%.1fs' % (time.time() - t0), json.dumps(st, sort_keys=True, default=str))
        for key, text, payload in f[:6]:
            print('  FINDING', key, text)
