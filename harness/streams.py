#!/venv/bin/python
"""C04 / C07 on the real code: correspondence with EpsieModel/Streams.lean and the
failing-input searches.

correspondence (suite `streams`)
    random sampler constructions (kind x chains x levels x proposal mix x default /
    transdimensional / annealer / seeded or not, plus malformed ones) are built for real;
    the partition of the draw sites by generator object / generator state / origin, the
    parameter order of every site and the kinds of the cross-chain mutable objects are
    compared with what the Lean model (`Epsie.Streams.reportText`, evaluated by Lean)
    predicts under the measured variant; then the sampler is run chain by chain under a
    logging proxy patched onto `BaseRandom.random_generator`: every random decision must be
    served by the generator object the static walk found at that site, only generators
    reachable from the running chain may advance, the global numpy / random generators
    may not.

C04 search
    digests (positions, stats, blobs, acceptance, swap history, betas, structural `state`,
    generator states) of identical configurations computed in independent interpreter
    sessions (`/venv/bin/python streams.py worker`, PYTHONHASHSEED in {0,1,2,3,...}, different
    global numpy/random seeds, decoy objects and decoy entropy reads first); chains of one
    sampler compared pairwise for coinciding streams; every draw attributed to its chain's
    own spawned generator.

    Proposals (births, nested inner proposals) that were USED before the sampler got them — a
    script that tries its proposals out: generator read, jump, logpdf, birth, update fed by a
    scripted chain — and re-used for a second sampler: the run must equal the run with untouched
    objects (uses that leave the proposal's parameters alone) and must not depend on the generator
    the objects had before (all uses), in one interpreter and across sessions.  The sessions run
    the code under test unpatched (the draw log of the correspondence, and other checks, patch
    `BaseRandom.random_generator` from outside and would mask a change inside it); every session
    verifies that.

C07 search
    full per-chain histories under pool=None vs a pool whose map deep-copies its arguments,
    chunk-wise copies, reversed / shuffled in-process evaluation, multiprocessing.Pool(k), with
    and without reset_after_swap; perturbing one chain's start and diffing every other chain.
    State that no pickle carries: a fresh interpreter (`streams.py poolfirst`) creates its pools
    first (fork and spawn; nothing of epsie imported yet), then builds samplers with
    reset_after_swap, adaptive proposals and a dynamic ladder and compares serial with pooled runs
    (default chunks, chunks of 2, tasks submitted in reverse); after a reset every adaptive proposal
    of a chain must be back at the values IT was constructed with (several proposals of one support
    class with different settings in one chain); unrelated proposals constructed in the process
    (before / after the sampler / between runs) must change nothing; the class-level attributes of
    the package are compared before and after.
    Sequences: configurations with a `schedule` (run(n) several times, clear() at iterations that
    are and are not multiples of the swap interval, run(0), reload of the own state, save / rebuild /
    load) go through every pool kind (deep-copying, pickling, chunk-copying, reordering, process
    pools, pools created first); everything readable — histories, swap history and its acceptance,
    current values, start, lengths, state, generator — is compared after every run of the sequence.
    The caller's objects: for every proposal family (angular, discrete, solid angle with radec /
    degs, ...) under the MH and the PT sampler, digests of the start arrays, betas array, parameter
    list, proposal objects and model after every construction, start and run (serial and pooled);
    a serial and a pooled sampler given the SAME objects, and a later sampler with one chain's start
    moved in the same arrays, against a sampler that has copies of its own.

Oracles are exact (bit-identical digests, object identity); nothing statistical.
"""
import copy
import hashlib
import json
import multiprocessing
import os
import random
import subprocess
import sys

HERE = os.path.dirname(os.path.abspath(__file__))
if HERE not in sys.path:
    sys.path.insert(0, HERE)
import common  # noqa: E402

import numpy  # noqa: E402

import gen_sharing as G  # noqa: E402

KEY_F9 = 'F9-default-proposal-set-order'
KEY_F10 = 'F10-nested-transdimensional-generators'
KEY_F5 = 'F5-shared-annealer'

_VARIANT = None


def variant():
    """The measured code facts (gen_sharing.measure_variant). The defect keys F10 / F5 are only used
    when the corresponding fact is measured on the current code; the same symptom on code where the
    fact is repaired is reported under a generic key."""
    global _VARIANT
    if _VARIANT is None:
        _VARIANT = G.measure_variant()[0]
    return _VARIANT


# --------------------------------------------------------------------------
# canonical digests
# --------------------------------------------------------------------------

def canon(obj):
    """Structural, bit-exact, hash-order-free rendering of a sampler output / state."""
    if isinstance(obj, dict):
        items = []
        for k, v in obj.items():
            kk = ('fs',) + tuple(sorted(str(x) for x in k)) if isinstance(k, frozenset) else ('k', str(k))
            items.append((kk, canon(v)))
        return ('d', tuple(sorted(items)))
    if isinstance(obj, (list, tuple)):
        return ('l', tuple(canon(v) for v in obj))
    if isinstance(obj, (set, frozenset)):
        return ('s', tuple(sorted(repr(canon(v)) for v in obj)))
    if isinstance(obj, numpy.ndarray):
        if obj.dtype == object:
            return ('ao', obj.shape, tuple(canon(v) for v in obj.ravel().tolist()))
        return ('a', obj.dtype.str if obj.dtype.names is None else str(obj.dtype.descr), obj.shape,
                numpy.ascontiguousarray(obj).tobytes().hex())
    if isinstance(obj, (float, numpy.floating)):
        return ('f', float(obj).hex())
    if isinstance(obj, (bool, numpy.bool_)):
        return ('b', bool(obj))
    if isinstance(obj, (int, numpy.integer)):
        return ('i', int(obj))
    if obj is None:
        return ('n',)
    if isinstance(obj, (str, bytes)):
        return ('t', str(obj))
    return ('o', repr(obj))


def sha(obj):
    return hashlib.sha1(repr(canon(obj)).encode()).hexdigest()[:16]


def _try(f):
    try:
        return f()
    except ValueError as e:          # "no data has been set yet" style
        return 'ValueError:%s' % (str(e)[:40],)


def _try_any(f):
    """For the accessors that may legitimately raise other things in some states (nothing run yet,
    just cleared): the same exception in the runs compared is the same observable."""
    try:
        return f()
    except Exception as e:
        return '%s:%s' % (type(e).__name__, str(e)[:40])


def chain_parts(ch):
    """Everything a user can read from one chain after a run."""
    parts = {
        'positions': _try(lambda: ch.positions), 'stats': _try(lambda: ch.stats),
        'acceptance': _try(lambda: ch.acceptance), 'blobs': _try(lambda: ch.blobs),
        'state': _try(lambda: ch.state), 'random_state': ch.random_state,
        'iteration': ch.iteration,
    }
    if hasattr(ch, 'chains'):
        parts['temperature_swaps'] = _try(lambda: ch.temperature_swaps)
        parts['temperature_acceptance'] = _try(lambda: ch.temperature_acceptance)
        parts['betas'] = numpy.array(ch.betas, dtype=float)
        parts['level_betas'] = [float(l.beta) for l in ch.chains]
    return {k: sha(v) for k, v in parts.items()}


def chain_parts_full(ch):
    """`chain_parts` plus the current values, the start and the lengths (after sequences of run / clear)."""
    parts = {'current_position': _try_any(lambda: ch.current_position),
             'current_stats': _try_any(lambda: ch.current_stats),
             'current_blob': _try_any(lambda: ch.current_blob),
             'start_position': _try_any(lambda: ch.start_position),
             'len': _try_any(lambda: len(ch)), 'lastclear': _try_any(lambda: ch.lastclear)}
    out = chain_parts(ch)
    out.update({k: sha(v) for k, v in parts.items()})
    return out


def sampler_parts(s):
    parts = {
        'positions': _try(lambda: s.positions), 'stats': _try(lambda: s.stats),
        'acceptance': _try(lambda: s.acceptance), 'blobs': _try(lambda: s.blobs),
        'state': _try(lambda: s.state), 'random_states': [c.random_state for c in s.chains],
    }
    if hasattr(s, 'temperature_swaps'):
        parts['temperature_swaps'] = _try(lambda: s.temperature_swaps)
        parts['temperature_acceptance'] = _try(lambda: s.temperature_acceptance)
        parts['betas'] = _try(lambda: s.betas)
    return {k: sha(v) for k, v in parts.items()}


# --------------------------------------------------------------------------
# the Lean model, evaluated by Lean
# --------------------------------------------------------------------------

def lean_reports(items, timeout=900):
    """items: list of (variant dict, cfg, order list) -> list of `reportText` strings."""
    if not items:
        return []
    lines = ['import EpsieModel.Streams', 'open Epsie.Streams']
    for v, cfg, order in items:
        lines.append('#eval IO.println (reportText %s %s %s)' % (
            G.lean_variant(v), G.lean_cfg(cfg), G.lnats(order)))
    tmp = os.path.join(common.LEAN_DIR, '.lake', 'streams_%d.lean' % os.getpid())
    os.makedirs(os.path.dirname(tmp), exist_ok=True)
    with open(tmp, 'w') as fh:
        fh.write('\n'.join(lines) + '\n')
    env = dict(os.environ)
    env.pop('LEAN_PATH', None)
    try:
        p = subprocess.run(['lake', 'env', 'lean', tmp], cwd=common.LEAN_DIR, env=env, stdout=subprocess.PIPE,
                           stderr=subprocess.PIPE, text=True, timeout=timeout)
    finally:
        os.unlink(tmp)
    out = [l for l in p.stdout.splitlines() if l.startswith('rows ') or l == 'rejected']
    if p.returncode != 0 or len(out) != len(items):
        raise RuntimeError('Lean evaluation of the stream model failed: %s' % ((p.stdout + p.stderr)[-1500:],))
    return out


KIND_TEXT = {'accept': 'accept', 'swap': 'swap', 'jump': 'jump', 'tdChoice': 'tdchoice',
             'modelIndex': 'modelindex', 'birth': 'birth'}


def real_report(cfg):
    """The same text as `Epsie.Streams.reportText`, from the real object graph.
    Returns (text, observed order of the default proposal's parameters, sampler, info)."""
    import logging
    logging.disable(logging.WARNING)
    try:
        s, info = G.build_real(cfg)
    except ValueError:
        return 'rejected', [], None, None
    names = info['names']
    rows = G.site_rows(s, names, cfg['seed'])
    orders = G.order_rows(s, names)
    rtxt = ' | '.join(' '.join('%s[%s]g%ds%d:%s' % (
        KIND_TEXT[k], ','.join(map(str, ps)), g, st, o.replace(' ', '')) for k, ps, g, st, o in ch) for ch in rows)
    otxt = ' | '.join(' '.join('%s[%s]' % (KIND_TEXT[k], ','.join(map(str, ps))) for k, ps in ch) for ch in orders)
    shared = sorted({k for k, _, _ in G.cross_chain(s)})
    miss = G.missing(cfg)
    order = []
    if miss:
        dflt = s.proposals[-1]
        order = [names.index(p) for p in dflt.parameters]
    return 'rows %s ;; order %s ;; shared %s' % (rtxt, otxt, ','.join(shared)), order, s, info


def gen_cfg(rng, allow_bad=True):
    """A random sampler construction (valid most of the time)."""
    n = rng.randint(1, 6)
    idx = list(range(n))
    rng.shuffle(idx)
    props = []
    nested = n >= 2 and rng.random() < 0.35
    if nested:
        k = rng.randint(1, min(3, n - 1))
        inner = [[idx.pop()] for _ in range(k)]
        if idx and rng.random() < 0.3:
            inner[0].append(idx.pop())
        if not idx:
            ix = inner.pop()[0]
            if not inner:
                inner = []
        else:
            ix = idx.pop()
        props.append(('nested', rng.choice([None, None, rng.randint(1, 999)]), ix, inner))
    while idx and rng.random() < 0.6:
        m = rng.randint(1, min(2, len(idx)))
        grp = [idx.pop() for _ in range(m)]
        props.append(('plain', sorted(grp) if rng.random() < 0.5 else grp, rng.random() < 0.3))
    rng.shuffle(props)
    if rng.random() < 0.5:
        kind = ('mh',)
    else:
        kind = ('pt', rng.randint(1, 4), rng.random() < 0.4)
    cfg = {'nparams': n, 'props': props, 'kind': kind, 'nchains': rng.randint(1, 4),
           'seed': rng.choice([None, rng.randint(0, 10 ** 6), rng.randint(0, 10 ** 6)])}
    if allow_bad and rng.random() < 0.08:
        bad = rng.choice(['nochains', 'dup'])
        if bad == 'nochains':
            cfg['nchains'] = 0
        elif props and props[0][0] == 'plain':
            cfg['props'] = props + [('plain', [props[0][1][0]], False)]
    return cfg


class DrawLog:
    """Logging proxy on `BaseRandom.random_generator`: which object asked which generator
    object for which kind of variate."""

    def __init__(self):
        self.log = []          # (id(owner), id(generator object), method name)

    def __enter__(self):
        from epsie.proposals import base as pbase
        from numpy.random import Generator
        self._cls = pbase.BaseRandom
        self._orig = pbase.BaseRandom.__dict__['random_generator']
        dl = self

        class Proxy:
            def __init__(self, owner, bg):
                self._o, self._bg, self._g = owner, bg, Generator(bg)

            def __getattr__(self, name):
                attr = getattr(self._g, name)
                if callable(attr):
                    def call(*a, **k):
                        dl.log.append((id(self._o), id(self._bg), name))
                        return attr(*a, **k)
                    return call
                return attr

        def random_generator(self_):
            return Proxy(self_, self_.bit_generator)
        pbase.BaseRandom.random_generator = property(random_generator)
        return self

    def __exit__(self, *a):
        self._cls.random_generator = self._orig
        return False


def all_generators(sampler):
    out = {}
    for i, ch in enumerate(sampler.chains):
        for kind, pars, g, owner in G.chain_sites(ch):
            if g is not None:
                out.setdefault(id(g), (g, set()))[1].add(i)
    return out


def dynamic_findings(cfg, s, info, niter=6):
    """Run chain by chain under the draw log. Returns (correspondence problems, findings, ndraws).
    Correspondence problems: the dynamic behaviour contradicts the static walk (which is what the
    model was compared with).  Findings: statements of C04 itself violated on the real code."""
    import random as pyrandom
    problems, findings = [], []
    s.start_position = G.start_positions(cfg)
    gens = all_generators(s)
    site_of = {}
    for i, ch in enumerate(s.chains):
        for kind, pars, g, owner in G.chain_sites(ch):
            if kind in ('swap',):
                continue
            site_of[id(owner)] = (i, kind, pars, g)
    ndraws = 0
    for c in s.chains:
        c.scratchlen = niter
    for i, ch in enumerate(s.chains):
        before = {k: repr(g.state) for k, (g, _) in gens.items()}
        np_state = repr(numpy.random.get_state())
        py_state = pyrandom.getstate()
        with DrawLog() as dl:
            for _ in range(niter):
                ch.step()
        ndraws += len(dl.log)
        if repr(numpy.random.get_state()) != np_state or pyrandom.getstate() != py_state:
            findings.append(('global-rng-consumed', 'stepping chain %d consumed the global numpy/random generator' % i,
                             {'chain': i}))
        for k, (g, owners) in gens.items():
            if repr(g.state) != before[k] and i not in owners:
                problems.append('stepping chain %d advanced a generator reachable only from chains %s' % (
                    i, sorted(owners)))
        own = G.chain_generator(ch)
        for oid, gid, meth in dl.log:
            site = site_of.get(oid)
            if site is None:
                problems.append('a draw (%s) was requested by an object that is no draw site of the walk' % meth)
                continue
            ci, kind, pars, g = site
            if ci != i:
                problems.append('stepping chain %d drew at a site of chain %d' % (i, ci))
            if g is None or gid != id(g):
                problems.append('site %s%r of chain %d drew from another generator object than the walk found' % (
                    kind, pars, ci))
            if cfg['seed'] is not None and gid != id(own):
                ss = gens[gid][0].seed_seq if gid in gens else None
                findings.append((KEY_F10 if kind in ('modelIndex', 'jump', 'birth') and _in_nested(cfg, pars, info)
                                 and not variant()['reseatsInner'] else 'foreign-stream:' + kind,
                                 'chain %d: the %s draw over %r is served by a generator that is not the chain\'s own '
                                 '(seed sequence entropy %s the sampler seed, spawn key %r; the chain\'s is %r)' % (
                                     i, kind, list(pars), 'equals' if ss is not None and ss.entropy == cfg['seed'] else 'is not',
                                     tuple(getattr(ss, 'spawn_key', ())), tuple(own.seed_seq.spawn_key)),
                                 {'manifestation': 'foreign-stream', 'chain': i, 'site': kind, 'params': list(pars)}))
    return problems, findings, ndraws


def _in_nested(cfg, pars, info):
    names = info['names']
    idx = {names.index(p) for p in pars}
    for p in cfg['props']:
        if p[0] == 'nested':
            inside = {i for grp in p[3] for i in grp} | {p[2]}
            if idx and idx <= inside:
                return True
    return False


def coinciding_streams(cfg, s, info):
    """Pairs of chains with draw sites fed by generators in the same state (same numbers)."""
    out = []
    per = []
    for ch in s.chains:
        per.append({G.gen_state_key(g): (kind, pars) for kind, pars, g, _ in G.chain_sites(ch) if g is not None})
    for i in range(len(per)):
        for j in range(i + 1, len(per)):
            common_keys = per[i].keys() & per[j].keys()
            for k in sorted(common_keys)[:1]:
                kind, pars = per[i][k]
                out.append((KEY_F10 if _in_nested(cfg, pars, info) and not variant()['reseatsInner']
                            else 'coinciding-streams',
                            'chains %d and %d: the %s draws over %r come from generators in the same state '
                            '(identical numbers in both chains)' % (i, j, kind, list(pars)),
                            {'manifestation': 'same-stream', 'chains': [i, j], 'site': kind, 'params': list(pars)}))
    return out


def correspondence(chk, n, variant, run_dynamic=True):
    """Suite `streams`. Returns (divergences, findings) and fills coverage."""
    rng = random.Random((chk.seed << 4) ^ 0x57EA)
    cases = [c for _, c in G.TABLE_CFGS] + [gen_cfg(rng) for _ in range(n)]
    reals = []
    for cfg in cases:
        txt, order, s, info = real_report(cfg)
        reals.append((cfg, txt, order, s, info))
    models = lean_reports([(variant, cfg, order) for cfg, _, order, _, _ in reals])
    divs, findings = [], []
    hist = {'rejected': 0, 'mh': 0, 'pt': 0, 'nested': 0, 'annealer': 0, 'defaulted>=2': 0, 'unseeded': 0,
            'touched': 0, 'draws': 0}
    for (cfg, rtxt, order, s, info), mtxt in zip(reals, models):
        if rtxt == 'rejected':
            hist['rejected'] += 1
        else:
            hist[cfg['kind'][0]] += 1
            hist['nested'] += any(p[0] == 'nested' for p in cfg['props'])
            hist['annealer'] += cfg['kind'][0] == 'pt' and cfg['kind'][2]
            hist['defaulted>=2'] += len(G.missing(cfg)) >= 2
            hist['unseeded'] += cfg['seed'] is None
            hist['touched'] += any(p[0] == 'plain' and p[2] for p in cfg['props'])
        if rtxt != mtxt:
            divs.append({'cfg': cfg, 'model': mtxt, 'real': rtxt, 'order': order})
            continue
        if s is None or not run_dynamic:
            continue
        # static statements of C04 on the real graph
        if cfg['seed'] is not None:
            findings += [(k, t, dict(p, cfg=cfg)) for k, t, p in coinciding_streams(cfg, s, info)]
        try:
            problems, fnd, nd = dynamic_findings(cfg, s, info)
        except (ValueError, TypeError, IndexError, AttributeError, FloatingPointError, ZeroDivisionError):
            hist['real_code_raised'] = hist.get('real_code_raised', 0) + 1
            continue            # the real code raised while stepping: owned by other properties
        hist['draws'] += nd
        findings += [(k, t, dict(p, cfg=cfg)) for k, t, p in fnd]
        for pr in problems:
            divs.append({'cfg': cfg, 'model': 'static walk', 'real': pr, 'order': order})
    cov = chk.coverage
    cov['correspondence_cases'] = len(cases)
    cov['evaluations'] = cov.get('evaluations', 0) + len(cases)
    cov['distinct_nontrivial'] = len({json.dumps(c, sort_keys=True) for c, t, _, _, _ in reals if t != 'rejected'
                                      and c['nchains'] >= 2})
    cov['rule'] = ('constructions generated from VERIF_SEED by streams.gen_cfg plus the table configurations; '
                   'non-trivial = accepted by the real constructor and >= 2 chains; distinct = distinct configurations')
    cov.setdefault('correspondence', {})['streams'] = {'cases': len(cases), 'divergences': len(divs), 'branches': hist}
    if reals:
        chk.samples.append({'cfg': reals[-1][0], 'real': reals[-1][1][:300], 'model': models[-1][:300]})
    return divs, findings


# --------------------------------------------------------------------------
# C04: independent interpreter sessions
# --------------------------------------------------------------------------

C04_CFGS = [
    ('mh-explicit', {'nparams': 2, 'props': [('plain', [0], False), ('plain', [1], False)], 'kind': ('mh',),
                     'nchains': 3, 'seed': 101}, {}),
    # "all seeds": 0 is a seed like any other (and the one most easily mistaken for "no seed"), and so
    # is a very large one
    ('mh-seed-zero', {'nparams': 2, 'props': [('plain', [0], False), ('plain', [1], False)], 'kind': ('mh',),
                      'nchains': 2, 'seed': 0}, {}),
    ('pt-seed-zero', {'nparams': 2, 'props': [('plain', [0], False), ('plain', [1], False)], 'kind': ('pt', 2, False),
                      'nchains': 2, 'seed': 0}, {}),
    ('mh-seed-huge', {'nparams': 2, 'props': [('plain', [0], False), ('plain', [1], False)], 'kind': ('mh',),
                      'nchains': 2, 'seed': 2 ** 70 + 3}, {}),
    ('mh-one-defaulted', {'nparams': 2, 'props': [('plain', [0], True)], 'kind': ('mh',), 'nchains': 2, 'seed': 102},
     {'blobs': True}),
    ('mh-two-defaulted', {'nparams': 3, 'props': [('plain', [1], False)], 'kind': ('mh',), 'nchains': 2, 'seed': 103},
     {}),
    ('mh-all-defaulted', {'nparams': 4, 'props': [], 'kind': ('mh',), 'nchains': 2, 'seed': 104}, {}),
    ('mh-adaptive-mix', {'nparams': 4, 'props': [('plain', [0, 1], False), ('plain', [2], False), ('plain', [3], False)],
                         'kind': ('mh',), 'nchains': 2, 'seed': 105},
     {'family': ['at_adaptive_normal', 'ss_adaptive_normal', 'adaptive_normal']}),
    ('pt-explicit', {'nparams': 2, 'props': [('plain', [0, 1], False)], 'kind': ('pt', 3, False), 'nchains': 2,
                     'seed': 106}, {'blobs': True, 'swap_interval': 2}),
    ('pt-three-defaulted', {'nparams': 3, 'props': [], 'kind': ('pt', 2, False), 'nchains': 2, 'seed': 107}, {}),
    ('pt-annealer', {'nparams': 2, 'props': [('plain', [0], False), ('plain', [1], False)], 'kind': ('pt', 4, True),
                     'nchains': 2, 'seed': 108}, {'family': ['adaptive_normal', 'normal']}),
    ('td-mh', {'nparams': 4, 'props': [('nested', None, 3, [[0], [1], [2]])], 'kind': ('mh',), 'nchains': 2,
               'seed': 109}, {}),
    ('td-pt', {'nparams': 4, 'props': [('nested', None, 3, [[1], [2]]), ('plain', [0], False)],
               'kind': ('pt', 2, False), 'nchains': 2, 'seed': 110}, {}),
    ('td-int-seed-pt', {'nparams': 3, 'props': [('nested', 4242, 2, [[0], [1]])], 'kind': ('pt', 3, False),
                        'nchains': 2, 'seed': 111}, {}),
    # default_proposal / default_proposal_args: all parameters left to an adaptive default proposal that
    # gets a full covariance matrix (ndarray)
    ('mh-default-ss-cov2d-all', {'nparams': 3, 'props': [], 'kind': ('mh',), 'nchains': 2, 'seed': 112},
     {'default': {'cls': 'ss_adaptive_normal', 'args': 'cov2d'}}),
]


def c04_cfgs(tier, seed):
    out = list(C04_CFGS)
    if tier == 'thorough':
        rng = random.Random(seed * 31 + 4)
        k = 0
        while k < 24:
            cfg = gen_cfg(rng, allow_bad=False)
            if cfg['seed'] is None:
                cfg['seed'] = rng.randint(0, 10 ** 6)
            if cfg['kind'][0] == 'pt' and cfg['kind'][1] == 2 and cfg['kind'][2]:
                cfg['kind'] = ('pt', 3, True)
            out.append(('random-%d' % k, cfg, {'blobs': rng.random() < 0.3}))
            k += 1
    return out


# the sampler arguments `default_proposal` / `default_proposal_args` (parameters without an explicit
# proposal), named symbolically in the options so that they survive JSON:
#   opts['default'] = {'cls': None | 'ss_adaptive_normal' | 'at_adaptive_normal' | 'adaptive_normal',
#                      'args': 'cov2d' (full covariance with off-diagonal terms, ndarray) | 'cov1d' (ndarray) |
#                              'covlist' (list) | 'none'}
DEFAULT_CLASSES = {None: 'Normal', 'ss_adaptive_normal': 'SSAdaptiveNormal', 'at_adaptive_normal': 'ATAdaptiveNormal',
                   'adaptive_normal': 'AdaptiveNormal'}


def default_family_of(cfg, opts):
    """(default_proposal, default_proposal_args) for `build_real`, or None.  New argument objects on
    every call (the arrays inside belong to the caller of the sampler)."""
    spec = opts.get('default')
    if not spec:
        return None
    from epsie import proposals as P
    names = [G.pname(i) for i in G.missing(cfg)]
    n = len(names)
    cls = None if spec.get('cls') is None else getattr(P, DEFAULT_CLASSES[spec['cls']])
    form = spec.get('args', 'none')
    args = {}
    if spec.get('cls') == 'at_adaptive_normal':
        args = {'adaptation_duration': 12, 'diagonal': form == 'cov1d'}
    elif spec.get('cls') == 'adaptive_normal':
        args = {'prior_widths': {p: 3.0 + 0.5 * i for i, p in enumerate(names)}, 'adaptation_duration': 12,
                'initial_std': numpy.array([0.25 + 0.125 * i for i in range(n)])}
    elif form == 'cov2d':
        cov = numpy.full((n, n), 0.0625)
        cov[numpy.diag_indices(n)] = [0.375 + 0.125 * i for i in range(n)]
        args = {'cov': cov}
    elif form == 'cov1d':
        args = {'cov': numpy.array([0.375 + 0.125 * i for i in range(n)])}
    elif form == 'covlist':
        args = {'cov': [0.375 + 0.125 * i for i in range(n)]}
    return cls, args


def run_one(cfg, opts, niter, before_sampler=None, user_props=None, default_family=None):
    """Build from scratch, start, run; everything a user can read afterwards.
    `before_sampler(props, names)`: what the user does with the proposal objects before the sampler
    gets them; `user_props`: build the sampler from these existing objects."""
    import logging
    logging.disable(logging.WARNING)
    names = [G.pname(i) for i in range(cfg['nparams'])]
    model = G.QuadModel(names, blobs=opts.get('blobs', False))
    s, info = G.build_real(cfg, family=opts.get('family', 'normal'), model=model,
                           swap_interval=opts.get('swap_interval', 1), rng=random.Random(9),
                           before_sampler=before_sampler, user_props=user_props,
                           reset_after_swap=opts.get('reset_after_swap', False),
                           default_family=default_family or default_family_of(cfg, opts))
    s.start_position = G.start_positions(cfg)
    s.run(niter // 2)
    s.run(niter - niter // 2)
    return s, info


# --------------------------------------------------------------------------
# C04: proposals that were used before the sampler got them
# --------------------------------------------------------------------------
#
# "A function of the seed, the configuration and the start positions only": which generator a
# proposal object drew from before it was handed to the sampler is none of these.  A script that
# tries its proposals out (a jump, a birth, a density, a look at `random_generator`) uses the
# proposal's own entropy-seeded generator; the sampler then deep-copies the object per chain and
# seats the chain's generator on every copy.  Oracles (all bit-exact):
#   draw     uses that leave the proposal's parameters alone (generator reads, jump, logpdf, birth):
#            the run equals the run with pristine objects, and so does a second sampler built
#            afterwards from the SAME objects;
#   update   uses that also change the proposal (jump + `update` fed by a scripted chain, so that
#            nothing depends on the numbers drawn): the run is the same whether the object's own
#            generator was entropy-seeded or seated by the user with seed 5 or 6, and the same for a
#            second sampler built from the same objects;
# in one interpreter and across sessions.

class ScriptedChain:
    """What `update` of the elementary proposals reads from a chain; nothing depends on a draw."""
    _hasblobs = False

    def __init__(self, params, k):
        self.iteration = k + 1
        acc = numpy.zeros(k + 1, dtype=[('acceptance_ratio', float), ('accepted', bool)])
        for i in range(k + 1):
            acc[i] = (((i * 7 + 3) % 10) / 10.0, (i * 5 + 1) % 3 != 0)
        self.acceptance = acc
        self.current_position = {p: 0.25 + 0.125 * j + 0.0625 * ((k * 3) % 5) for j, p in enumerate(params)}
        self.proposed_position = {p: 0.5 + 0.125 * j - 0.0625 * ((k * 2) % 7) for j, p in enumerate(params)}
        self.current_stats = {'logl': -1.0 - 0.125 * k, 'logp': 0.0}

    def __len__(self):
        return self.iteration


def _pt(params, k=0):
    return {p: 0.375 + 0.125 * j + 0.03125 * k for j, p in enumerate(params)}


def _use_leaf(pr, ndraws, update):
    _ = pr.random_generator
    _ = pr.random_state
    n = 0
    for k in range(ndraws):
        x = _pt(pr.parameters, k)
        y = pr.jump(x)
        pr.logpdf(y, x)
        n += 2
        if update:
            pr.update(ScriptedChain(pr.parameters, k))
            n += 1
    return n


def preuse(props, names, mode='draw', ndraws=1, gen=None):
    """Use every object the sampler is going to get.  mode 'draw' | 'update'; `gen`: None (the
    object's own entropy-seeded generator) or an integer the user seats first.  Returns the number
    of calls made."""
    n = 0
    for pr in props:
        if gen is not None:
            pr.bit_generator = gen
        if not getattr(pr, 'transdimensional', False):
            n += _use_leaf(pr, ndraws, mode == 'update')
            continue
        _ = pr.random_generator
        _ = pr.random_state
        mp = pr.model_proposal
        inner = list(pr.proposals)
        ix = mp.parameters[0]
        for k in range(ndraws):
            frm = {ix: min(1, len(inner))}
            to = mp.jump(frm)
            mp.logpdf(to, frm)
            n += 2
            for q in inner:
                _ = q.random_generator
                x = _pt(q.parameters, k)
                y = q.jump(x)
                q.logpdf(y, x)
                b = q.birth_distribution
                _ = b.random_generator
                _ = b.random_state
                z = b.birth
                b.logpdf(z)
                n += 4
            if inner:
                # the nested proposal itself, from a point with one active component
                state = numpy.zeros(len(inner), dtype=bool)
                state[0] = True
                fromx = {ix: 1, '_state': state}
                for gi, q in enumerate(inner):
                    for j, p in enumerate(q.parameters):
                        fromx[p] = (0.75 + 0.25 * j) if gi == 0 else numpy.nan
                tox = pr.jump(fromx)
                pr.logpdf(tox, fromx)
                n += 2
    return n


PREUSE_CFGS = [
    ('used-mh-normal', {'nparams': 2, 'props': [('plain', [0], False), ('plain', [1], True)], 'kind': ('mh',),
                        'nchains': 3, 'seed': 121}, {}),
    ('used-mh-adaptive-mix', {'nparams': 4, 'props': [('plain', [0, 1], False), ('plain', [2], False),
                                                      ('plain', [3], False)], 'kind': ('mh',), 'nchains': 2, 'seed': 122},
     {'family': ['at_adaptive_normal', 'ss_adaptive_normal', 'adaptive_normal']}),
    ('used-mh-bounded-eigenvector', {'nparams': 4, 'props': [('plain', [0], False), ('plain', [1], False),
                                                             ('plain', [2, 3], False)], 'kind': ('mh',), 'nchains': 2,
                                     'seed': 123},
     {'family': ['bounded_normal', 'adaptive_bounded_normal', 'adaptive_eigenvector'], 'blobs': True}),
    ('used-pt-one-defaulted', {'nparams': 2, 'props': [('plain', [1], False)], 'kind': ('pt', 3, False), 'nchains': 2,
                               'seed': 124}, {'swap_interval': 2, 'family': ['ss_adaptive_bounded_normal']}),
    ('used-pt-annealer-reset', {'nparams': 2, 'props': [('plain', [0], False), ('plain', [1], False)],
                                'kind': ('pt', 3, True), 'nchains': 2, 'seed': 125},
     {'family': ['at_adaptive_bounded_normal', 'eigenvector'], 'reset_after_swap': True}),
    ('used-td-mh', {'nparams': 4, 'props': [('nested', None, 3, [[0], [1], [2]])], 'kind': ('mh',), 'nchains': 2,
                    'seed': 126}, {}),
    ('used-td-pt', {'nparams': 4, 'props': [('nested', None, 3, [[1], [2]]), ('plain', [0], False)],
                    'kind': ('pt', 2, False), 'nchains': 2, 'seed': 127}, {'family': ['adaptive_normal']}),
    ('used-td-int-seed-mh', {'nparams': 3, 'props': [('nested', 4243, 2, [[0], [1]])], 'kind': ('mh',),
                             'nchains': 3, 'seed': 0}, {}),
    # two parameters left to the default proposal; the caller keeps its default_proposal_args (a full
    # covariance ndarray) and hands the same dictionary to the second sampler
    ('used-mh-default-ss-cov2d-two', {'nparams': 3, 'props': [('plain', [1], False)], 'kind': ('mh',),
                                      'nchains': 3, 'seed': 128},
     {'family': ['adaptive_normal'], 'default': {'cls': 'ss_adaptive_normal', 'args': 'cov2d'}}),
]


def preuse_cases(tier, seed):
    """[(name, cfg, opts, ndraws)]: the fixed ones plus constructions generated from the seed."""
    rng = random.Random(seed * 41 + 9)
    out = [(n, c, o, 1 + (i + seed) % 3) for i, (n, c, o) in enumerate(PREUSE_CFGS)]
    k = 0
    want = 2 if tier == 'quick' else 16
    while k < want:
        cfg = gen_cfg(rng, allow_bad=False)
        if not cfg['props']:
            continue                                   # nothing the user could have touched
        cfg['nchains'] = max(2, cfg['nchains'])
        if cfg['seed'] is None:
            cfg['seed'] = rng.randint(0, 10 ** 6)
        if cfg['kind'][0] == 'pt' and cfg['kind'][2] and cfg['kind'][1] < 3:
            cfg['kind'] = ('pt', 3, True)
        fams = [rng.choice(C07_FAMILIES) for _ in range(4)]
        opts = {'family': fams, 'blobs': rng.random() < 0.3, 'swap_interval': rng.choice([1, 2]),
                'reset_after_swap': cfg['kind'][0] == 'pt' and rng.random() < 0.5}
        out.append(('used-random-%d' % k, cfg, opts, rng.randint(1, 3)))
        k += 1
    return out


PREUSE_GENS = (None, 5, 6)


def preuse_runs(cfg, opts, niter, ndraws, gens=PREUSE_GENS):
    """Every variant of one pre-use case, in this interpreter: digests by variant name."""
    out = {}
    calls = {}

    class UseRaised(Exception):
        """The harness' own use of a proposal object raised: no statement about the sampler."""

    def use(tag, *a, **k):
        try:
            calls[tag] = preuse(*a, **k)
        except Exception as e:
            raise UseRaised(repr(e)[:200])

    def record(tag, f):
        try:
            out[tag] = sampler_parts(f())
        except UseRaised as e:
            out[tag] = {'use_raised': str(e)}
        except Exception as e:      # reported to the parent, which decides
            out[tag] = {'error': repr(e)[:300]}

    record('pristine', lambda: run_one(cfg, opts, niter)[0])
    held = {}

    def draw(props, names):
        use('draw', props, names, 'draw', ndraws)

    def first():
        held['default'] = default_family_of(cfg, opts)
        s, info = run_one(cfg, opts, niter, before_sampler=draw, default_family=held['default'])
        held['props'] = info['user_props']
        return s
    record('used', first)
    if 'props' in held:
        # a second sampler from the same objects (proposals and default_proposal_args), used once more in between
        record('reused', lambda: run_one(cfg, opts, niter, before_sampler=draw, user_props=held['props'],
                                         default_family=held['default'])[0])
    for g in gens:
        held.pop('props', None)

        def upd(props, names, g=g):
            use('update', props, names, 'update', ndraws + 1, gen=g)

        def firstu():
            s, info = run_one(cfg, opts, niter, before_sampler=upd)
            held['props'] = info['user_props']
            return s
        record('updated:%s' % g, firstu)
        if g is None and 'props' in held:
            record('updated-reused', lambda: run_one(cfg, opts, niter, user_props=held['props'])[0])
    return out, calls


def unpatched_random_generator():
    """Is `BaseRandom.random_generator` the property the source of the code under test defines?
    (Other checks, and the draw log of this one, patch it from outside; a run under such a patch
    says nothing about what the property's own code does.)"""
    from epsie.proposals import base as pbase
    prop = pbase.BaseRandom.__dict__.get('random_generator')
    if not isinstance(prop, property) or prop.fget is None:
        return False
    code = getattr(prop.fget, '__code__', None)
    here = os.path.realpath(pbase.__file__)
    if here.endswith('.pyc'):
        here = here[:-1]
    return code is not None and os.path.realpath(code.co_filename) == here \
        and os.path.realpath(here).startswith(os.path.realpath(common.REPO) + os.sep)


def worker(spec):
    """One interpreter session: decoys first, then every configuration from scratch."""
    import logging
    logging.disable(logging.WARNING)
    import warnings
    warnings.filterwarnings('ignore')
    numpy.seterr(all='ignore')
    g = spec['gseed']
    numpy.random.seed(g)
    random.seed(g)
    numpy.random.normal(size=g % 7 + 1)
    decoys = [object() for _ in range((g * 131) % 997)]
    from epsie import proposals as P
    for k in range(g % 5):
        d = P.Normal(['zz%d' % k])
        _ = d.bit_generator                    # decoy reads of the entropy pool
        decoys.append(d)
    decoys.append({'s%d' % i for i in range(g % 11)})
    from epsie.samplers import MetropolisHastingsSampler
    dec = MetropolisHastingsSampler(['u', 'v'], G.QuadModel(['u', 'v']), 1 + g % 2, seed=g)      # an unrelated sampler, run first
    dec.start_position = {'u': numpy.zeros(1 + g % 2), 'v': numpy.ones(1 + g % 2)}
    dec.run(1 + g % 4)
    decoys.append(dec)
    out = {}
    for name, cfg, opts in spec['cfgs']:
        cfg = _tuplify(cfg)
        try:
            s, info = run_one(cfg, opts, spec['niter'])
        except Exception as e:      # reported to the parent, which decides
            out[name] = {'error': repr(e)[:300]}
            continue
        parts = sampler_parts(s)
        dflt = []
        if G.missing(cfg):
            dflt = [info['names'].index(p) for p in s.proposals[-1].parameters]
        out[name] = {'parts': parts, 'default_order': dflt,
                     'chains': [chain_parts(c) for c in s.chains]}
        # "rebuilding the same sampler from scratch and rerunning it in the same interpreter"
        try:
            s2, _ = run_one(cfg, opts, spec['niter'])
            out[name]['parts_rebuilt'] = sampler_parts(s2)
        except Exception as e:
            out[name]['parts_rebuilt'] = {'error': repr(e)[:300]}
    pre = {}
    for name, cfg, opts, ndraws in spec.get('preuse', []):
        runs, calls = preuse_runs(_tuplify(cfg), opts, spec.get('preuse_niter', spec['niter']), ndraws,
                                  gens=tuple(spec.get('preuse_gens', PREUSE_GENS)))
        pre[name] = {'runs': runs, 'calls': calls}
    out['__preuse__'] = pre
    out['__meta__'] = {'unpatched_random_generator': unpatched_random_generator()}
    return out


def _tuplify(cfg):
    cfg = dict(cfg)
    cfg['kind'] = tuple(cfg['kind'])
    cfg['props'] = [tuple(p) for p in cfg['props']]
    return cfg


def spawn_sessions(cfgs, sessions, niter, timeout=600, preuse_cases=(), preuse_niter=None, preuse_gens=PREUSE_GENS,
                   preuse_sessions=2, wait=True):
    """Run `worker` in independent interpreters. sessions: list of (hashseed, gseed).
    Pre-use case number i is run in `preuse_sessions` of the sessions (i, i+1, ... modulo their number).
    `wait=False`: return the running sessions (for `collect_sessions`)."""
    procs = []
    nsess = len(sessions)
    for si, (hs, gs) in enumerate(sessions):
        env = dict(os.environ)
        env['PYTHONHASHSEED'] = str(hs)
        env['OMP_NUM_THREADS'] = '1'
        mine = [c for i, c in enumerate(preuse_cases)
                if si in {(i + d) % nsess for d in range(min(preuse_sessions, nsess))}]
        spec = json.dumps({'gseed': gs, 'niter': niter, 'cfgs': cfgs, 'preuse': mine,
                           'preuse_niter': preuse_niter or niter, 'preuse_gens': list(preuse_gens)})
        procs.append((hs, gs, _start_session('worker', env, spec)))
    return collect_sessions(procs, timeout) if wait else procs


def _start_session(mode, env, spec):
    """A child interpreter that reads its specification from a file (so that the parent need not feed
    a pipe while it does other work) and writes its result to stdout."""
    import tempfile
    fin = tempfile.TemporaryFile('w+')
    fin.write(spec)
    fin.flush()
    fin.seek(0)
    fout = tempfile.TemporaryFile('w+')
    ferr = tempfile.TemporaryFile('w+')
    p = subprocess.Popen([common.PY, os.path.abspath(__file__), mode], env=env, stdin=fin, stdout=fout, stderr=ferr,
                         text=True)
    return p, fin, fout, ferr


def _finish_session(handle, timeout, what):
    p, fin, fout, ferr = handle
    try:
        p.wait(timeout=timeout)
    except subprocess.TimeoutExpired:
        p.kill()
        raise TimeoutError('%s timed out' % what)
    finally:
        fin.close()
    fout.seek(0)
    ferr.seek(0)
    so, se = fout.read(), ferr.read()
    fout.close()
    ferr.close()
    if p.returncode != 0:
        raise OSError('%s failed: %s' % (what, se[-1200:]))
    return json.loads(so.strip().splitlines()[-1])


def collect_sessions(procs, timeout=600):
    return [((hs, gs), _finish_session(h, timeout, 'C04 session PYTHONHASHSEED=%s' % hs)) for hs, gs, h in procs]


def preuse_compare(pcases, outs, niter, gens=PREUSE_GENS):
    """Findings and coverage of the pre-use cases. outs: [((hashseed, gseed), worker output)]."""
    findings = []
    cov = {'cases': len(pcases), 'iterations': niter, 'sessions_per_case': 0, 'digest_comparisons': 0,
           'calls_made_on_the_objects_before': 0,
           'runs': 0, 'vacuous_update_cases': [], 'skipped_because_the_real_code_raised_identically_everywhere': [],
           'variants': ['pristine', 'used (generator read, jump, logpdf, birth)', 'reused (second sampler, same objects)']
           + ['updated (own generator: %s)' % ('entropy' if g is None else 'seed %d' % g) for g in gens]
           + ['updated-reused'],
           'oracle': 'used = reused = pristine; all updated variants equal; every variant equal across sessions'}
    for name, cfg, opts, ndraws in pcases:
        per = [(sess, o['__preuse__'][name]) for sess, o in outs if name in o['__preuse__']]
        cov['sessions_per_case'] = len(per)
        base = {'cfg': cfg, 'opts': opts, 'niter': niter, 'ndraws': ndraws, 'manifestation': 'preuse-differs',
                'gens': list(gens), 'how_to_replay': './check C04 --replay <this file>'}
        key = 'preuse-differs:' + name
        r0 = per[0][1]['runs']
        used_raised = sorted({r['use_raised'] for _, p in per for r in p['runs'].values() if 'use_raised' in r})
        if used_raised:
            # the harness' own calls on the proposal objects raised: not a run of the sampler, no verdict
            cov['skipped_because_the_use_itself_raised'] = cov.get('skipped_because_the_use_itself_raised', []) + [
                (name, used_raised[0][:120])]
            continue
        errs = {t: r['error'] for _, p in per for t, r in p['runs'].items() if 'error' in r}
        if errs:
            same_everywhere = all('error' in r for _, p in per for r in p['runs'].values()) and len(set(errs.values())) == 1
            if same_everywhere:
                cov['skipped_because_the_real_code_raised_identically_everywhere'].append((name, list(errs.values())[0][:120]))
            else:
                t, e = sorted(errs.items())[0]
                findings.append((key, 'configuration %s (seed %d): the variant `%s` raises while others run (or raise '
                                 'differently): %s' % (name, cfg['seed'], t, e), dict(base, variant=t)))
            continue
        cov['calls_made_on_the_objects_before'] += sum(per[0][1]['calls'].values())
        cov['runs'] += sum(len(p['runs']) for _, p in per)
        upd = sorted((t for t in r0 if t.startswith('updated')), key=lambda t: (t != 'updated:None', t))
        if r0[upd[0]] == r0['pristine']:
            cov['vacuous_update_cases'].append(name)       # nothing an `update` could change (nested only)
        done = False
        for sess, p in per:
            r = p['runs']
            for t in ('used', 'reused'):
                cov['digest_comparisons'] += 1
                if t in r and r[t] != r['pristine'] and not done:
                    diff = sorted(k for k in r['pristine'] if r['pristine'][k] != r[t].get(k))
                    findings.append((key, 'configuration %s (seed %d): the proposals were tried out before the sampler was '
                                     'built (%d calls: generator read, jump, logpdf, birth)%s; the run gives different %s '
                                     'than the run with untouched proposal objects (session PYTHONHASHSEED=%d)' % (
                                         name, cfg['seed'], p['calls'].get('draw', 0),
                                         ' and this is the second sampler built from them' if t == 'reused' else '',
                                         ', '.join(diff), sess[0]),
                                     dict(base, variant=t, session=list(sess), differing_outputs=diff)))
                    done = True
            for t in upd[1:]:
                cov['digest_comparisons'] += 1
                if r[t] != r[upd[0]] and not done:
                    diff = sorted(k for k in r[upd[0]] if r[upd[0]][k] != r[t].get(k))
                    findings.append((key, 'configuration %s (seed %d): the proposals were used and updated (scripted chain) '
                                     'before the sampler was built; the run depends on the generator the objects had '
                                     'before (%s vs %s differ in %s; session PYTHONHASHSEED=%d)' % (
                                         name, cfg['seed'], upd[0], t, ', '.join(diff), sess[0]),
                                     dict(base, variant=t, session=list(sess), differing_outputs=diff)))
                    done = True
            for t in sorted(r) if p is not per[0][1] else []:
                cov['digest_comparisons'] += 1
                if r[t] != r0.get(t) and not done:
                    diff = sorted(k for k in r0[t] if r0[t][k] != r[t].get(k))
                    findings.append((key, 'configuration %s (seed %d), variant `%s` (proposals used before the sampler was '
                                     'built): sessions PYTHONHASHSEED=%d and %d produce different %s' % (
                                         name, cfg['seed'], t, per[0][0][0], sess[0], ', '.join(diff)),
                                     dict(base, variant=t, sessions=[list(per[0][0]), list(sess)],
                                          differing_outputs=diff)))
                    done = True
    return findings, cov


def c04_sessions_start(chk, tier):
    """Start the independent interpreter sessions of the C04 search (they run while the parent does the
    in-process part); hand the result to `c04_search`."""
    cfgs = c04_cfgs(tier, chk.seed)
    nsess = 4 if tier == 'quick' else 8
    niter = 24 if tier == 'quick' else 60
    rng = random.Random(chk.seed * 7 + 1)
    sessions = [(k, rng.randint(1, 10 ** 6)) for k in range(nsess)]
    pcases = preuse_cases(tier, chk.seed)
    pniter = 16 if tier == 'quick' else niter
    pgens = PREUSE_GENS[:2] if tier == 'quick' else PREUSE_GENS
    procs = spawn_sessions(cfgs, sessions, niter, preuse_cases=pcases, preuse_niter=pniter, preuse_gens=pgens,
                           preuse_sessions=2 if tier == 'quick' else 4, wait=False)
    return {'tier': tier, 'cfgs': cfgs, 'niter': niter, 'sessions': sessions, 'pcases': pcases, 'pniter': pniter,
            'pgens': pgens, 'procs': procs}


def c04_search(chk, tier, started=None):
    """Returns findings [(key, text, payload)] and fills coverage."""
    st = started if started is not None and started['tier'] == tier else c04_sessions_start(chk, tier)
    cfgs, niter, sessions, pcases, pniter, pgens = (st[k] for k in ('cfgs', 'niter', 'sessions', 'pcases', 'pniter', 'pgens'))
    outs = collect_sessions(st['procs'])
    if not all(o['__meta__']['unpatched_random_generator'] for _, o in outs):
        raise RuntimeError('the C04 sessions did not exercise the BaseRandom.random_generator of the code under test '
                           '(patched from outside, or imported from elsewhere)')
    findings = []
    skipped = []
    ncmp = 0
    pfind, pcov = preuse_compare(pcases, outs, pniter, pgens)
    findings += pfind
    ncmp += pcov['digest_comparisons']
    for name, cfg, opts in cfgs:
        res = [(sess, o[name]) for sess, o in outs]
        errs = [(sess, r['error']) for sess, r in res if 'error' in r]
        if errs:
            # the real code raising is not C04's business (other properties own those defects) unless it
            # depends on the session: some sessions raise, others do not, or they raise differently
            if len(errs) == len(res) and len({e for _, e in errs}) == 1:
                skipped.append((name, errs[0][1][:120]))
                continue
            findings.append(('session-error:' + name, 'configuration %s (seed %d) raises in some fresh sessions and not, '
                             'or differently, in others: %s' % (name, cfg['seed'], errs[0][1]),
                             {'cfg': cfg, 'opts': opts, 'niter': niter, 'manifestation': 'sessions-differ',
                              'sessions': [list(res[0][0]), list(errs[0][0])]}))
            continue
        ncmp += 2 * len(res)
        (s0, r0) = res[0]
        nested = any(p[0] == 'nested' for p in cfg['props'])
        ndef = len(G.missing(cfg))
        for (s1, r1) in res:
            if r1['parts_rebuilt'] != r1['parts']:
                diff = sorted(k for k in r1['parts'] if r1['parts'][k] != r1['parts_rebuilt'].get(k))
                key = KEY_F10 if (nested and _nested_entropy(cfg) and not variant()['reseatsInner']) \
                    else 'rebuild-differs:' + name
                findings.append((key, 'configuration %s (seed %d): building and running it twice in one interpreter '
                                 'session gives different %s' % (name, cfg['seed'], ', '.join(diff) or 'outputs'),
                                 {'cfg': cfg, 'opts': opts, 'niter': niter, 'manifestation': 'rebuild-differs',
                                  'session': list(s1), 'how_to_replay': './check C04 --replay <this file>'}))
                break
        for (s1, r1) in res[1:]:
            if r1['parts'] == r0['parts']:
                continue
            diff = sorted(k for k in r0['parts'] if r0['parts'][k] != r1['parts'].get(k))
            payload = {'cfg': cfg, 'opts': opts, 'niter': niter, 'sessions': [list(s0), list(s1)],
                       'differing_outputs': diff, 'default_order': [r0['default_order'], r1['default_order']],
                       'how_to_replay': './check C04 --replay <this file>'}
            if r0['default_order'] != r1['default_order']:
                findings.append((KEY_F9, 'configuration %s (%d parameters left to the default proposal, seed %d): sessions '
                                 'PYTHONHASHSEED=%d and %d order the default proposal\'s parameters as %r and %r and '
                                 'produce different %s' % (name, ndef, cfg['seed'], s0[0], s1[0], r0['default_order'],
                                                           r1['default_order'], ', '.join(diff)),
                                 dict(payload, manifestation='sessions-differ')))
            elif nested and _nested_entropy(cfg) and not variant()['reseatsInner']:
                findings.append((KEY_F10, 'configuration %s (nested transdimensional proposal, sampler seed %d): two '
                                 'fresh sessions (PYTHONHASHSEED=%d, %d) produce different %s' % (
                                     name, cfg['seed'], s0[0], s1[0], ', '.join(diff)),
                                 dict(payload, manifestation='sessions-differ')))
            else:
                findings.append(('sessions-differ:' + name, 'configuration %s (seed %d): two fresh sessions '
                                 '(PYTHONHASHSEED=%d, %d) produce different %s' % (name, cfg['seed'], s0[0], s1[0],
                                                                                   ', '.join(diff)), payload))
            break
    chk.coverage.setdefault('search', {}).update({
        'configurations': len(cfgs), 'sessions': len(sessions),
        'iterations': niter, 'digest_comparisons': ncmp,
        'session_parameters': [list(s) for s in sessions],
        'skipped_because_the_real_code_raised_identically_everywhere': skipped,
        'sessions_exercise_the_unpatched_random_generator': True,
        'proposals_used_before_the_sampler_got_them': pcov,
        'oracle': 'bit-identical digests of positions/stats/blobs/acceptance/swap history/betas/'
                  'structural state/generator states across independent interpreter sessions'})
    chk.coverage['evaluations'] = chk.coverage.get('evaluations', 0) + ncmp
    return findings


def _nested_entropy(cfg):
    return any(p[0] == 'nested' and p[1] is None for p in cfg['props'])


def c04_inprocess(chk, tier):
    """Pairwise coinciding streams and ownership of every draw, all C04 configurations, in process."""
    findings = []
    n = 0
    for name, cfg, opts in c04_cfgs(tier, chk.seed):
        s, info = G.build_real(cfg, family=opts.get('family', 'normal'), rng=random.Random(9))
        findings += [(k, '%s: %s' % (name, t), dict(p, cfg=cfg)) for k, t, p in coinciding_streams(cfg, s, info)]
        try:
            problems, fnd, nd = dynamic_findings(cfg, s, info, niter=8 if tier == 'quick' else 30)
        except (ValueError, TypeError, IndexError, AttributeError, FloatingPointError, ZeroDivisionError):
            continue            # the real code raised while stepping: owned by other properties
        n += nd
        findings += [(k, '%s: %s' % (name, t), dict(p, cfg=cfg)) for k, t, p in fnd]
        for pr in problems:
            findings.append(('draw-log:' + name, '%s: %s' % (name, pr), {'cfg': cfg}))
    chk.coverage.setdefault('search', {})['draws_attributed'] = n
    return findings


# --------------------------------------------------------------------------
# C07: pools
# --------------------------------------------------------------------------

class CopyPool:
    """`map` deep-copies every argument (what pickling to a worker does, without processes)."""
    name = 'deepcopy-map'

    def map(self, f, args):
        return [f(copy.deepcopy(a)) for a in args]


class PickleMap:
    """`map` sends every argument and every result through pickle, like a process pool, in this process."""
    name = 'pickle-map'

    def map(self, f, args):
        import pickle
        return [pickle.loads(pickle.dumps(f(pickle.loads(pickle.dumps(a))))) for a in args]


class ChunkCopyPool:
    """Chunks of `size` arguments are deep-copied *together* (sharing inside a chunk survives,
    as in multiprocessing's chunked tasks) and evaluated in order."""

    def __init__(self, size):
        self.size = size
        self.name = 'chunk-copy-%d' % size

    def map(self, f, args):
        args = list(args)
        out = []
        for k in range(0, len(args), self.size):
            out += [f(a) for a in copy.deepcopy(args[k:k + self.size])]
        return out


class OrderPool:
    """In-process evaluation in another order, results returned in index order."""

    def __init__(self, order_of, name):
        self.order_of = order_of
        self.name = name

    def map(self, f, args):
        args = list(args)
        order = self.order_of(len(args))
        res = {}
        for i in order:
            res[i] = f(args[i])
        return [res[i] for i in range(len(args))]


class ProcessPool:
    """multiprocessing.Pool(k) with a timeout: a pool that hangs is infrastructure trouble."""

    def __init__(self, k, timeout=240):
        self.k = k
        self.name = 'multiprocessing.Pool(%d)' % k
        self.timeout = timeout
        self._pool = multiprocessing.get_context('fork').Pool(k)

    def map(self, f, args):
        import pickle
        from multiprocessing.pool import MaybeEncodingError
        try:
            return self._pool.map_async(f, list(args)).get(timeout=self.timeout)
        except multiprocessing.TimeoutError:
            raise TimeoutError('%s did not return within %d s' % (self.name, self.timeout))
        except (MaybeEncodingError, pickle.PicklingError, BrokenPipeError, EOFError) as e:
            raise OSError('%s: transport failure %r' % (self.name, e))

    def close(self):
        self._pool.terminate()
        self._pool.join()


REAL_CODE_ERRORS = (ValueError, TypeError, IndexError, AttributeError, FloatingPointError, ZeroDivisionError)

C07_CFGS = [
    ('mh-normal', {'nparams': 2, 'props': [('plain', [0], False)], 'kind': ('mh',), 'nchains': 4, 'seed': 201}, {}),
    ('mh-adaptive', {'nparams': 4, 'props': [('plain', [0, 1], False), ('plain', [2], False), ('plain', [3], False)],
                     'kind': ('mh',), 'nchains': 4, 'seed': 202},
     {'family': ['at_adaptive_normal', 'ss_adaptive_normal', 'adaptive_normal'], 'blobs': True}),
    ('mh-adaptive-bounded', {'nparams': 3, 'props': [('plain', [0], False), ('plain', [1, 2], False)], 'kind': ('mh',),
                             'nchains': 3, 'seed': 203},
     {'family': ['adaptive_bounded_normal', 'adaptive_eigenvector']}),
    ('pt-normal', {'nparams': 2, 'props': [('plain', [0, 1], False)], 'kind': ('pt', 3, False), 'nchains': 4,
                   'seed': 204}, {'swap_interval': 2, 'blobs': True}),
    ('pt-adaptive', {'nparams': 3, 'props': [('plain', [0], False), ('plain', [1, 2], False)], 'kind': ('pt', 3, False),
                     'nchains': 3, 'seed': 205}, {'family': ['ss_adaptive_normal', 'at_adaptive_normal']}),
    ('pt-dynamic-ladder', {'nparams': 2, 'props': [('plain', [0], False), ('plain', [1], False)],
                           'kind': ('pt', 4, True), 'nchains': 4, 'seed': 206}, {'family': ['adaptive_normal', 'normal']}),
    ('td-mh', {'nparams': 4, 'props': [('nested', 77, 3, [[0], [1], [2]])], 'kind': ('mh',), 'nchains': 3,
               'seed': 207}, {}),
    ('td-pt', {'nparams': 4, 'props': [('nested', 78, 3, [[1], [2]]), ('plain', [0], False)],
               'kind': ('pt', 2, False), 'nchains': 3, 'seed': 208}, {}),
    # reset_after_swap: every exchange of two levels resets their adaptive proposals to the values they
    # were constructed with (several proposals of one support class with different initial settings)
    ('pt-reset-ss-at', {'nparams': 4, 'props': [('plain', [0], False), ('plain', [1], False), ('plain', [2, 3], False)],
                        'kind': ('pt', 3, False), 'nchains': 3, 'seed': 209},
     {'family': ['ss_adaptive_normal', 'ss_adaptive_bounded_normal', 'at_adaptive_normal'], 'reset_after_swap': True}),
    # sequences of run(n) / clear() ('c') / reload of the own state ('s') / save + rebuild + load ('S'):
    # several short runs, clears at iterations that are and are not multiples of the swap interval, run(0);
    # everything readable (histories, swap history, current values, start, state) after every run
    ('pt-sequence-swap3', {'nparams': 2, 'props': [('plain', [0], False)], 'kind': ('pt', 3, False), 'nchains': 2,
                           'seed': 211}, {'swap_interval': 3, 'schedule': [4, 'c', 1, 1, 4, 0, 'c', 3, 's', 2]}),
    ('pt-sequence-swap2-ladder', {'nparams': 2, 'props': [('plain', [0, 1], False)], 'kind': ('pt', 3, True),
                                  'nchains': 2, 'seed': 212},
     {'swap_interval': 2, 'blobs': True, 'family': ['adaptive_normal'],
      'schedule': [5, 2, 'c', 2, 3, 'S', 3, 'c', 0, 1, 1]}),
    # default_proposal / default_proposal_args: 1, 2 and all parameters without an explicit proposal
    ('mh-default-ss-cov2d-all', {'nparams': 3, 'props': [], 'kind': ('mh',), 'nchains': 3, 'seed': 214},
     {'default': {'cls': 'ss_adaptive_normal', 'args': 'cov2d'}}),
    ('pt-default-ss-cov2d-two', {'nparams': 3, 'props': [('plain', [1], False)], 'kind': ('pt', 3, False), 'nchains': 3,
                                 'seed': 215},
     {'swap_interval': 2, 'family': ['adaptive_normal'], 'default': {'cls': 'ss_adaptive_normal', 'args': 'cov2d'}}),
    ('mh-default-veitch-one', {'nparams': 2, 'props': [('plain', [0], False)], 'kind': ('mh',), 'nchains': 3, 'seed': 216},
     {'blobs': True, 'default': {'cls': 'adaptive_normal'}}),
    ('mh-sequence', {'nparams': 2, 'props': [('plain', [1], False)], 'kind': ('mh',), 'nchains': 3, 'seed': 213},
     {'blobs': True, 'family': ['ss_adaptive_normal'], 'schedule': [3, 'c', 0, 2, 's', 1, 'c', 'c', 4, 'S', 2]}),
]


def _span(opts, niter):
    if opts.get('schedule'):
        return ('over the sequence %s (n = run(n), c = clear(), s = reload of the own state, S = save / rebuild / load; '
                'output "k:name" read after step k)' % (opts['schedule'],)).replace("'", '')
    return 'after %d iterations' % niter


def gen_schedule(rng, nops=None):
    """A random sequence of run(0..5) / clear / state reloads that ends with a run."""
    nops = nops or rng.randint(5, 10)
    out = [rng.randint(1, 5)]
    while len(out) < nops:
        r = rng.random()
        out.append('c' if r < 0.3 else 's' if r < 0.38 else 'S' if r < 0.44 else 0 if r < 0.5 else rng.randint(1, 5))
    return out + [rng.randint(1, 4)]


def c07_run(cfg, opts, pool, niter, salt=0, perturb=None, unshare_annealer=False, between=None, keep=None):
    """Build, start, run in two `run` calls through `pool`; per-chain digests.
    `between(stage)`: called after the sampler is built ('built') and between the two run calls ('mid');
    `keep`: a dict that receives the build info (the user's proposal objects)."""
    import logging
    logging.disable(logging.WARNING)
    names = [G.pname(i) for i in range(cfg['nparams'])]
    model = G.QuadModel(names, blobs=opts.get('blobs', False))
    s, info = G.build_real(cfg, family=opts.get('family', 'normal'), model=model, pool=pool,
                           swap_interval=opts.get('swap_interval', 1), rng=random.Random(9),
                           reset_after_swap=opts.get('reset_after_swap', False),
                           default_family=default_family_of(cfg, opts))
    if keep is not None:
        keep.update(info)
    if between is not None:
        between('built')
    if unshare_annealer and info['annealer'] is not None:
        for c in s.chains:
            c.adaptive_annealer = copy.deepcopy(c.adaptive_annealer)
    start = G.start_positions(cfg, salt=salt)
    if perturb is not None:
        # move every finite real coordinate of chain `perturb` (all its levels); structure unchanged
        for p in start:
            if start[p].dtype.kind == 'f':
                start[p] = start[p].copy()
                v = start[p][..., perturb]
                start[p][..., perturb] = numpy.where(numpy.isnan(v), numpy.nan, v + 0.123)
    given = [sha([start[p][..., i] for p in sorted(start)]) for i in range(cfg['nchains'])]
    s.start_position = start
    schedule = opts.get('schedule')
    if schedule is None:
        s.run(niter // 2)
        if between is not None:
            between('mid')
        s.run(niter - niter // 2)
        out = [chain_parts_full(c) for c in s.chains]
    else:
        # a sequence of run(n) / clear() / set_state(state) calls; everything readable after every run
        out = [{} for _ in s.chains]
        for k, op in enumerate(list(schedule) + ['end']):
            if op == 'c':
                s.clear()
            elif op == 's':
                s.set_state(s.state)                 # reload its own state
            elif op == 'S':
                # save, build the same sampler again (same pool), load, go on with the new one
                state = copy.deepcopy(s.state)
                s, _ = G.build_real(cfg, family=opts.get('family', 'normal'), model=model, pool=pool,
                                    swap_interval=opts.get('swap_interval', 1), rng=random.Random(9),
                                    reset_after_swap=opts.get('reset_after_swap', False),
                                    default_family=default_family_of(cfg, opts))
                s.set_state(state)
            elif op != 'end':
                s.run(int(op))
            if op == 'end' or not isinstance(op, str):
                for i, c in enumerate(s.chains):
                    out[i].update({'%d:%s' % (k, key): v for key, v in chain_parts_full(c).items()})
            if k == 0 and between is not None:
                between('mid')
    # the arrays the caller passed in, as they are now (chain by chain)
    for i in range(cfg['nchains']):
        out[i]['caller_start_arrays_unchanged'] = sha([start[p][..., i] for p in sorted(start)]) == given[i]
    return out, s


C07_FAMILIES = ['normal', 'adaptive_normal', 'ss_adaptive_normal', 'at_adaptive_normal', 'bounded_normal',
                'adaptive_bounded_normal', 'ss_adaptive_bounded_normal', 'at_adaptive_bounded_normal',
                'eigenvector', 'adaptive_eigenvector']


def c07_cfgs(tier, seed):
    out = list(C07_CFGS)
    srng = random.Random(seed * 29 + 7)
    for k in range(1 if tier == 'quick' else 8):
        si = srng.choice([2, 3, 3, 4, 5])
        nt = srng.choice([2, 3, 4])
        ann = nt >= 3 and srng.random() < 0.3
        out.append(('pt-sequence-random-%d' % k,
                    {'nparams': 2, 'props': [('plain', [srng.randint(0, 1)], False)], 'kind': ('pt', nt, ann),
                     'nchains': 2, 'seed': srng.randint(0, 10 ** 6)},
                    {'swap_interval': si, 'blobs': srng.random() < 0.4,
                     'family': [srng.choice(C07_FAMILIES)], 'reset_after_swap': srng.random() < 0.3,
                     'schedule': gen_schedule(srng)}))
    if tier == 'thorough':
        rng = random.Random(seed * 17 + 3)
        k = 0
        while k < 16:
            cfg = gen_cfg(rng, allow_bad=False)
            cfg['nchains'] = max(2, cfg['nchains'])
            if cfg['seed'] is None:
                cfg['seed'] = rng.randint(0, 10 ** 6)
            # a nested proposal made with an integer seed, so that the configuration is deterministic
            # whatever C04 says about entropy-seeded inner generators
            cfg['props'] = [(p[0], p[1] if p[1] is not None else 900 + k, p[2], p[3]) if p[0] == 'nested' else p
                            for p in cfg['props']]
            if cfg['kind'][0] == 'pt' and cfg['kind'][2] and cfg['kind'][1] < 3:
                cfg['kind'] = ('pt', 3, True)
            fams = [rng.choice(C07_FAMILIES) for _ in range(4)]
            out.append(('random-%d' % k, cfg, {'family': fams, 'blobs': rng.random() < 0.3,
                                               'swap_interval': rng.choice([1, 2, 3]),
                                               'reset_after_swap': cfg['kind'][0] == 'pt' and rng.random() < 0.5}))
            drng = random.Random(seed * 53 + k)
            if G.missing(cfg) and drng.random() < 0.7:
                out[-1][2]['default'] = {'cls': drng.choice(list(DEFAULT_CLASSES)),
                                         'args': drng.choice(['cov2d', 'cov2d', 'cov1d', 'covlist'])}
            k += 1
    return out


def c07_search(chk, tier):
    if not unpatched_random_generator():
        raise RuntimeError('BaseRandom.random_generator is patched from outside while the C07 search runs')
    cfgs = c07_cfgs(tier, chk.seed)
    niter = 24 if tier == 'quick' else 60
    ks = [1, 2, 4] if tier == 'quick' else list(range(1, 17))
    rng = random.Random(chk.seed * 13 + 5)
    perm_seed = rng.randint(0, 10 ** 6)

    def shuffled(n):
        o = list(range(n))
        random.Random(perm_seed + n).shuffle(o)
        return o
    inproc_pools = [CopyPool(), PickleMap(), ChunkCopyPool(2), OrderPool(lambda n: list(range(n))[::-1], 'reversed'),
                    OrderPool(shuffled, 'shuffled')]
    findings = []
    skipped = []
    ncmp = 0
    hist = {}
    procpools = [ProcessPool(k) for k in ks]
    try:
        for name, cfg, opts in cfgs:
            annealed = cfg['kind'][0] == 'pt' and cfg['kind'][2]
            # the harness copying the annealer per chain is a separate variant only where the code under test
            # hands one instance to all chains (measured); otherwise it changes nothing
            variants = [False] + ([True] if annealed and not variant()['annealerPerChain'] else [])
            # sequences: the pools that copy (what a sequence can be sensitive to), one process pool, one perturbation
            sched = bool(opts.get('schedule'))
            light = sched or bool(opts.get('default'))       # default-proposal configurations: the same pools
            pools_here = inproc_pools + procpools if not light else \
                [q for q in inproc_pools if q.name in ('deepcopy-map', 'pickle-map', 'chunk-copy-2')] + procpools[1:2]
            for unshare in variants:
                label = name + ('(annealer copied per chain by the harness)' if unshare else '')
                try:
                    ref, _ = c07_run(cfg, opts, None, niter, unshare_annealer=unshare)
                except REAL_CODE_ERRORS as e:
                    skipped.append((label, repr(e)[:120]))     # the serial run itself raises: other properties
                    break
                touched = [i for i, r in enumerate(ref) if not r['caller_start_arrays_unchanged']]
                if touched:
                    findings.append(('input-mutated:%s' % name, '%s: the serial run changed the start arrays the caller '
                                     'passed in (entries of chain(s) %s)' % (label, touched),
                                     {'cfg': cfg, 'opts': opts, 'niter': niter, 'manifestation': 'input-mutated',
                                      'chains': touched, 'unshare': unshare}))
                for pool in pools_here:
                    try:
                        got, _ = c07_run(cfg, opts, pool, niter, unshare_annealer=unshare)
                    except REAL_CODE_ERRORS as e:
                        findings.append(('pool-dependence:%s' % name, '%s: runs under pool=None but raises under %s: %r' % (
                            label, pool.name, e), {'cfg': cfg, 'opts': opts, 'niter': niter, 'pool': pool.name,
                                                   'manifestation': 'serial-vs-pool', 'unshare': unshare}))
                        break
                    ncmp += len(ref)
                    hist[pool.name] = hist.get(pool.name, 0) + 1
                    bad = [i for i in range(len(ref)) if ref[i] != got[i]]
                    if bad:
                        i = bad[0]
                        diff = sorted(k for k in ref[i] if ref[i][k] != got[i].get(k))
                        key = KEY_F5 if (annealed and not unshare and not variant()['annealerPerChain']) \
                            else 'pool-dependence:%s' % name
                        findings.append((key, '%s: chain(s) %s differ between pool=None and %s %s '
                                         '(differing outputs of chain %d: %s)' % (label, bad, pool.name, _span(opts, niter), i,
                                                                                  ', '.join(diff[:10])),
                                         {'cfg': cfg, 'opts': opts, 'niter': niter, 'pool': pool.name,
                                          'chains': bad, 'manifestation': 'serial-vs-pool', 'unshare': unshare,
                                          'how_to_replay': './check C07 --replay <this file>'}))
                        break
                # perturb the start of one chain, diff every other chain
                for j in sorted({0, cfg['nchains'] - 1}) if not sched else [0]:
                    for pool in (None, inproc_pools[0]) if not light else (None,):
                        try:
                            got, _ = c07_run(cfg, opts, pool, niter, perturb=j, unshare_annealer=unshare)
                        except REAL_CODE_ERRORS as e:
                            skipped.append((label + ' perturbed', repr(e)[:120]))
                            continue
                        ncmp += len(ref) - 1
                        hist['perturb'] = hist.get('perturb', 0) + 1
                        if got[j] == ref[j]:
                            findings.append(('harness-note', 'perturbing the start of chain %d of %s changed nothing in that '
                                             'chain (comparison vacuous)' % (j, name), {'cfg': cfg}))
                        bad = [i for i in range(len(ref)) if i != j and ref[i] != got[i]]
                        if bad:
                            key = KEY_F5 if (annealed and not unshare and pool is None
                                             and not variant()['annealerPerChain']) else 'chain-coupling:%s' % name
                            findings.append((key, '%s: changing the start position of chain %d changes chain(s) %s '
                                             '(pool %s, %d iterations)' % (label, j, bad,
                                                                           'None' if pool is None else pool.name, niter),
                                             {'cfg': cfg, 'opts': opts, 'niter': niter, 'perturbed': j, 'changed': bad,
                                              'pool': None if pool is None else pool.name, 'unshare': unshare,
                                              'manifestation': 'perturbation',
                                              'how_to_replay': './check C07 --replay <this file>'}))
                            break
    finally:
        for p in procpools:
            p.close()
    chk.coverage.setdefault('search', {}).update({
        'configurations': len(cfgs), 'with_reset_after_swap': sum(1 for _, _, o in cfgs if o.get('reset_after_swap')),
        'iterations': niter, 'process_pool_sizes': ks,
        'chain_history_comparisons': ncmp, 'runs_per_pool': hist,
        'skipped_because_the_real_code_raised': skipped,
        'oracle': 'bit-identical per-chain digests (positions, stats, blobs, acceptance, swap '
                  'history, betas, state, generator state) against pool=None; perturbed start of '
                  'chain j vs every chain i != j'})
    chk.coverage['evaluations'] = chk.coverage.get('evaluations', 0) + ncmp
    return findings


# --------------------------------------------------------------------------
# C07: state that lives in a class (one object per process, never pickled)
# --------------------------------------------------------------------------

ADAPTIVE_FAMILIES = ['adaptive_normal', 'ss_adaptive_normal', 'at_adaptive_normal', 'adaptive_bounded_normal',
                     'ss_adaptive_bounded_normal', 'at_adaptive_bounded_normal', 'adaptive_eigenvector']


def class_state_snapshot():
    """Digest of every data attribute bound at class level in a class of the epsie package, and of
    every module-level container there: what all objects of a process share and no pickle carries."""
    import importlib
    import pkgutil
    import epsie
    for m in pkgutil.walk_packages(epsie.__path__, 'epsie.'):
        if m.name not in sys.modules:
            try:
                importlib.import_module(m.name)
            except Exception:       # an optional dependency is missing (h5py): nothing to snapshot there
                pass
    out = {}
    plain = (dict, list, set, tuple, frozenset, numpy.ndarray, int, float, bool, str, bytes, type(None), numpy.generic)
    for mname, mod in sorted(sys.modules.items()):
        if mod is None or not (mname == 'epsie' or mname.startswith('epsie.')):
            continue
        for name, v in sorted(vars(mod).items()):
            if name.startswith('__'):
                continue
            if isinstance(v, type) and (v.__module__ or '').startswith('epsie'):
                for k, a in sorted(vars(v).items()):
                    if k.startswith('__') or k == '_abc_impl' or not isinstance(a, plain):
                        continue
                    out['%s.%s.%s' % (v.__module__, v.__qualname__, k)] = sha(a)
            elif isinstance(v, (dict, list, set, numpy.ndarray)):
                out['%s.%s' % (mname, name)] = sha(v)
    return out


def class_state_diff(before, after):
    return sorted(k for k in set(before) | set(after) if before.get(k) != after.get(k))


def make_decoys(seed):
    """Unrelated proposals of the adaptive classes, with other initial settings."""
    rng = random.Random(seed)
    out = []
    for fam in ADAPTIVE_FAMILIES:
        n = 2 if 'eigenvector' in fam or rng.random() < 0.4 else 1
        out.append(G.make_plain(fam, ['zz%d' % i for i in range(n)], rng))
    return out


def adaptive_state(pr):
    """The proposal's public state without clock and generator: the parameters of its jump law and
    of its adaptation."""
    return {k: v for k, v in pr.state.items() if k not in ('nsteps', 'random_state', 'start_step', 'ind')}


def levels_of(ch):
    return list(ch.chains) if hasattr(ch, 'chains') else [ch]


def reset_crosstalk(name, cfg, opts, niter):
    """Several adaptive proposals in one chain (different classes of one support family, different
    initial settings): run, then reset every level's proposals; each proposal must be back at the
    parameters *it* was constructed with (read from the user's own, untouched object).
    Returns (findings, number of resets compared, number that had adapted away, distinct settings?)."""
    keep = {}
    _, s = c07_run(cfg, dict(opts, reset_after_swap=True), None, niter, keep=keep)
    user = {frozenset(p.parameters): p for p in keep['user_props']}
    findings = []
    nres = nadapted = 0
    inits = {}
    for ci, ch in enumerate(s.chains):
        for ti, lvl in enumerate(levels_of(ch)):
            before = {frozenset(pr.parameters): sha(adaptive_state(pr)) for pr in lvl.proposal_dist.proposals
                      if frozenset(pr.parameters) in user and hasattr(pr, '_reset_adaptation')}
            lvl.reset_proposals()
            for pr in lvl.proposal_dist.proposals:
                key = frozenset(pr.parameters)
                if key not in before:
                    continue
                want, got = adaptive_state(user[key]), adaptive_state(pr)
                inits[key] = sha({k: v for k, v in want.items() if k in ('std', 'cov')})
                nres += 1
                nadapted += before[key] != sha(want)
                if sha(want) != sha(got) and not findings:
                    diff = sorted(k for k in want if sha(want[k]) != sha(got.get(k)))
                    other = [sorted(k2) for k2, u in user.items() if k2 != key and hasattr(u, '_reset_adaptation')
                             and any(sha(adaptive_state(u).get(k)) == sha(got.get(k)) for k in diff)]
                    findings.append(('reset-crosstalk:' + name,
                                     '%s: after `reset_proposals` the %s over %s of chain %d level %d has %s = %s; it was '
                                     'constructed with %s%s' % (
                                         name, type(pr).__name__, sorted(key), ci, ti, diff[0],
                                         numpy.array2string(numpy.asarray(got.get(diff[0])), precision=4).replace('\n', ''),
                                         numpy.array2string(numpy.asarray(want[diff[0]]), precision=4).replace('\n', ''),
                                         (' (that is what the proposal over %s of the same chain was constructed with)'
                                          % other[0]) if other else ''),
                                     {'cfg': cfg, 'opts': dict(opts, reset_after_swap=True), 'niter': niter,
                                      'manifestation': 'reset-crosstalk', 'chain': ci, 'level': ti,
                                      'params': sorted(key), 'differing': diff,
                                      'how_to_replay': './check C07 --replay <this file>'}))
    return findings, nres, nadapted, len(set(inits.values())) > 1


def decoy_independence(name, cfg, opts, niter, seed, whens=('before', 'built', 'mid')):
    """The same sampler with and without unrelated proposal objects made elsewhere in the process
    (before the sampler, after it was built, between two `run` calls; 'built+mid': both in one run):
    bit-identical chains."""
    findings = []
    ncmp = 0
    ref, _ = c07_run(cfg, opts, None, niter)
    held = []
    for when in whens:
        if when == 'before':
            held.append(make_decoys(seed))
            got, _ = c07_run(cfg, opts, None, niter)
        else:
            got, _ = c07_run(cfg, opts, None, niter,
                             between=lambda stage, when=when: held.append(make_decoys(seed + len(held)))
                             if stage in when.split('+') else None)
        ncmp += len(ref)
        bad = [i for i in range(len(ref)) if ref[i] != got[i]]
        if bad:
            diff = sorted(k for k in ref[bad[0]] if ref[bad[0]][k] != got[bad[0]].get(k))
            findings.append(('unrelated-objects:' + name,
                             '%s: chain(s) %s change when unrelated adaptive proposals (other parameters, other initial '
                             'settings) are constructed in the process %s (differing outputs of chain %d: %s)' % (
                                 name, bad, {'before': 'before the sampler is built', 'built': 'after the sampler was built',
                                             'mid': 'between two run calls',
                                             'built+mid': 'after the sampler was built and between two run calls'}[when],
                                 bad[0], ', '.join(diff)),
                             {'cfg': cfg, 'opts': opts, 'niter': niter, 'manifestation': 'unrelated-objects', 'when': when,
                              'decoy_seed': seed, 'whens': list(whens), 'chains': bad,
                              'how_to_replay': './check C07 --replay <this file>'}))
            break
    return findings, ncmp


# ---- pools that exist before anything else does

def _indexed(task):
    i, f, a = task
    return i, f(a)


class ProcMap:
    """`map` through an existing multiprocessing pool: default chunking, a given chunk size, or the
    tasks submitted one by one in reversed order (another schedule), results in index order."""

    def __init__(self, pool, label, chunksize=None, reverse_submit=False, timeout=240):
        self.pool, self.name, self.chunksize, self.reverse_submit, self.timeout = pool, label, chunksize, reverse_submit, timeout

    def map(self, f, args):
        import pickle
        from multiprocessing.pool import MaybeEncodingError
        args = list(args)
        try:
            if self.reverse_submit:
                hs = [self.pool.apply_async(_indexed, ((i, f, a),)) for i, a in reversed(list(enumerate(args)))]
                res = dict(h.get(timeout=self.timeout) for h in hs)
                return [res[i] for i in range(len(args))]
            return self.pool.map_async(f, args, chunksize=self.chunksize).get(timeout=self.timeout)
        except multiprocessing.TimeoutError:
            raise TimeoutError('%s did not return within %d s' % (self.name, self.timeout))
        except (MaybeEncodingError, pickle.PicklingError, BrokenPipeError, EOFError) as e:
            raise OSError('%s: transport failure %r' % (self.name, e))


POOLFIRST_CFGS = [
    ('poolfirst-pt-reset-ss-at', {'nparams': 3, 'props': [('plain', [0], False), ('plain', [1, 2], False)],
                                  'kind': ('pt', 3, False), 'nchains': 3, 'seed': 221},
     {'family': ['ss_adaptive_normal', 'at_adaptive_normal'], 'reset_after_swap': True}),
    ('poolfirst-pt-reset-ss-two-settings-ladder', {'nparams': 3, 'props': [('plain', [0], False), ('plain', [1], False),
                                                                            ('plain', [2], False)],
                                                   'kind': ('pt', 4, True), 'nchains': 3, 'seed': 222},
     {'family': ['ss_adaptive_normal', 'ss_adaptive_bounded_normal', 'at_adaptive_bounded_normal'],
      'reset_after_swap': True, 'blobs': True}),
    ('poolfirst-pt-reset-veitch-eigenvector', {'nparams': 3, 'props': [('plain', [0], False), ('plain', [1, 2], False)],
                                               'kind': ('pt', 3, False), 'nchains': 2, 'seed': 223},
     {'family': ['adaptive_normal', 'adaptive_eigenvector'], 'reset_after_swap': True, 'swap_interval': 2}),
    ('poolfirst-pt-sequence-swap3', {'nparams': 2, 'props': [('plain', [1], False)], 'kind': ('pt', 3, False),
                                     'nchains': 2, 'seed': 225},
     {'swap_interval': 3, 'reset_after_swap': True, 'family': ['ss_adaptive_normal'],
      'schedule': [4, 'c', 1, 1, 4, 2, 'c', 0, 2, 's', 3]}),
    ('poolfirst-pt-default-at-all', {'nparams': 2, 'props': [], 'kind': ('pt', 3, True), 'nchains': 2, 'seed': 226},
     {'reset_after_swap': True, 'default': {'cls': 'at_adaptive_normal', 'args': 'cov2d'}}),
    ('poolfirst-mh-default-normal-covlist-two', {'nparams': 3, 'props': [('plain', [2], False)], 'kind': ('mh',),
                                                 'nchains': 3, 'seed': 227},
     {'family': ['ss_adaptive_normal'], 'default': {'cls': None, 'args': 'covlist'}}),
    ('poolfirst-mh-adaptive', {'nparams': 3, 'props': [('plain', [0], False), ('plain', [1], False)],
                               'kind': ('mh',), 'nchains': 4, 'seed': 224},
     {'family': ['ss_adaptive_normal', 'at_adaptive_normal']}),
]


def poolfirst_cases(tier, seed):
    out = list(POOLFIRST_CFGS) if tier != 'quick' else [c for c in POOLFIRST_CFGS if c[2].get('reset_after_swap')]
    rng = random.Random(seed * 23 + 11)
    k = 0
    want = 1 if tier == 'quick' else 10
    while k < want:
        cfg = gen_cfg(rng, allow_bad=False)
        if not any(p[0] == 'plain' for p in cfg['props']):
            continue
        cfg['nchains'] = max(2, cfg['nchains'])
        cfg['seed'] = rng.randint(0, 10 ** 6)
        cfg['props'] = [(p[0], p[1] if p[1] is not None else 950 + k, p[2], p[3]) if p[0] == 'nested' else p
                        for p in cfg['props']]
        nt = rng.randint(2, 4)
        cfg['kind'] = ('pt', max(nt, 3), True) if rng.random() < 0.4 else ('pt', nt, False)
        fams = [rng.choice(ADAPTIVE_FAMILIES) for _ in range(4)]
        out.append(('poolfirst-random-%d' % k, cfg, {'family': fams, 'blobs': rng.random() < 0.3,
                                                     'swap_interval': rng.choice([1, 2]), 'reset_after_swap': True}))
        k += 1
    return out


def poolfirst_worker(spec):
    """One fresh interpreter in the order of a user's script: the pools are created first — nothing of
    epsie is imported yet, no proposal exists — then the samplers are built and run serially and
    through every pool."""
    import logging
    import warnings
    assert not any(m == 'epsie' or m.startswith('epsie.') for m in sys.modules), 'epsie imported before the pools'
    pools, unavailable = [], []
    for method, k in spec['pools']:
        try:
            ctx = multiprocessing.get_context(method)
        except ValueError:
            unavailable.append(method)
            continue
        pools.append((method, k, ctx.Pool(k)))
    logging.disable(logging.WARNING)
    warnings.filterwarnings('ignore')
    numpy.seterr(all='ignore')
    out = {'__meta__': {'unavailable_start_methods': unavailable}}
    try:
        import epsie  # noqa: F401
        import epsie.samplers  # noqa: F401
        import epsie.proposals  # noqa: F401
        snap0 = class_state_snapshot()
        for name, cfg, opts in spec['cfgs']:
            cfg = _tuplify(cfg)
            res = {'pools': {}}
            try:
                res['ref'] = c07_run(cfg, opts, None, spec['niter'])[0]
            except REAL_CODE_ERRORS as e:
                out[name] = {'error': repr(e)[:200]}
                continue
            if opts.get('reset_after_swap'):
                plain = c07_run(cfg, dict(opts, reset_after_swap=False), None, spec['niter'])[0]
                res['resets_effective'] = plain != res['ref']
            for method, k, pool in pools:
                variants = [('%s Pool(%d) created first' % (method, k), None, False)]
                if k >= 2 and method == 'fork':
                    variants += [('%s Pool(%d) created first, chunksize 2' % (method, k), 2, False),
                                 ('%s Pool(%d) created first, tasks submitted in reverse' % (method, k), None, True)]
                for label, cs, rev in variants:
                    try:
                        res['pools'][label] = c07_run(cfg, opts, ProcMap(pool, label, cs, rev), spec['niter'])[0]
                    except REAL_CODE_ERRORS as e:
                        res['pools'][label] = {'error': repr(e)[:200]}
            out[name] = res
        out['__meta__']['class_state_changed'] = class_state_diff(snap0, class_state_snapshot())
        out['__meta__']['class_state_entries'] = len(snap0)
        out['__meta__']['unpatched_random_generator'] = unpatched_random_generator()
    finally:
        for _, _, pool in pools:
            pool.terminate()
            pool.join()
    return out


def poolfirst_session(cases, pools, niter, hashseed=0, timeout=600, wait=True):
    env = dict(os.environ)
    env['PYTHONHASHSEED'] = str(hashseed)
    env['OMP_NUM_THREADS'] = '1'
    spec = json.dumps({'cfgs': cases, 'pools': pools, 'niter': niter})
    h = _start_session('poolfirst', env, spec)
    return _finish_session(h, timeout, 'C07 pool-first session') if wait else h


def poolfirst_start(chk, tier):
    """Start the pool-first session (it runs while the parent searches in process)."""
    cases = poolfirst_cases(tier, chk.seed)
    niter = 20 if tier == 'quick' else 60
    pools = [('fork', 1), ('fork', 2), ('spawn', 2)] if tier == 'quick' else \
        [('fork', 1), ('fork', 2), ('fork', 3), ('spawn', 1), ('spawn', 2), ('forkserver', 2)]
    return {'tier': tier, 'cases': cases, 'niter': niter, 'pools': pools,
            'handle': poolfirst_session(cases, pools, niter, hashseed=chk.seed % 5, wait=False)}


def poolfirst_search(chk, tier, started=None):
    st = started if started is not None and started['tier'] == tier else poolfirst_start(chk, tier)
    cases, niter, pools = st['cases'], st['niter'], st['pools']
    out = _finish_session(st['handle'], 900, 'C07 pool-first session')
    meta = out['__meta__']
    if not meta.get('unpatched_random_generator', False):
        raise RuntimeError('the C07 pool-first session did not exercise the code under test unpatched')
    findings = []
    ncmp = 0
    hist = {}
    skipped = []
    effective = 0
    for name, cfg, opts in cases:
        r = out[name]
        if 'error' in r:
            skipped.append((name, r['error'][:120]))
            continue
        effective += bool(r.get('resets_effective'))
        for label, got in sorted(r['pools'].items()):
            hist[label] = hist.get(label, 0) + 1
            base = {'cfg': cfg, 'opts': opts, 'niter': niter, 'pool': label, 'pools': pools, 'pool_first': True,
                    'manifestation': 'serial-vs-pool', 'how_to_replay': './check C07 --replay <this file>'}
            if isinstance(got, dict):
                findings.append(('pool-dependence:%s' % name, '%s: runs under pool=None but raises under %s: %s' % (
                    name, label, got['error']), base))
                break
            ncmp += len(r['ref'])
            bad = [i for i in range(len(r['ref'])) if r['ref'][i] != got[i]]
            if bad:
                diff = sorted(k for k in r['ref'][bad[0]] if r['ref'][bad[0]][k] != got[bad[0]].get(k))
                findings.append(('pool-dependence:%s' % name,
                                 '%s%s: chain(s) %s differ between pool=None and %s (the pool existed before the sampler and '
                                 'its proposals were built) %s (differing outputs of chain %d: %s)' % (
                                     name, ' (reset_after_swap=True)' if opts.get('reset_after_swap') else '', bad, label,
                                     _span(opts, niter), bad[0], ', '.join(diff[:10])), dict(base, chains=bad)))
                break
    if meta.get('class_state_changed'):
        findings.append(('class-state-mutated', 'building and running samplers changed class-level / module-level attributes of '
                         'the package (state shared by every object of the process, absent from every pickle): %s' % (
                             ', '.join(meta['class_state_changed'][:4]),),
                         {'cfg': cases[0][1], 'opts': cases[0][2], 'niter': niter, 'manifestation': 'class-state',
                          'attributes': meta['class_state_changed']}))
    for name, cfg, opts in cases[:1]:
        if 'ref' in out.get(name, {}):
            chk.samples.append({'pool_first_case': name, 'cfg': cfg, 'opts': opts, 'serial_chain_0': out[name]['ref'][0],
                                'equal_to_serial': {l: (not isinstance(g, dict)) and g == out[name]['ref']
                                                    for l, g in out[name]['pools'].items()}})
    chk.coverage.setdefault('search', {})['pools_created_before_the_sampler'] = {
        'configurations': len(cases), 'with_reset_after_swap': sum(1 for _, _, o in cases if o.get('reset_after_swap')),
        'with_resets_that_changed_the_serial_run': effective, 'pools': ['%s Pool(%d)' % tuple(p) for p in pools],
        'unavailable_start_methods': meta['unavailable_start_methods'], 'runs_per_pool': hist,
        'chain_history_comparisons': ncmp, 'skipped_because_the_real_code_raised': skipped,
        'class_level_attributes_compared_before_and_after': meta.get('class_state_entries', 0),
        'session': 'one fresh interpreter: pools first (epsie not yet imported), then samplers'}
    chk.coverage['evaluations'] = chk.coverage.get('evaluations', 0) + ncmp
    return findings


def class_state_search(chk, tier):
    """In this process: reset cross-talk inside a chain, independence of unrelated objects, class-level
    attributes before / after."""
    if not unpatched_random_generator():
        raise RuntimeError('BaseRandom.random_generator is patched from outside while the C07 search runs')
    niter = 20 if tier == 'quick' else 60
    whens = ('built+mid',) if tier == 'quick' else ('before', 'built', 'mid')
    findings = []
    snap0 = class_state_snapshot()
    cases = [(n, c, o) for n, c, o in c07_cfgs(tier, chk.seed) + poolfirst_cases(tier, chk.seed)
             if c['kind'][0] == 'pt' and o.get('reset_after_swap')]
    if tier == 'quick':
        cases = cases[:3] + cases[-1:]          # the last one is generated from the seed
    nres = nadapt = ndistinct = ncmp = 0
    skipped = []
    for name, cfg, opts in cases:
        try:
            f, a, b, distinct = reset_crosstalk(name, cfg, opts, niter)
            findings += f
            nres += a
            nadapt += b
            ndistinct += distinct
            f, n = decoy_independence(name, cfg, opts, niter, chk.seed * 3 + 70, whens)
            findings += f
            ncmp += n
        except REAL_CODE_ERRORS as e:
            skipped.append((name, repr(e)[:120]))
    changed = class_state_diff(snap0, class_state_snapshot())
    if changed:
        findings.append(('class-state-mutated', 'building and running samplers changed class-level / module-level attributes of '
                         'the package (state shared by every object of the process, absent from every pickle): %s' % (
                             ', '.join(changed[:4]),),
                         {'cfg': cases[0][1], 'opts': cases[0][2], 'niter': niter, 'manifestation': 'class-state',
                          'attributes': changed}))
    chk.coverage.setdefault('search', {})['class_level_state'] = {
        'configurations': len(cases), 'resets_compared_with_the_constructed_values': nres,
        'of_which_had_adapted_away_before_the_reset': nadapt,
        'configurations_with_distinct_initial_settings_in_one_chain': ndistinct,
        'unrelated_object_comparisons': ncmp, 'class_level_attributes_compared_before_and_after': len(snap0),
        'skipped_because_the_real_code_raised': skipped,
        'oracle': 'after a reset the public state of each adaptive proposal (without clock and generator) equals that '
                  'of the user\'s untouched object it was copied from; chains bit-identical with / without unrelated '
                  'proposals constructed before / after the sampler / between runs; class-level attributes unchanged'}
    chk.coverage['evaluations'] = chk.coverage.get('evaluations', 0) + nres + ncmp
    return findings


# --------------------------------------------------------------------------
# C07: the caller's input objects, and samplers that are given the same ones
# --------------------------------------------------------------------------
#
# What a pool cannot do, a serial run may not do either: change the objects the caller passed in
# (start arrays, betas array, proposal objects, model, parameter list).  And two samplers that are
# given the SAME objects must behave as if each had been given its own copies: a serial and a pooled
# sampler started from one dictionary of arrays, and a sampler whose start differs in one chain only.
# Every proposal family of harness/families.py (angular, discrete, solid angle with radec / degs
# flags, ...), Metropolis-Hastings (the chains get 0-d views of the caller's arrays) and parallel
# tempered.

def input_case(family, kind, flags, seed, optional):
    """The input objects of one case, made from `seed` (nothing else): dict with parameters, start
    arrays, betas array, proposal objects, model; plus how to draw a replacement start for one chain."""
    import families as F
    rng = random.Random(seed)
    if family.startswith('default:'):
        return default_input_case(family, kind, seed, rng)
    cls, pkind, lo, hi = F.FAMILIES[family]
    n = max(lo, min(hi, 2))
    names = ['q%d' % j for j in range(n)]
    doms = {p: (tuple(flags) if pkind == 'sphere' else F.domain_for(pkind, rng, j)) for j, p in enumerate(names)}
    nchains, betas = 3, numpy.array([1.0, 0.5, 0.25])
    shape = (nchains,) if kind == 'mh' else (len(betas), nchains)

    def values(j, p, size):
        return [F.start_value(pkind, doms[p], rng, which=j) for _ in range(size)]
    dtype = int if pkind in ('int', 'intbox') else float
    start = {p: numpy.array(values(j, p, int(numpy.prod(shape))), dtype=dtype).reshape(shape)
             for j, p in enumerate(names)}
    start['x'] = numpy.array([rng.uniform(-1, 1) for _ in range(int(numpy.prod(shape)))]).reshape(shape)
    prop = F.make(family, names, doms, random.Random(seed + 1), window=8, optional=optional)
    allnames = names + ['x']
    annealer = None
    if kind == 'pt' and seed % 3 != 0:
        from epsie.chain.ptchain import DynamicalAnnealer
        annealer = DynamicalAnnealer(tau=20, nu=4)
    return {'parameters': allnames, 'start': start, 'betas': betas, 'proposals': [prop], 'annealer': annealer,
            'model': G.QuadModel(allnames, blobs=seed % 2 == 1, box=1000.0), 'kind': kind,
            'seed': seed % 1000 + 1, 'nchains': nchains,
            'redraw': lambda: {p: numpy.array(values(j, p, int(numpy.prod(shape[:-1]))), dtype=dtype).reshape(shape[:-1])
                               for j, p in enumerate(names)}}


def default_input_case(family, kind, seed, rng):
    """`default:<class>:<argument form>:<number of parameters left to the default proposal>`: the sampler
    arguments default_proposal / default_proposal_args; the objects inside the arguments are the caller's."""
    from epsie import proposals as P
    _, clsname, form, nmiss = family.split(':')
    clsname = None if clsname == 'None' else clsname
    allnames = ['q0', 'q1', 'x']
    missing = {'1': ['q1'], '2': ['q0', 'q1'], 'all': list(allnames)}[nmiss]
    given = [p for p in allnames if p not in missing]
    n = len(missing)
    cls = None if clsname is None else getattr(P, DEFAULT_CLASSES[clsname])
    if clsname == 'at_adaptive_normal':
        args = {'adaptation_duration': 12, 'diagonal': form == 'cov1d'}
    elif clsname == 'adaptive_normal':
        args = {'prior_widths': {p: 3.0 + 0.5 * i for i, p in enumerate(missing)}, 'adaptation_duration': 12,
                'initial_std': numpy.array([0.25 + 0.125 * i for i in range(n)])}
    elif form == 'cov2d':
        cov = numpy.full((n, n), 0.0625)
        cov[numpy.diag_indices(n)] = [0.375 + 0.125 * i for i in range(n)]
        args = {'cov': cov}
    elif form == 'cov1d':
        args = {'cov': numpy.array([0.375 + 0.125 * i for i in range(n)])}
    else:
        args = {'cov': [0.375 + 0.125 * i for i in range(n)]}
    nchains, betas = 3, numpy.array([1.0, 0.5, 0.25])
    shape = (nchains,) if kind == 'mh' else (len(betas), nchains)
    size = int(numpy.prod(shape))
    start = {p: numpy.array([rng.uniform(-1, 1) for _ in range(size)]).reshape(shape) for p in allnames}
    return {'parameters': allnames, 'start': start, 'betas': betas,
            'proposals': [P.SSAdaptiveNormal(given, cov=0.25)] if given else [], 'annealer': None,
            'default': (cls, args), 'model': G.QuadModel(allnames, blobs=seed % 2 == 1, box=1000.0), 'kind': kind,
            'seed': seed % 1000 + 1, 'nchains': nchains,
            'redraw': lambda: {p: numpy.array([rng.uniform(-1, 1) for _ in range(int(numpy.prod(shape[:-1])))]).reshape(
                shape[:-1]) for p in allnames[:2]}}


def input_digests(inp):
    import pickle
    d = {'start[%s]' % p: sha(a) for p, a in inp['start'].items()}
    if inp.get('default'):
        d['default_proposal_args'] = sha(inp['default'][1])
        d['default_proposal_args (pickled)'] = hashlib.sha1(pickle.dumps(inp['default'][1])).hexdigest()[:16]
    d['start (keys)'] = sha(list(inp['start']))
    d['betas'] = sha(inp['betas'])
    d['parameters'] = sha(list(inp['parameters']))
    d['proposal objects'] = hashlib.sha1(pickle.dumps(inp['proposals'])).hexdigest()[:16]
    d['model'] = hashlib.sha1(pickle.dumps(inp['model'])).hexdigest()[:16]
    d['annealer'] = hashlib.sha1(pickle.dumps(inp['annealer'])).hexdigest()[:16]
    return d


def input_sampler(inp, pool):
    from epsie.samplers import MetropolisHastingsSampler, ParallelTemperedSampler
    kw = {}
    if inp.get('default'):
        kw = {'default_proposal': inp['default'][0], 'default_proposal_args': inp['default'][1]}
    if inp['kind'] == 'mh':
        return MetropolisHastingsSampler(inp['parameters'], inp['model'], inp['nchains'], proposals=inp['proposals'],
                                         seed=inp['seed'], pool=pool, **kw)
    return ParallelTemperedSampler(inp['parameters'], inp['model'], inp['nchains'], inp['betas'], swap_interval=2,
                                   proposals=inp['proposals'], adaptive_annealer=inp['annealer'], seed=inp['seed'],
                                   pool=pool, **kw)


def input_case_run(family, kind, flags, seed, optional, pools=None, runs=(3, 4)):
    """Returns (findings, number of digest checks, number of chain comparisons)."""
    import logging
    logging.disable(logging.WARNING)
    pools = pools if pools is not None else [PickleMap()]
    tag = '%s/%s%s' % (kind, family, '(radec=%s, degs=%s)' % tuple(flags) if flags else '')
    base = {'inputs_case': {'family': family, 'kind': kind, 'flags': list(flags) if flags else None, 'seed': seed,
                            'optional': optional, 'runs': list(runs)},
            'how_to_replay': './check C07 --replay <this file>'}
    findings = []
    nchk = ncmp = 0
    inp = input_case(family, kind, flags, seed, optional)
    # reference: a sampler that has every input object to itself
    own = copy.deepcopy({k: v for k, v in inp.items() if k != 'redraw'})
    R = input_sampler(own, None)
    R.start_position = own['start']
    for n in runs:
        R.run(n)
    ref = [chain_parts_full(c) for c in R.chains]
    expect = input_digests(inp)
    values = {p: a.copy() for p, a in inp['start'].items()}
    betas0 = inp['betas'].copy()
    dargs0 = copy.deepcopy(inp['default'][1]) if inp.get('default') else {}

    def check(what):
        nonlocal nchk
        nchk += 1
        now = input_digests(inp)
        bad = sorted(k for k in expect if expect[k] != now.get(k))
        if bad and not any(f[0].startswith('input-mutated') for f in findings):
            detail = ''
            for k, v in dargs0.items():
                if 'default_proposal_args' in bad and sha(v) != sha(inp['default'][1].get(k)):
                    detail = ': default_proposal_args[%r] was %s and is now %s' % (
                        k, numpy.array2string(numpy.asarray(v), precision=5).replace('\n', ''),
                        numpy.array2string(numpy.asarray(inp['default'][1].get(k)), precision=5).replace('\n', ''))
            if 'betas' in bad:
                detail = ': betas was %s and is now %s' % (numpy.array2string(betas0, precision=5),
                                                          numpy.array2string(inp['betas'], precision=5))
            for p, a in inp['start'].items():
                if 'start[%s]' % p in bad:
                    detail = ': start[%r] was %s and is now %s' % (
                        p, numpy.array2string(values[p], precision=5).replace('\n', ''),
                        numpy.array2string(a, precision=5).replace('\n', ''))
                    break
            findings.append(('input-mutated:' + tag, '%s: %s changed objects the caller passed in (%s)%s' % (
                tag, what, ', '.join(bad), detail), dict(base, manifestation='input-mutated', step=what, changed=bad)))
        return not bad

    samplers = []
    for pool in [None] + pools:
        samplers.append((pool, input_sampler(inp, pool)))
        check('constructing a %s sampler' % ('serial' if pool is None else pool.name))
    for pool, smp in samplers:
        smp.start_position = inp['start']
        check('setting the start of the %s sampler' % ('serial' if pool is None else pool.name))
    for n in runs:
        for pool, smp in samplers:
            smp.run(n)
            check('run(%d) of the %s sampler' % (n, 'serial' if pool is None else pool.name))
    for pool, smp in samplers:
        got = [chain_parts_full(c) for c in smp.chains]
        ncmp += len(ref)
        bad = [i for i in range(len(ref)) if ref[i] != got[i]]
        if bad:
            diff = sorted(k for k in ref[bad[0]] if ref[bad[0]][k] != got[bad[0]].get(k))
            findings.append(('shared-inputs:' + tag, '%s: a serial and %d pooled sampler(s) were given the SAME start arrays, '
                             'betas, proposal objects and model; the %s one differs in chain(s) %s from a sampler that has '
                             'copies of its own (differing outputs of chain %d: %s)' % (
                                 tag, len(pools), 'serial' if pool is None else pool.name, bad, bad[0], ', '.join(diff[:8])),
                             dict(base, manifestation='shared-inputs', pool=None if pool is None else pool.name,
                                  chains=bad)))
            break
    # the caller moves the start of the last chain in the same arrays and builds another sampler from them
    j = inp['nchains'] - 1
    new = inp['redraw']()
    for p, v in new.items():
        inp['start'][p][..., j] = v
    inp['start']['x'][..., j] += 0.375
    expect = input_digests(inp)
    values = {p: a.copy() for p, a in inp['start'].items()}
    C = input_sampler(inp, None)
    C.start_position = inp['start']
    for n in runs:
        C.run(n)
    check('a second serial sampler built from the same objects (start of chain %d moved)' % j)
    got = [chain_parts_full(c) for c in C.chains]
    ncmp += len(ref) - 1
    vacuous = got[j] == ref[j]
    bad = [i for i in range(len(ref)) if i != j and ref[i] != got[i]]
    if bad:
        diff = sorted(k for k in ref[bad[0]] if ref[bad[0]][k] != got[bad[0]].get(k))
        findings.append(('shared-inputs:' + tag, '%s: after other samplers were built from the same start arrays and run, a '
                         'sampler built from them with only the start of chain %d moved differs in chain(s) %s from the '
                         'reference (differing outputs of chain %d: %s)' % (tag, j, bad, bad[0], ', '.join(diff[:8])),
                         dict(base, manifestation='shared-inputs', perturbed=j, chains=bad)))
    return findings, nchk, ncmp, vacuous


SPHERE_FLAGS = [(False, False), (True, False), (False, True), (True, True)]


def input_cases(tier, seed):
    """[(family, kind, flags, case seed, optional)]"""
    import families as F
    rng = random.Random(seed * 37 + 13)
    out = []
    fams = sorted(F.FAMILIES)
    for i, fam in enumerate(fams):
        sphere = F.FAMILIES[fam][1] == 'sphere'
        flagsets = SPHERE_FLAGS if sphere else [None]
        for fl in flagsets:
            kinds = ['mh', 'pt'] if tier != 'quick' or (i + seed) % 3 == 0 else ['mh']
            for kind in kinds:
                out.append((fam, kind, fl, rng.randint(0, 10 ** 6), rng.choice([None, rng.randint(0, 99)])))
        if tier != 'quick':
            for _ in range(2):
                out.append((fam, rng.choice(['mh', 'pt']), rng.choice(SPHERE_FLAGS) if sphere else None,
                            rng.randint(0, 10 ** 6), rng.randint(0, 99)))
    # the sampler arguments default_proposal / default_proposal_args (1, 2, all parameters unlisted)
    dflt = [('ss_adaptive_normal', 'cov2d', 'all', 'mh'), ('ss_adaptive_normal', 'cov2d', '2', 'pt'),
            ('at_adaptive_normal', 'cov2d', '2', 'mh'), ('adaptive_normal', 'cov1d', '1', 'pt'),
            ('None', 'cov2d', 'all', 'pt'), ('None', 'cov1d', '2', 'mh'), ('None', 'covlist', '1', 'mh')]
    if tier != 'quick':
        dflt = [(c, f, n, k) for c in ('None', 'ss_adaptive_normal', 'at_adaptive_normal', 'adaptive_normal')
                for f in ('cov2d', 'cov1d', 'covlist') for n in ('1', '2', 'all') for k in ('mh', 'pt')]
    for c, f, n, k in dflt:
        out.append(('default:%s:%s:%s' % (c, f, n), k, None, rng.randint(0, 10 ** 6), None))
    return out


def inputs_search(chk, tier):
    if not unpatched_random_generator():
        raise RuntimeError('BaseRandom.random_generator is patched from outside while the C07 search runs')
    cases = input_cases(tier, chk.seed)
    pools = [PickleMap()] if tier == 'quick' else [PickleMap(), CopyPool()]
    runs = (2, 2) if tier == 'quick' else (3, 4)
    findings = []
    nchk = ncmp = nvac = 0
    skipped = []
    hist = {}
    for fam, kind, flags, cseed, optional in cases:
        try:
            f, a, b, vac = input_case_run(fam, kind, flags, cseed, optional, pools, runs)
        except REAL_CODE_ERRORS as e:
            skipped.append(('%s/%s' % (kind, fam), repr(e)[:120]))     # the real code raised: other properties
            continue
        findings += f
        nchk += a
        ncmp += b
        nvac += vac
        hist[kind] = hist.get(kind, 0) + 1
    chk.coverage.setdefault('search', {})['caller_inputs'] = {
        'cases': len(cases), 'families': len({c[0] for c in cases if not c[0].startswith('default:')}), 'by_sampler': hist,
        'default_proposal_cases': sum(1 for c in cases if c[0].startswith('default:')),
        'tempered_cases_with_a_dynamic_ladder': sum(1 for c in cases if c[1] == 'pt' and c[3] % 3 != 0),
        'solid_angle_flag_combinations': len({tuple(c[2]) for c in cases if c[2]}),
        'with_non_default_optional_arguments': sum(1 for c in cases if c[4] is not None),
        'input_digest_checks': nchk, 'chain_history_comparisons': ncmp,
        'perturbations_that_changed_nothing_in_the_moved_chain': nvac,
        'pools': [p.name for p in pools], 'skipped_because_the_real_code_raised': skipped,
        'oracle': 'digests of the start arrays, the betas array, the parameter list, the pickled proposal objects, the '
                  'pickled annealer and the pickled model unchanged after every construction / start / run (serial and pooled); a serial '
                  'and a pooled sampler given the SAME objects, and a later sampler with one chain\'s start moved in '
                  'the same arrays, bit-identical (chains i != j) to a sampler that has copies of its own'}
    chk.coverage['evaluations'] = chk.coverage.get('evaluations', 0) + nchk + ncmp
    return findings


def sharing_findings(tier):
    """The real object graph after construction, start and a run: nothing but what the model
    names may be reachable from two chains. Returns [(cfg name, kinds)]."""
    out = []
    for name, cfg, opts in C07_CFGS:
        try:
            _, s = c07_run(cfg, opts, None, 6)
        except REAL_CODE_ERRORS:
            continue
        out.append((name, cfg, sorted({k for k, _, _ in G.cross_chain(s)})))
    return out


# --------------------------------------------------------------------------
# glue shared by props/C04.py and props/C07.py
# --------------------------------------------------------------------------

def refresh_tables(chk, proof_ok):
    """Regenerate Generated/Sharing.lean from the current /repo (idempotent).  If the file on disk
    was stale (the build step did not call the generator, or /repo changed since), rebuild and
    re-audit so that the `decide` obligations are about the current code."""
    import fcntl
    os.makedirs(os.path.join(common.LEAN_DIR, '.lake'), exist_ok=True)
    with open(os.path.join(common.LEAN_DIR, '.lake', 'verif.lock'), 'w') as lockf:
        fcntl.flock(lockf, fcntl.LOCK_EX)
        try:
            changed, info = G.main(quiet=True)
        finally:
            fcntl.flock(lockf, fcntl.LOCK_UN)
    targets = common.prop_modules(chk.prop) if hasattr(common, 'prop_modules') else ['EpsieProps.' + chk.prop]
    if changed:
        # only when the build step did not call the generator (or /repo changed in between)
        build = common.lean_build(targets)
        keep = [o for o in chk.obligations if str(o[0]).startswith('leanchecker')]
        chk.obligations = []
        proof_ok = chk.lean(build) and all(o[1] for o in keep)
        chk.obligations += keep
        if not build.ok:
            print(build.log[-3000:])
        chk.notes.append('EpsieModel/Generated/Sharing.lean was stale: regenerated from /repo, rebuilt, re-audited')
    global _VARIANT
    v = _VARIANT = info['variant']
    excluded = []
    if v['defaultOrder'] == 'hashSet':
        excluded.append('C04_env_independent does not cover configurations with >= 2 defaulted parameters on today\'s '
                        'code (measured: set_proposals orders them by set iteration); searched on the real code instead')
    if not v['reseatsInner']:
        excluded.append('C04_chain_owns_its_draw_sites / C04_env_independent do not cover nested transdimensional '
                        'configurations on today\'s code (measured: re-seating does not reach inside); searched instead')
    if not v['annealerPerChain']:
        excluded.append('C07_built_sampler_pool_irrelevant does not cover PT samplers with an annealer on today\'s code '
                        '(measured: one annealer instance for all chains); searched instead')
    chk.coverage['measured_variant'] = v
    chk.coverage['scan_sites'] = [list(x[:5]) for x in info['sites']]
    if info['errors']:
        chk.notes.append('table generator probe errors: %s' % info['errors'])
    return proof_ok, info, excluded


def report(chk, proof_ok, divs, findings, suite='streams'):
    """One violation per key (stable id of the defect / failing input); a broken proof obligation or
    correspondence with no new failing input is reported as `unproved`."""
    for key, text, _ in findings:
        if key == 'harness-note' and text not in chk.notes:
            chk.notes.append(text)
    findings = [f for f in findings if f[0] != 'harness-note']
    grouped = {}
    prio = {'sessions-differ': 0, 'serial-vs-pool': 1, 'perturbation': 2, 'rebuild-differs': 3, 'foreign-stream': 4,
            'same-stream': 5, 'preuse-differs': 3}
    findings = sorted(findings, key=lambda f: prio.get(f[2].get('manifestation'), 9))     # stable
    # one violation per family of keys (`sessions-differ:*`, `pool-dependence:*`, ...): the key reported is
    # the family's first configuration in name order, the payload lists every affected configuration
    fam_keys = {}
    for key, _, _ in findings:
        fam_keys.setdefault(key.split(':')[0], set()).add(key)
    rep = {fam: sorted(ks)[0] for fam, ks in fam_keys.items()}
    findings = sorted(findings, key=lambda f: 0 if f[0] == rep[f[0].split(':')[0]] else 1)      # stable
    for key0, text, payload in findings:
        key = rep[key0.split(':')[0]]
        g = grouped.setdefault(key, {'text': text, 'payload': dict(payload), 'n': 0, 'manifestations': []})
        g['n'] += 1
        g.setdefault('all_keys', set()).add(key0)
        m = payload.get('manifestation')
        if m and m not in g['manifestations']:
            g['manifestations'].append(m)
        if len(g.setdefault('examples', [])) < 4:
            g['examples'].append(text)
    nviol = len(chk.violations)
    for key in sorted(grouped):
        g = grouped[key]
        payload = g['payload']
        payload['occurrences'] = g['n']
        payload['manifestations'] = g['manifestations']
        payload['examples'] = g['examples']
        payload['all_keys'] = sorted(g['all_keys'])
        payload.setdefault('how_to_replay', './check %s --replay <this file>' % chk.prop)
        chk.violation(key, g['text'] + (' [%d occurrences; manifestations: %s]' % (g['n'], ', '.join(g['manifestations']))
                                        if g['n'] > 1 else ''), payload, True)
    broken = []
    if not proof_ok:
        broken += ['lean: ' + str(o[0]) + ' ' + str(o[2]) for o in chk.broken_obligations()]
    if divs:
        d = divs[0]
        broken.append('correspondence suite %s: %d diverging case(s); first: cfg %s: model %r vs real %r' % (
            suite, len(divs), json.dumps(d['cfg']), str(d['model'])[:300], str(d['real'])[:300]))
    if broken and len(chk.violations) == nviol:
        chk.violation('unproved', '; '.join(broken)[:1500], {
            'no_longer_checks': broken, 'cfg': divs[0]['cfg'] if divs else None,
            'how_to_replay': './check %s --replay <this file>' % chk.prop}, False)
    elif broken:
        chk.notes.append('also broken: ' + '; '.join(broken)[:800])


# --------------------------------------------------------------------------
# replay
# --------------------------------------------------------------------------

def replay(path):
    import logging
    logging.disable(logging.WARNING)
    d = json.load(open(path))
    key = d.get('key', '')
    if d.get('inputs_case'):
        c = d['inputs_case']
        f, nchk, ncmp, _ = input_case_run(c['family'], c['kind'], tuple(c['flags']) if c.get('flags') else None,
                                          c['seed'], c.get('optional'), runs=tuple(c.get('runs', (3, 4))))
        for _, t, _ in f:
            print(t)
        print('%d digest checks of the caller\'s objects, %d chain comparisons: %s' % (
            nchk, ncmp, 'VIOLATED' if f else 'inputs unchanged, samplers independent'))
        return 1 if f else 0
    cfg = d.get('cfg')
    if cfg is None:
        print('replay file carries no configuration; it names what no longer checks:', d.get('no_longer_checks'))
        return 0
    cfg = _tuplify(cfg)
    opts = d.get('opts', {})
    man = d.get('manifestation')
    if man == 'reset-crosstalk':
        f, nres, nadapt, _ = reset_crosstalk('replay', cfg, opts, d.get('niter', 24))
        for _, t, _ in f:
            print(t)
        print('%d resets compared with the constructed values (%d had adapted away): %s' % (
            nres, nadapt, 'DIFFER' if f else 'all restored'))
        return 1 if f else 0
    if man == 'unrelated-objects':
        f, n = decoy_independence('replay', cfg, opts, d.get('niter', 24), d.get('decoy_seed', 70),
                                  tuple(d.get('whens', ('before', 'built', 'mid'))))
        for _, t, _ in f:
            print(t)
        print('%d chain histories compared with / without unrelated proposals: %s' % (n, 'DIFFER' if f else 'identical'))
        return 1 if f else 0
    if man == 'class-state':
        import epsie.proposals  # noqa: F401
        import epsie.samplers  # noqa: F401
        snap0 = class_state_snapshot()
        c07_run(cfg, opts, None, d.get('niter', 24))
        changed = class_state_diff(snap0, class_state_snapshot())
        print('class-level / module-level attributes changed by building and running a sampler: %s' % (changed or 'none'))
        return 1 if changed else 0
    if man == 'serial-vs-pool' and d.get('pool_first'):
        out = poolfirst_session([('replay', cfg, opts)], d.get('pools', [['fork', 2], ['spawn', 2]]), d.get('niter', 24))
        r = out['replay']
        bad_any = False
        for label, got in sorted(r.get('pools', {}).items()):
            bad = got if isinstance(got, dict) else [i for i in range(len(r['ref'])) if r['ref'][i] != got[i]]
            bad_any = bad_any or bool(bad)
            print('pool=None vs %s: differing chains %s' % (label, bad))
        print('class-level attributes changed: %s' % (out['__meta__'].get('class_state_changed') or 'none'))
        return 1 if bad_any else 0
    if man == 'input-mutated' and 'family' not in d:
        ref, _ = c07_run(cfg, opts, None, d.get('niter', 24), unshare_annealer=d.get('unshare', False))
        touched = [i for i, r in enumerate(ref) if not r['caller_start_arrays_unchanged']]
        print('start arrays passed in by the caller changed by the serial run: entries of chains %s' % (touched or 'none'))
        return 1 if touched else 0
    if d.get('property') == 'C07' or man in ('serial-vs-pool', 'perturbation'):
        niter = d.get('niter', 24)
        un = d.get('unshare', False)
        ref, _ = c07_run(cfg, opts, None, niter, unshare_annealer=un)
        if man == 'perturbation':
            pool = CopyPool() if d.get('pool') else None
            got, _ = c07_run(cfg, opts, pool, niter, perturb=d['perturbed'], unshare_annealer=un)
            bad = [i for i in range(len(ref)) if i != d['perturbed'] and ref[i] != got[i]]
            print('perturbing chain %d changes chains %s' % (d['perturbed'], bad))
        else:
            pool = {'pickle-map': PickleMap(), 'chunk-copy-2': ChunkCopyPool(2)}.get(d.get('pool'), CopyPool())
            got, _ = c07_run(cfg, opts, pool, niter, unshare_annealer=un)
            bad = [i for i in range(len(ref)) if ref[i] != got[i]]
            print('pool=None vs %s: differing chains %s' % (pool.name, bad))
            for i in bad[:1]:
                print('differing outputs of chain %d: %s' % (i, ', '.join(sorted(k for k in ref[i] if ref[i][k] != got[i].get(k)))))
            if opts.get('schedule'):
                print('schedule (n = run(n), c = clear, s = reload own state, S = save / rebuild / load): %s; an output '
                      '"k:name" was read after step k of it' % (opts['schedule'],))
        return 1 if bad else 0
    if man == 'preuse-differs':
        runs, calls = preuse_runs(cfg, opts, d.get('niter', 24), d.get('ndraws', 1),
                                  gens=tuple(d.get('gens', PREUSE_GENS)))
        for t in sorted(runs):
            print('%-16s %s' % (t, runs[t].get('error') or ' '.join('%s=%s' % kv for kv in sorted(runs[t].items()))))
        upd = sorted((t for t in runs if t.startswith('updated')), key=lambda t: (t != 'updated:None', t))
        bad = [t for t in ('used', 'reused') if runs.get(t) != runs['pristine']] + \
              [t for t in upd[1:] if runs[t] != runs[upd[0]]]
        print('calls made on the objects before the sampler got them: %s' % calls)
        print('variants that differ from their reference (pristine / %s): %s' % (upd[0], bad or 'none'))
        print('unpatched BaseRandom.random_generator: %s' % unpatched_random_generator())
        return 1 if bad else 0
    if man == 'rebuild-differs':
        a, _ = run_one(cfg, opts, d.get('niter', 24))
        b, _ = run_one(cfg, opts, d.get('niter', 24))
        same = sampler_parts(a) == sampler_parts(b)
        print('built and run twice in this session: outputs %s' % ('identical' if same else 'DIFFER'))
        return 0 if same else 1
    if man == 'sessions-differ' or key.startswith('sessions-differ'):
        sess = [tuple(s) for s in d.get('sessions', [[0, 1], [1, 2]])]
        outs = spawn_sessions([('replay', cfg, opts)], sess, d.get('niter', 24))
        a, b = outs[0][1]['replay'], outs[1][1]['replay']
        same = a.get('parts') == b.get('parts')
        print('sessions %s: default orders %r / %r; outputs %s' % (sess, a.get('default_order'), b.get('default_order'),
                                                                 'identical' if same else 'DIFFER'))
        return 0 if same else 1
    s, info = G.build_real(cfg, family=opts.get('family', 'normal'), rng=random.Random(9))
    f = coinciding_streams(cfg, s, info)
    _, fnd, _ = dynamic_findings(cfg, s, info)
    for k, t, _ in f + fnd:
        print(k, t)
    return 1 if (f or fnd) else 0


if __name__ == '__main__':
    if len(sys.argv) > 1 and sys.argv[1] == 'worker':
        spec = json.loads(sys.stdin.read())
        print(json.dumps(worker(spec)))
    elif len(sys.argv) > 1 and sys.argv[1] == 'poolfirst':
        spec = json.loads(sys.stdin.read())
        print(json.dumps(poolfirst_worker(spec)))
