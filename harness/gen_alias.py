#!/venv/bin/python
"""Regenerate lean/EpsieModel/Generated/Alias.lean from /repo's current source.

The aliasing facts that the general theorems of EpsieProps/C16.lean and
EpsieProps/C19.lean take as hypotheses, *measured on live instances* of every
exported proposal family and of the constructor variants that change which
arrays exist (Andrieu-Thoms diagonal / full / componentwise, Sivia-Skilling
with a full covariance matrix): per attribute that defines the proposal
distribution

  adapted        some `_update` changes the attribute's value
  inplace        some `_update` changes the content of the bound array object
                 while the attribute keeps pointing at it (`*=`, `+=`)
  hot            some `_update` changes the content of the array object the
                 attribute was bound to *before* that update (through this
                 attribute or through another one sharing its memory)
  inState        `state` carries the attribute
  liveInState    at some observed point `state[key]` shares memory with a live
                 array attribute of the proposal
  aliasedByLoad  after `set_state(obj)` (no serialisation) the attribute shares
                 memory with an array inside `obj`
  storeAliases   at construction `_initial_proposal_params[attr]` shares memory
                 with a live array attribute
  reset          what `_reset_adaptation` does to the attribute:
                 none / alias (installs the stored object itself) / copy /
                 recompute (not stored, but re-assigned by the reset call)

plus the behaviour observed on a forced history (snapshot stable, loaded copy
decoupled, 1st/2nd/3rd reset restores the construction-time distribution and sets
`start_step = max(nsteps, 1)`).

Identity is observed with `is` / `numpy.shares_memory` only; nothing is parsed.
Deterministic and idempotent: no wall clock, no hash order, fixed seeds; the
file is rewritten only when its text changes.
"""
import os
import random
import sys

sys.path.insert(0, os.path.dirname(os.path.abspath(__file__)))
import common  # noqa: E402  (puts /repo on sys.path)

import numpy  # noqa: E402

import families as F  # noqa: E402
import forcing  # noqa: E402
import instrument as I  # noqa: E402
from epsie.chain import Chain  # noqa: E402
from epsie import proposals as P  # noqa: E402
from epsie.proposals.base import BaseAdaptiveSupport  # noqa: E402

OUT = os.path.join(common.LEAN_DIR, 'EpsieModel', 'Generated', 'Alias.lean')
IGNORED = set(I._IGNORED_ATTRS)
WINDOW = 9
PATTERN = 'AAR'


def lbool(b):
    return 'true' if b else 'false'


def lstr(s):
    return '"' + str(s).replace('\\', '\\\\').replace('"', '\\"') + '"'


def llist(items):
    return '[' + ', '.join(items) + ']'


# --------------------------------------------------------------------------
# variants
# --------------------------------------------------------------------------

def _chain_for(prop, kind, names, doms, rng, seed):
    model = forcing.ForcedModel(PATTERN)
    ch = Chain(names, model, [prop], bit_generator=seed)
    start = {}
    for i, p in enumerate(names):
        start[p] = F.start_value(kind, doms[p], rng, i if kind == 'sphere' else 0)
    ch.start_position = start
    return ch, prop, model


def _extra(ctor, kind, n):
    """A builder for a constructor variant that harness/families.py does not reach."""
    def build(seed=11):
        rng = random.Random(17)
        names = ['x%d' % i for i in range(n)]
        doms = {p: F.domain_for(kind, rng, i) for i, p in enumerate(names)}
        prop = ctor(names, doms)
        return _chain_for(prop, kind, names, doms, rng, seed)
    return build


def _base(name):
    cls, kind, lo, hi = F.FAMILIES[name]

    def build(seed=11):
        return forcing.make_chain(name, rng=random.Random(17), pattern=PATTERN, window=WINDOW,
                                  nparams=max(lo, 2) if hi >= 2 else lo, seed=seed)
    return build


def variants():
    """(variant name, family name, builder) in a fixed order."""
    out = []
    exported = F.exported_proposal_classes()
    for name in sorted(exported):
        if name not in F.FAMILIES:
            out.append((name, name, None))
            continue
        out.append((name, name, _base(name)))
    T = WINDOW
    fullcov = numpy.array([[0.30, 0.05], [0.05, 0.20]])
    extra = [
        ('at_adaptive_normal/full', 'at_adaptive_normal', 'real',
         lambda ps, d: P.ATAdaptiveNormal(ps, T, diagonal=False)),
        ('at_adaptive_normal/diag', 'at_adaptive_normal', 'real',
         lambda ps, d: P.ATAdaptiveNormal(ps, T, diagonal=True)),
        ('at_adaptive_normal/full+componentwise', 'at_adaptive_normal', 'real',
         lambda ps, d: P.ATAdaptiveNormal(ps, T, diagonal=False, componentwise=True)),
        ('at_adaptive_normal/diag+componentwise', 'at_adaptive_normal', 'real',
         lambda ps, d: P.ATAdaptiveNormal(ps, T, diagonal=True, componentwise=True)),
        ('at_adaptive_bounded_normal/componentwise', 'at_adaptive_bounded_normal', 'box',
         lambda ps, d: P.ATAdaptiveBoundedNormal(ps, {p: d[p] for p in ps}, T, componentwise=True)),
        ('at_adaptive_angular/componentwise', 'at_adaptive_angular', 'angle',
         lambda ps, d: P.ATAdaptiveAngular(ps, T, componentwise=True)),
        ('ss_adaptive_normal/fullcov', 'ss_adaptive_normal', 'real',
         lambda ps, d: P.SSAdaptiveNormal(ps, cov=fullcov.copy())),
    ]
    for vname, fam, kind, ctor in extra:
        if fam in exported and fam in F.FAMILIES:
            out.append((vname, fam, _extra(ctor, kind, 2)))
    return out


# --------------------------------------------------------------------------
# observation helpers
# --------------------------------------------------------------------------

def vdigest(v):
    """Bit-exact digest of one attribute value."""
    if isinstance(v, numpy.ndarray):
        return ('a', v.dtype.str, v.shape, v.tobytes())
    if isinstance(v, (float, numpy.floating)):
        return ('f', float(v).hex())
    if isinstance(v, dict):
        return ('d', repr(sorted((ktext(a), repr(b)) for a, b in v.items())))
    if isinstance(v, (set, frozenset)):
        return ('s', repr(sorted(repr(x) for x in v)))
    return ('o', repr(v))


def dist_attrs(prop):
    return {k: v for k, v in prop.__dict__.items() if k not in IGNORED and k != '_initial_proposal_params'}


def arrays_of(prop):
    return {k: v for k, v in dist_attrs(prop).items() if isinstance(v, numpy.ndarray)}


def digest_of(prop):
    return {k: vdigest(v) for k, v in dist_attrs(prop).items()}


def ktext(k):
    """Canonical text of a dictionary key: the repr of a frozenset depends on its history."""
    if isinstance(k, (set, frozenset)):
        return 'fs:' + ','.join(sorted(str(x) for x in k))
    return repr(k)


def deep_digest(obj):
    if isinstance(obj, dict):
        return ('d', tuple(sorted((ktext(k), deep_digest(v)) for k, v in obj.items())))
    if isinstance(obj, (list, tuple)):
        return ('l', tuple(deep_digest(v) for v in obj))
    return vdigest(obj)


def attr_of_key(prop, key):
    """The attribute a `state` key stands for (naming convention of the package)."""
    for cand in ('_' + str(key), str(key)):
        if cand in prop.__dict__:
            return cand
    return None


def shares(a, b):
    return isinstance(a, numpy.ndarray) and isinstance(b, numpy.ndarray) and numpy.shares_memory(a, b)


class Facts:
    def __init__(self):
        self.adapted = set()
        self.inplace = set()
        self.hot = set()
        self.instate = set()
        self.live = set()
        self.aliased = set()
        self.store = set()
        self.reset = {}


def observed_step(ch, prop, fx):
    before = {k: (v, vdigest(v)) for k, v in dist_attrs(prop).items()}
    ch.step()
    now = dist_attrs(prop)
    for k, (obj, dg) in before.items():
        if k in now and vdigest(now[k]) != dg:
            fx.adapted.add(k)
        if isinstance(obj, numpy.ndarray) and vdigest(obj) != dg:
            fx.hot.add(k)
            if now.get(k) is obj:
                fx.inplace.add(k)
    for k in now:
        if k not in before:
            fx.adapted.add(k)


def observe_snapshot(prop, build, fx, snaps):
    """Take `prop.state`, record which entries are live, load it into a new
    instance without serialisation and record which attributes alias it."""
    snap = prop.state
    for key, val in snap.items():
        a = attr_of_key(prop, key)
        if a is None or a in IGNORED:
            continue
        fx.instate.add(a)
        if isinstance(val, numpy.ndarray):
            if any(shares(val, v) for v in arrays_of(prop).values()):
                fx.live.add(a)
    _, other, _ = build(seed=97)
    other.set_state(snap)
    snap_arrays = [v for v in snap.values() if isinstance(v, numpy.ndarray)]
    for k, v in arrays_of(other).items():
        if any(shares(v, s) for s in snap_arrays):
            fx.aliased.add(k)
    snaps.append((snap, deep_digest(snap)))
    return snap


def measure(vname, fam, build):
    row = {'name': vname, 'family': fam, 'known': True}
    ch, prop, model = build()
    fx = Facts()
    row['adaptive'] = isinstance(prop, BaseAdaptiveSupport)
    d0 = digest_of(prop)
    # `_reset_adaptation` does `setattr(self, key, value)`; a key that is a property
    # (`norm`) lands in the underscored attribute
    ipp = {(k if k in prop.__dict__ or '_' + k not in prop.__dict__ else '_' + k): v
           for k, v in (prop.__dict__.get('_initial_proposal_params') or {}).items()}
    for k, v in ipp.items():
        if any(shares(v, a) for a in arrays_of(prop).values()):
            fx.store.add(k)
    snaps = []
    observe_snapshot(prop, build, fx, snaps)            # before any step
    for i in range(6):
        observed_step(ch, prop, fx)
        if i in (0, 2, 5):
            observe_snapshot(prop, build, fx, snaps)
    mid = snaps[-1][0]
    # a second sampler set from the *same* state object, run on while the source rests
    chC, propC, _ = build(seed=98)
    chC.set_state(dict(chain_id=0, iteration=ch.iteration, current_position=ch.current_position,
                       proposed_position=ch.proposed_position, current_stats=ch.current_stats,
                       hasblobs=False, current_blob=None,
                       proposal_dist={frozenset(propC.parameters): mid, 'random_state': chC.random_state}))
    src = digest_of(prop)
    midd = deep_digest(mid)
    chC.model.n = 1
    for _ in range(4):
        chC.step()
    decoupled = deep_digest(mid) == midd and digest_of(prop) == src
    loaded = digest_of(propC)
    for _ in range(4):
        observed_step(ch, prop, fx)
    decoupled = decoupled and digest_of(propC) == loaded
    row['loadDecoupled'] = decoupled
    row['snapshotStable'] = all(deep_digest(s) == dg for s, dg in snaps[:-1]) and deep_digest(mid) == midd
    # resets
    row['resetRestores'] = []
    row['resetStartStep'] = True
    row['stale'] = []
    if row['adaptive']:
        for r in range(3):
            before = {k: v for k, v in dist_attrs(prop).items()}
            beforedg = {k: vdigest(v) for k, v in before.items()}
            prop._reset_adaptation()
            now = dist_attrs(prop)
            if r == 0:
                for k in sorted(now):
                    if k in ipp:
                        fx.reset[k] = 'alias' if shares(ipp[k], now[k]) else 'copy'
                    elif k in before and (now[k] is not before[k] or vdigest(now[k]) != beforedg[k]):
                        fx.reset[k] = 'recompute'
                for k in ipp:
                    fx.reset.setdefault(k, 'copy')
                row['stale'] = sorted(k for k in d0 if vdigest(now.get(k)) != d0[k])
            row['resetRestores'].append(digest_of(prop) == d0)
            row['resetStartStep'] = row['resetStartStep'] and prop.start_step == max(prop.nsteps, 1)
            for _ in range(5):
                observed_step(ch, prop, fx)
    names = sorted(fx.adapted | fx.inplace | fx.hot | fx.live | fx.aliased | fx.store | set(fx.reset)
                   | {k for k in fx.instate if isinstance(prop.__dict__.get(k), numpy.ndarray)})
    row['fields'] = [dict(attr=k, adapted=k in fx.adapted, inplace=k in fx.inplace, hot=k in fx.hot,
                          inState=k in fx.instate, liveInState=k in fx.live, aliasedByLoad=k in fx.aliased,
                          storeAliases=k in fx.store, reset=fx.reset.get(k, 'none')) for k in names]
    return row


def variant_lean(r):
    flds = llist(
        '{ attr := %s, adapted := %s, inplace := %s, hot := %s, inState := %s, liveInState := %s, '
        'aliasedByLoad := %s, storeAliases := %s, reset := .%s }' % (
            lstr(f['attr']), lbool(f['adapted']), lbool(f['inplace']), lbool(f['hot']), lbool(f['inState']),
            lbool(f['liveInState']), lbool(f['aliasedByLoad']), lbool(f['storeAliases']), f['reset'])
        for f in r.get('fields', []))
    return ('  { name := %s, family := %s, known := %s, adaptive := %s,\n'
            '    snapshotStable := %s, loadDecoupled := %s, resetRestores := %s, resetStartStep := %s,\n'
            '    staleAfterReset := %s,\n'
            '    fields := %s }' % (
                lstr(r['name']), lstr(r['family']), lbool(r['known']), lbool(r.get('adaptive', False)),
                lbool(r.get('snapshotStable', False)), lbool(r.get('loadDecoupled', False)),
                llist(lbool(b) for b in r.get('resetRestores', [])), lbool(r.get('resetStartStep', False)),
                llist(lstr(s) for s in r.get('stale', [])), flds))


def rows():
    out = []
    for vname, fam, build in variants():
        if build is None:
            out.append({'name': vname, 'family': fam, 'known': False})
            continue
        try:
            with numpy.errstate(all='ignore'):
                out.append(measure(vname, fam, build))
        except Exception as e:     # the probe itself failed: recorded, decided by the obligations
            out.append({'name': vname, 'family': fam, 'known': True, 'probeError': repr(e)})
    return out


def render(rs):
    out = ['-- GENERATED by harness/gen_alias.py from the current /repo source. Do not edit.',
           'import EpsieModel.Alias', 'namespace Epsie.Generated', '',
           'def aliasVariants : List Alias.Variant := [',
           ',\n'.join(variant_lean(r) for r in rs), ']', '',
           'def aliasProbeErrors : List String := ' + llist(lstr(r['name'] + ': ' + r['probeError'])
                                                             for r in rs if 'probeError' in r), '',
           'end Epsie.Generated', '']
    return '\n'.join(out)


def main():
    rs = rows()
    text = render(rs)
    os.makedirs(os.path.dirname(OUT), exist_ok=True)
    old = open(OUT).read() if os.path.exists(OUT) else None
    if old != text:
        with open(OUT, 'w') as fh:
            fh.write(text)
    print('gen_alias: %d variants, %d probe errors, %s' % (
        len(rs), sum(1 for r in rs if 'probeError' in r), 'unchanged' if old == text else 'rewritten'))


if __name__ == '__main__':
    main()
