"""A scripted stand-in for `numpy.random.Generator`, installed from outside.

All randomness of epsie goes through the class property
`epsie.proposals.base.BaseRandom.random_generator`.  Inside a
`with scripted(script):` block that property returns a `ScriptedGenerator`
which pops *base draws* (standard normals `z`, uniforms `u` in [0, 1)) from a
`Script`, turns them into the requested variate with the same formula as numpy
(`loc + scale*z`, `low + (high-low)*u`, `exp(mean + sigma*z)`, inverse-cdf
`choice`, Fisher-Yates `shuffle`, svd `multivariate_normal`) and logs every
request.  Nothing in /repo is changed; the patch lives in this process only
and is removed when the block is left.

    with scripted(Script(z=[0.3, -8.3], u=[0.5])) as s:
        prop.jump({'x': 0.1})
    s.log        -> [Request(method='normal', args={...}, base=[0.3], out=..., gen=id), ...]
    s.used('z')  -> number of standard normals consumed

Scripts may be given per bit generator (`scripts={id(bitgen): Script(...)}`);
objects without their own script use the default one.  When a queue runs dry
the script's `tail` (a callable kind -> float, e.g. drawing from a seeded real
generator; it may look at `script.pending`, the request being served) is
asked; without a tail `ScriptExhausted` is raised.  A `budget` on the total
number of base draws turns a stalled rejection loop into a
`DrawBudgetExceeded` exception instead of a hang.
"""
import contextlib
import math

import numpy

from epsie.proposals import base as _pbase


class ScriptExhausted(Exception):
    """The code asked for more base draws than the script holds."""


class DrawBudgetExceeded(Exception):
    """More base draws were requested than the budget allows (stalled loop)."""


class Request:
    __slots__ = ('method', 'args', 'base', 'out', 'gen')

    def __init__(self, method, args, base, out, gen):
        self.method = method      # 'normal', 'uniform', 'random', ...
        self.args = args          # dict of the arguments of the request
        self.base = base          # list of (kind, value) base draws consumed
        self.out = out            # what was returned
        self.gen = gen            # id(bit_generator) of the requesting object

    def __repr__(self):
        return 'Request(%s, %r, base=%r, out=%r)' % (self.method, self.args, self.base, self.out)


class Script:
    """Queues of base draws.  z: standard normals, u: uniforms in [0, 1)."""

    def __init__(self, z=(), u=(), tail=None, budget=None):
        self.q = {'z': list(z), 'u': list(u)}
        self.pos = {'z': 0, 'u': 0}
        self.tail = tail
        self.budget = budget
        self.ndraws = 0
        self.log = []
        self.pending = None      # (method, args) of the request being served (for responsive tails)

    def pop(self, kind):
        self.ndraws += 1
        if self.budget is not None and self.ndraws > self.budget:
            raise DrawBudgetExceeded('%d base draws requested' % self.ndraws)
        i = self.pos[kind]
        self.pos[kind] = i + 1
        if i < len(self.q[kind]):
            return float(self.q[kind][i])
        if self.tail is None:
            raise ScriptExhausted('no more %r draws in the script (asked for number %d)' % (kind, i + 1))
        return float(self.tail(kind))

    def used(self, kind=None):
        if kind is None:
            return self.pos['z'] + self.pos['u']
        return self.pos[kind]

    def leftover(self, kind):
        return max(0, len(self.q[kind]) - self.pos[kind])


def real_tail(seed):
    """A tail drawing from a real numpy generator (for loops that must terminate)."""
    g = numpy.random.Generator(numpy.random.PCG64(seed))

    def tail(kind):
        return g.standard_normal() if kind == 'z' else g.random()
    return tail


def _shape(size, *args):
    if size is not None:
        return tuple(size) if isinstance(size, (tuple, list)) else (int(size),)
    b = numpy.broadcast(*[numpy.asarray(a) for a in args]) if args else None
    if b is None or b.shape == ():
        return None
    return b.shape


class ScriptedGenerator:
    """The methods of `numpy.random.Generator` that epsie uses."""

    def __init__(self, script, gen_id=None):
        self._s = script
        self._gid = gen_id

    # ---- base draws
    def _draws(self, kind, shape):
        if shape is None:
            v = self._s.pop(kind)
            return v, [(kind, v)]
        n = int(numpy.prod(shape)) if len(shape) else 1
        vals = [self._s.pop(kind) for _ in range(n)]
        return numpy.array(vals, dtype=float).reshape(shape), [(kind, v) for v in vals]

    def _log(self, method, args, base, out):
        self._s.log.append(Request(method, args, base, out, self._gid))

    # ---- variates (same formulas as numpy's C implementation)
    def standard_normal(self, size=None):
        z, base = self._draws('z', _shape(size))
        self._log('standard_normal', {'size': size}, base, z)
        return z

    def normal(self, loc=0.0, scale=1.0, size=None):
        if numpy.any(numpy.asarray(scale) < 0):
            raise ValueError('scale < 0')
        self._s.pending = ('normal', {'loc': loc, 'scale': scale})
        shp = _shape(size, loc, scale)
        z, base = self._draws('z', shp)
        if shp is None:
            out = float(loc) + float(scale) * z
        else:
            out = numpy.asarray(loc, dtype=float) + numpy.asarray(scale, dtype=float) * z
        self._log('normal', {'loc': loc, 'scale': scale, 'size': size}, base, out)
        return out

    def lognormal(self, mean=0.0, sigma=1.0, size=None):
        if numpy.any(numpy.asarray(sigma) < 0):
            raise ValueError('sigma < 0')
        self._s.pending = ('lognormal', {'mean': mean, 'sigma': sigma})
        shp = _shape(size, mean, sigma)
        z, base = self._draws('z', shp)
        if shp is None:
            t = float(mean) + float(sigma) * z
            try:
                out = math.exp(t)
            except OverflowError:
                out = math.inf
        else:
            out = numpy.exp(numpy.asarray(mean, dtype=float) + numpy.asarray(sigma, dtype=float) * z)
        self._log('lognormal', {'mean': mean, 'sigma': sigma, 'size': size}, base, out)
        return out

    def random(self, size=None, dtype=numpy.float64, out=None):
        self._s.pending = ('random', {'size': size})
        u, base = self._draws('u', _shape(size))
        self._log('random', {'size': size}, base, u)
        return u

    def random_sample(self, size=None):          # the pre-Generator spelling epsie falls back to
        u, base = self._draws('u', _shape(size))
        self._log('random_sample', {'size': size}, base, u)
        return u

    def uniform(self, low=0.0, high=1.0, size=None):
        self._s.pending = ('uniform', {'low': low, 'high': high})
        shp = _shape(size, low, high)
        u, base = self._draws('u', shp)
        if shp is None:
            out = float(low) + (float(high) - float(low)) * u
        else:
            lo = numpy.asarray(low, dtype=float)
            out = lo + (numpy.asarray(high, dtype=float) - lo) * u
        self._log('uniform', {'low': low, 'high': high, 'size': size}, base, out)
        return out

    def shuffle(self, x, axis=0):
        """In-place Fisher-Yates, one uniform per position (j = floor(u*(i+1)))."""
        n = len(x)
        base = []
        for i in range(n - 1, 0, -1):
            u = self._s.pop('u')
            base.append(('u', u))
            j = min(int(u * (i + 1)), i)
            if j != i:
                if isinstance(x, numpy.ndarray):
                    tmp = numpy.array(x[i], copy=True)
                    x[i] = x[j]
                    x[j] = tmp
                else:
                    x[i], x[j] = x[j], x[i]
        self._log('shuffle', {'n': n}, base, numpy.array(x, copy=True) if isinstance(x, numpy.ndarray) else list(x))

    def choice(self, a, size=None, replace=True, p=None, axis=0, shuffle=True):
        """numpy's algorithm for weighted draws (inverse cdf of one uniform per draw);
        without replacement and without weights: a partial Fisher-Yates."""
        arr = numpy.arange(a) if isinstance(a, (int, numpy.integer)) else numpy.asarray(a)
        n = arr.shape[0]
        if n == 0 and (size is None or numpy.prod(size) != 0):
            raise ValueError('a cannot be empty unless no samples are taken')
        base = []
        if p is not None:
            p = numpy.asarray(p, dtype=float)
            if p.ndim != 1 or p.shape[0] != n:
                raise ValueError('a and p must have same size')
            if numpy.isnan(p).any():
                raise ValueError('probabilities contain NaN')
            if (p < 0).any():
                raise ValueError('probabilities are not non-negative')
            if abs(p.sum() - 1.0) > math.sqrt(numpy.finfo(float).eps):
                raise ValueError('probabilities do not sum to 1')
        shp = _shape(size)
        k = 1 if shp is None else int(numpy.prod(shp))
        if replace or p is not None:
            if p is not None and not replace:
                if numpy.count_nonzero(p > 0) < k:
                    raise ValueError('Fewer non-zero entries in p than size')
            idx = []
            pp = None if p is None else p.copy()
            for _ in range(k):
                u = self._s.pop('u')
                base.append(('u', u))
                if pp is None:
                    j = min(int(u * n), n - 1)
                else:
                    cdf = pp.cumsum()
                    cdf /= cdf[-1]
                    j = int(cdf.searchsorted(u, side='right'))
                    j = min(j, n - 1)
                    if not replace:
                        pp[j] = 0.0
                idx.append(j)
        else:
            if k > n:
                raise ValueError('Cannot take a larger sample than population when replace is False')
            perm = list(range(n))
            idx = []
            for i in range(k):
                u = self._s.pop('u')
                base.append(('u', u))
                j = i + min(int(u * (n - i)), n - i - 1)
                perm[i], perm[j] = perm[j], perm[i]
                idx.append(perm[i])
        res = arr[numpy.array(idx, dtype=int)] if k else arr[:0]
        out = res[0] if shp is None else res.reshape(shp + arr.shape[1:])
        self._log('choice', {'n': n, 'size': size, 'replace': replace,
                             'p': None if p is None else [float(v) for v in p]}, base, out)
        return out

    def multivariate_normal(self, mean, cov, size=None, check_valid='warn', tol=1e-8, method='svd'):
        mean = numpy.asarray(mean, dtype=float)
        cov = numpy.asarray(cov, dtype=float)
        shp = _shape(size) or ()
        final = tuple(shp) + (mean.shape[0],)
        z, base = self._draws('z', final)
        (u, s, v) = numpy.linalg.svd(cov)
        x = numpy.asarray(z).reshape(-1, mean.shape[0])
        x = mean + numpy.dot(x, numpy.sqrt(s)[:, None] * v)
        out = x.reshape(final)
        self._log('multivariate_normal', {'mean': mean.tolist(), 'cov': cov.tolist(), 'size': size}, base, out)
        return out


@contextlib.contextmanager
def scripted(script=None, scripts=None):
    """Install the scripted generator for every epsie object in this process.

    script: default `Script`; scripts: optional dict id(bit_generator) -> Script."""
    default = script if script is not None else Script()
    per = scripts or {}
    saved = _pbase.BaseRandom.__dict__['random_generator']

    def random_generator(self_):
        gid = id(self_.bit_generator)
        return ScriptedGenerator(per.get(gid, default), gid)

    _pbase.BaseRandom.random_generator = property(random_generator)
    try:
        yield default
    finally:
        _pbase.BaseRandom.random_generator = saved
