"""Scripted correspondence suite for C01 / C03 (complements `plumbing.py`).

`plumbing.py` runs real samplers on *real* random streams and logs the draws.
Here the draws are *scripted* (scripted_rng.ScriptedGenerator installed on the
class property `BaseRandom.random_generator`, in this process only), so that
the decision *edges* of the real `Chain.step()` and of the real
`ParallelTemperedChain.swap_temperatures()` are exercised on purpose:

  * the acceptance uniform just below / just above `exp(logar)` (relative
    distance 1e-6: six orders above the rounding of `logar`/`exp`, and the
    model decides with a rational within 1e-30 of ln u, `common.log_exact`),
    at exact ties `logar == 0`, at `logar > 0` (no uniform), at prior holes
    (`logp = -inf`, no uniform), for beta in {0, 1/8, ..., 1}, with and
    without blobs, for every proposal family (adaptive ones in the state a
    short random warm-up history leaves them in) and joint mixes;
  * every one of the 2^(n-1) decision paths of a sweep over n levels
    (n in {3,4,5}, thorough <= 7), each drawn uniform placed at the edge of
    the pair's acceptance ratio, with ties in log-likelihood, duplicate
    betas, beta_hottest = 0.

Every real execution is logged by `instrument.Recorder` (which wraps the
scripted generator), rendered in the line protocol of `lean/Driver.lean` and
replayed by the Lean model; the canonical dumps are compared line by line
(decision, accepted flag, ar to 1e-9, recorded position/stats/blob, uniform
consumed or not -- a DESYNC otherwise --, swap index, acceptance ratios,
permuted positions).

Where the uniforms are placed is *predicted* by the harness (a probe run for
chain steps; the property's sequential specification for sweeps).  A wrong
prediction can only cost coverage (the edge is missed), never soundness: the
protocol is rendered from what the real code actually drew and did.
"""
import itertools
import math
import random
from fractions import Fraction

import numpy

import common
from common import csv
import families as F
import instrument as I
import plumbing
import scripted_rng as R

from epsie.chain.chain import Chain
from epsie.chain.ptchain import ParallelTemperedChain

EDGE = 1e-6
TOP = 1.0 - 2.0 ** -53          # the largest double below 1
DYADIC_BETAS = [0.0, 0.125, 0.25, 0.375, 0.5, 0.625, 0.75, 0.875, 1.0]


class _Shim:
    """What instrument.render_oracle / dump_real need of a sampler."""

    def __init__(self, chain, params):
        self.chains = [chain]
        self.parameters = tuple(params)



class _QueryArgs:
    """`instrument.Recorder` labels a reported density `rev` / `fwd` by the *order* of the two
    `JointProposal.logpdf` calls of a step.  Here every logged query is re-labelled by its
    *arguments*: `rev` = log q(x | x') (evaluated at the current point, given the proposed one),
    `fwd` = log q(x' | x).  If the code ever passed the arguments the other way round the
    protocol then carries the truth and the model (which wants rev before fwd and forms
    rev - fwd) disagrees with the real acceptance ratio."""

    def __init__(self, rec):
        self.rec = rec
        self.args = {}          # index in rec.log -> (xi, givenx)
        self.relabelled = 0

    def __enter__(self):
        from epsie.proposals import base as pbase
        self._pbase = pbase
        self._saved = pbase.BaseProposal.__dict__['logpdf']
        inner, me = self._saved, self

        def logpdf(self_, xi, givenx):
            n0 = len(me.rec.log)
            v = inner(self_, xi, givenx)
            log = me.rec.log
            if len(log) > n0 and log[-1][0] == 'Q' and log[-1][1] is self_:
                me.args[len(log) - 1] = (dict(xi), dict(givenx))
            return v
        pbase.BaseProposal.logpdf = logpdf
        return self

    def __exit__(self, *exc):
        self._pbase.BaseProposal.logpdf = self._saved
        return False

    def step(self, chain):
        cur = dict(chain.current_position)
        n0 = len(self.rec.log)
        chain.step()
        new = dict(chain.proposed_position)
        log = self.rec.log
        for i in range(n0, len(log)):
            if log[i][0] != 'Q' or i not in self.args:
                continue
            xi, givenx = self.args[i]
            pr = log[i][1]

            def same(a, b):
                return all(float(a[p]) == float(b[p]) for p in pr.parameters)
            is_rev = same(xi, cur) and same(givenx, new)
            is_fwd = same(xi, new) and same(givenx, cur)
            if is_rev == is_fwd:
                continue            # x' = x on this block (or neither): the order label stands
            want = 'rev' if is_rev else 'fwd'
            if log[i][2] != want:
                log[i] = (log[i][0], log[i][1], want, log[i][3])
                self.relabelled += 1
        self.args = {k: v for k, v in self.args.items() if k >= len(log)}

# --------------------------------------------------------------------------
# chain steps
# --------------------------------------------------------------------------

class StepCase:
    """One real Chain at inverse temperature beta: `warmup` steps on a seeded
    stream, then one *final* step whose acceptance uniform is scripted."""

    def __init__(self, cid):
        self.cid = cid
        self.params = []        # (name, kind, dom)
        self.props = []         # (family, [names], kwargs for families.make)
        self.prop_seed = 0
        self.beta = 1.0
        self.model_kind = 'quad'
        self.blobs = False
        self.holes = {}         # name -> (lo, hi): zero prior outside
        self.start = {}         # name -> value
        self.warmup = 0
        self.tail_seed = 0
        self.final_z = None     # scripted standard normals of the final jump (None: seeded)
        self.final_u = 0.5      # the acceptance uniform of the final step, if one is drawn

    def describe(self):
        return {'suite': 'scripted-step', 'id': self.cid, 'params': self.params, 'props': self.props,
                'prop_seed': self.prop_seed, 'beta': self.beta, 'model': self.model_kind,
                'blobs': self.blobs, 'holes': self.holes, 'start': self.start, 'warmup': self.warmup,
                'tail_seed': self.tail_seed, 'final_z': self.final_z, 'final_u': self.final_u}

    @staticmethod
    def from_description(d):
        c = StepCase(d['id'])
        c.params = [tuple(p[:2]) + (tuple(p[2]) if p[2] is not None else None,) for p in d['params']]
        c.props = [(f, list(ps), dict(kw)) for f, ps, kw in d['props']]
        c.prop_seed = d['prop_seed']
        c.beta = d['beta']
        c.model_kind = d['model']
        c.blobs = d['blobs']
        c.holes = {k: tuple(v) for k, v in d['holes'].items()}
        c.start = dict(d['start'])
        c.warmup = d['warmup']
        c.tail_seed = d['tail_seed']
        c.final_z = d.get('final_z')
        c.final_u = d['final_u']
        return c

    def with_u(self, u, tag):
        c = StepCase.from_description(self.describe())
        c.cid = '%s-%s' % (self.cid, tag)
        c.final_u = u
        return c


def gen_step_case(rng, cid, families=None):
    c = StepCase(cid)
    fams = list(families or F.FAMILIES)
    nprops = rng.choice([1, 1, 1, 2, 2, 3])
    pi = 0
    srng = random.Random(rng.randrange(1 << 30))
    for _ in range(nprops):
        fam = rng.choice(fams)
        cls, kind, lo, hi = F.FAMILIES[fam]
        n = rng.randint(lo, hi)
        names = []
        for j in range(n):
            name = 'p%d' % pi
            pi += 1
            dom = F.domain_for(kind, rng, j)
            c.params.append((name, kind if kind != 'sphere' else 'sphere%d' % j, dom))
            c.start[name] = F.start_value(kind, dom, srng, j if kind == 'sphere' else 0)
            if kind == 'real' and rng.random() < 0.5:
                c.holes[name] = (-1.5, 1.5)          # a prior box the unbounded proposal can leave
            if kind == 'int' and rng.random() < 0.5:
                c.holes[name] = (-4, 4)
            names.append(name)
        kw = {'window': rng.randint(3, 9), 'start_step': rng.choice([1, 1, 2])}
        if rng.random() < 0.3:
            kw['jump_interval'] = rng.choice([2, 3])
        c.props.append((fam, names, kw))
    c.prop_seed = rng.randrange(1 << 30)
    c.beta = rng.choice(DYADIC_BETAS)
    c.model_kind = rng.choice(['quad', 'quad', 'slope', 'flat', 'needle'])
    c.blobs = rng.random() < 0.4
    c.warmup = rng.choice([0, 0, 1, 2, 3, 5, 8])
    c.tail_seed = rng.randrange(1 << 30)
    return c


def gen_hole_case(rng, cid):
    """A plain normal proposal thrown far outside the prior box: forced reject."""
    c = StepCase(cid)
    c.params = [('p0', 'real', None)]
    c.props = [('normal', ['p0'], {'window': 4, 'start_step': 1})]
    c.prop_seed = rng.randrange(1 << 30)
    c.start = {'p0': rng.choice([-0.5, 0.0, 0.25, 1.0])}
    c.holes = {'p0': (-1.5, 1.5)}
    c.beta = rng.choice(DYADIC_BETAS)
    c.model_kind = rng.choice(['quad', 'flat'])
    c.blobs = rng.random() < 0.5
    c.warmup = rng.choice([0, 1, 3])
    c.tail_seed = rng.randrange(1 << 30)
    c.final_z = [rng.choice([-1, 1]) * 60.0]
    return c


def _build_props(c):
    prng = random.Random(c.prop_seed)
    doms = {name: dom for name, kind, dom in c.params}
    return [F.make(fam, names, doms, prng, **kw) for fam, names, kw in c.props]


def _model(c):
    box = {name: dom for name, kind, dom in c.params if kind in ('box', 'intbox')}
    box.update(c.holes)
    return I.LoggedModel([p[0] for p in c.params], kind=c.model_kind, blobs=c.blobs, box=box)


def run_step_case(c):
    """Execute the case on the real code.  Returns (lines, expect, info); info describes the
    final step: ar, accepted, whether a uniform was drawn, forced or not."""
    pnames = [p[0] for p in c.params]
    model = _model(c)
    g = numpy.random.Generator(numpy.random.PCG64(c.tail_seed))
    state = {'final': False, 'zq': list(c.final_z or []), 'rec': None, 'u_used': 0}

    def tail(kind):
        rec = state['rec']
        if kind == 'u' and rec is not None and rec.in_jump == 0 and state['final']:
            state['u_used'] += 1
            return c.final_u
        if kind == 'z' and state['final'] and state['zq']:
            return state['zq'].pop(0)
        return g.standard_normal() if kind == 'z' else g.random()

    lines = ['case %s' % c.cid]
    expect = ['case %s' % c.cid]
    with R.scripted(R.Script(tail=tail, budget=200000)):
        with I.Recorder() as rec:
            state['rec'] = rec
            chain = Chain(pnames, model, _build_props(c), bit_generator=11, beta=c.beta)
            shim = _Shim(chain, pnames)
            for pr in chain.proposal_dist.proposals:
                lines.append(I.prop_line(pr, pnames))
            lines.append('new nchains=1 betas=%s s=1 reset=0 dyn=0' % csv([float(c.beta)]))
            expect.append('ok new')
            rec.take()
            chain.start_position = dict(c.start)
            lines.append('o S %s' % csv(c.start[p] for p in pnames))
            lines.extend(I.render_oracle(rec.take(), shim))
            lines.append('op start')
            expect.append('ok start')
            chain.scratchlen = c.warmup + 1
            with _QueryArgs(rec) as qa:
                for _ in range(c.warmup):
                    qa.step(chain)
                lines.extend(I.render_oracle(rec.take(), shim))
                lines.append('op run %d' % c.warmup)
                expect.append('ok run %d' % c.warmup)
                state['final'] = True
                qa.step(chain)
                relabelled = qa.relabelled
            ents = rec.take()
            lines.extend(I.render_oracle(ents, shim))
            lines.append('op run 1')
            expect.append('ok run 1')
            lines.append('op dump')
            expect.extend(I.dump_real(shim, rec, model.ncalls))
            n = len(chain)
            for i in (-1, 0, n - 1):
                lines.append('op get 0 0 %d' % i)
                expect.append(I.getitem_real(shim, 0, 0, i))
            acc = chain.acceptance[-1]
            fin_e = [e for e in ents if e[0] == 'E']
            info = {'ar': float(acc['acceptance_ratio']), 'accepted': bool(acc['accepted']),
                    'drew': any(e[0] == 'U' for e in ents),
                    'forced': bool(fin_e and fin_e[0][2][1] == -numpy.inf),
                    'symmetric': bool(chain.proposal_dist.symmetric),
                    'queries': sum(1 for e in ents if e[0] == 'Q'),
                    'jumped': sum(1 for e in ents if e[0] == 'J'),
                    'nprops': len(chain.proposal_dist.proposals), 'relabelled': relabelled}
    return lines, expect, info


def step_variants(c):
    """The probe run plus the edge variants it calls for.  Yields (case, lines, expect, info, intent)."""
    out = []
    lines, expect, info = run_step_case(c)
    out.append((c, lines, expect, info, 'probe'))
    if info['drew'] and info['ar'] > 1e-300:
        ar = info['ar']
        below = c.with_u(ar * (1 - EDGE), 'below')
        out.append((below,) + run_step_case(below) + ('below',))
        if ar * (1 + EDGE) < 1.0:
            above = c.with_u(ar * (1 + EDGE), 'above')
            out.append((above,) + run_step_case(above) + ('above',))
        else:
            top = c.with_u(TOP, 'top')
            out.append((top,) + run_step_case(top) + ('top',))
    return out


# --------------------------------------------------------------------------
# sweeps
# --------------------------------------------------------------------------

# positions of the one-parameter 'quad' model and their dyadic log-likelihoods:
# logl(v) = -floor(8 (v - 1/4)^2) / 16; v and 1/2 - v tie.
POSITIONS = [0.25, 0.75, -0.25, 1.25, -0.75, 1.75, 2.25, 2.75]
DESCENDING = [0.25, 0.75, 1.25, 1.75, 2.25, 2.75, 3.25]     # logl 0, -1/8, -1/2, -9/8, -2, -25/8, -9/2


def quad_logl(v):
    return Fraction(-math.floor(min((float(v) - 0.25) ** 2 * 8, 2 ** 40)), 16)


class SweepCase:
    """A real ParallelTemperedChain; every level's step is a forced reject (the jump is thrown
    outside the prior box), then the sweep runs on scripted uniforms."""

    def __init__(self, cid):
        self.cid = cid
        self.betas = [1.0, 0.5, 0.0]
        self.start = [0.25, 0.75, 1.25]     # per level, coldest first (after sorting of the betas)
        self.blobs = False
        self.decisions = []                 # intended decision per pair tj = 0 .. n-2
        self.style = 'edge'                 # 'edge' | 'plain'
        self.iterations = 1
        self.us = None                      # explicit uniforms (set by plan())

    def describe(self):
        return {'suite': 'scripted-sweep', 'id': self.cid, 'betas': self.betas, 'start': self.start,
                'blobs': self.blobs, 'decisions': self.decisions, 'style': self.style,
                'iterations': self.iterations, 'us': self.us}

    @staticmethod
    def from_description(d):
        c = SweepCase(d['id'])
        for k in ('betas', 'start', 'blobs', 'decisions', 'style', 'iterations', 'us'):
            setattr(c, k, d[k])
        return c


def plan_sweep(betas, logls, decisions, style):
    """Uniforms that make the *specified* sweep (sequential adjacent exchanges, hottest pair
    first, ratio between the states currently in the slots) take `decisions`.
    Returns (uniforms in draw order, feasible, per-pair kinds)."""
    n = len(betas)
    bs = sorted((Fraction(b) for b in betas), reverse=True)
    cfg = list(range(n))
    us, kinds = [], []
    for tk in range(n - 1, 0, -1):
        tj = tk - 1
        d = decisions[tj]
        logar = (bs[tk] - bs[tj]) * (logls[cfg[tj]] - logls[cfg[tk]])
        if logar > 0:
            kinds.append('sure')
            if not d:
                return us, False, kinds
        else:
            ar = math.exp(float(logar))
            kinds.append('tie' if logar == 0 else 'draw')
            if d:
                us.append(ar * (1 - EDGE) if style == 'edge' else 0.0)
            else:
                if ar >= 1.0:
                    return us, False, kinds
                us.append(min(ar * (1 + EDGE), TOP) if style == 'edge' else TOP)
        if d:
            cfg[tj], cfg[tk] = cfg[tk], cfg[tj]
    return us, True, kinds


def run_sweep_case(c):
    """Execute on the real code.  Returns (lines, expect, info)."""
    pnames = ['p0']
    model = I.LoggedModel(pnames, kind='quad', blobs=c.blobs, box={'p0': (-8.0, 8.0)})
    n = len(c.betas)
    state = {'rec': None, 'us': list(c.us or []), 'starved': 0}

    def tail(kind):
        if kind == 'z':
            return 1000.0            # far outside the prior box: forced reject, state stays
        rec = state['rec']
        if rec is not None and rec.in_jump == 0:
            if state['us']:
                return state['us'].pop(0)
            state['starved'] += 1
            return 0.5
        return 0.5

    lines = ['case %s' % c.cid]
    expect = ['case %s' % c.cid]
    with R.scripted(R.Script(tail=tail, budget=100000)):
        with I.Recorder() as rec:
            state['rec'] = rec
            prop = F.make('normal', pnames, {'p0': None}, random.Random(3), window=4)
            pt = ParallelTemperedChain(pnames, model, [prop], betas=numpy.array(c.betas, dtype=float),
                                       swap_interval=1, bit_generator=5)
            shim = _Shim(pt, pnames)
            for pr in pt.chains[0].proposal_dist.proposals:
                lines.append(I.prop_line(pr, pnames))
            betas = [float(b) for b in pt.betas]
            lines.append('new nchains=1 betas=%s s=1 reset=0 dyn=0' % csv(betas))
            expect.append('ok new')
            rec.take()
            pt.start_position = {'p0': numpy.array(c.start, dtype=float)}
            evs = [e for e in rec.take() if e[0] == 'E']
            for t in range(n):
                lines.append('o S %s' % csv([c.start[t]]))
                lines.extend(I.render_oracle([evs[t]], shim))
            lines.append('op start')
            expect.append('ok start')
            pt.scratchlen = c.iterations
            for _ in range(c.iterations):
                pt.step()
            ents = rec.take()
            lines.extend(I.render_oracle(ents, shim))
            lines.append('op run %d' % c.iterations)
            expect.append('ok run %d' % c.iterations)
            lines.append('op dump')
            expect.extend(I.dump_real(shim, rec, model.ncalls))
            info = {'draws': sum(1 for e in ents if e[0] == 'W'),
                    'idx': [int(x) for x in pt.temperature_swaps[:, -1]],
                    'ars': [float(x) for x in pt.temperature_acceptance[:, -1]],
                    'leftover': len(state['us']), 'starved': state['starved'],
                    'final': [float(ch.current_position['p0']) for ch in pt.chains]}
    return lines, expect, info


def gen_sweep_configs(rng, n, count):
    """(betas, start positions) pairs: descending / random / tied log-likelihoods, beta_hottest in
    {0, >0}, now and then two equal betas."""
    out = []
    for k in range(count):
        mids = sorted(rng.sample(DYADIC_BETAS[1:-1], n - 2), reverse=True)
        hot = 0.0 if k % 2 == 0 else rng.choice([0.0, 0.125])
        betas = [1.0] + mids + [hot]
        if hot == 0.125 and 0.125 in mids:
            pass                                    # a duplicate beta: a pair with dbeta = 0
        if k % 5 == 4:
            betas[rng.randrange(1, n - 1)] = betas[-1]   # force a duplicate
        betas = sorted(betas, reverse=True)
        mode = k % 3
        if mode == 0:        # strictly colder-is-better: every pair is drawn, all 2^(n-1) paths feasible
            start = DESCENDING[:n]
        elif mode == 1:      # ties included
            start = [rng.choice(POSITIONS[:4]) for _ in range(n)]
        else:
            start = [rng.choice(POSITIONS) for _ in range(n)]
        out.append((betas, start))
    return out


# --------------------------------------------------------------------------
# batch execution against the model
# --------------------------------------------------------------------------

def _compare(entries):
    """entries: list of (case, lines, expect).  One driver run; returns divergences."""
    all_lines = []
    for _, lines, _ in entries:
        all_lines.extend(lines)
    out = common.run_driver(all_lines) if all_lines else []
    got = plumbing.split_cases(out)
    divs = []
    for c, lines, expect in entries:
        m = got.get(str(c.cid), [])
        d = common.first_divergence(m, expect)
        if d is not None:
            divs.append({'case': c, 'index': d[0], 'model_line': d[1], 'real_line': d[2],
                         'lines': lines, 'expect': expect})
    return divs


def step_suite(seed, tier):
    """Returns (divergences, errors, stats, samples)."""
    rng = random.Random((seed << 4) ^ 0x57E9)
    n_gen = 70 if tier == 'quick' else 900
    n_hole = 6 if tier == 'quick' else 40
    cases = [gen_step_case(rng, 'sstep-%d' % i) for i in range(n_gen)]
    # every family at least once on its own, at beta = 1/4 and beta = 0
    for j, fam in enumerate(sorted(F.FAMILIES)):
        c = gen_step_case(rng, 'sfam-%s' % fam, families=[fam])
        c.beta = [0.25, 0.0, 1.0][j % 3]
        cases.append(c)
    cases += [gen_hole_case(rng, 'shole-%d' % i) for i in range(n_hole)]
    entries, errors = [], []
    stats = {'cases': 0, 'runs': 0, 'forced': 0, 'sure': 0, 'draw_accept': 0, 'draw_reject': 0,
             'ties': 0, 'edge_below': 0, 'edge_above': 0, 'edge_top': 0, 'symmetric': 0,
             'nonsymmetric': 0, 'with_queries': 0, 'blobs': 0, 'beta0': 0, 'joint': 0,
             'edge_outcome_unexpected': 0, 'queries_relabelled': 0, 'families': {}, 'betas': {}}
    samples = []
    for c in cases:
        try:
            variants = step_variants(c)
        except (R.DrawBudgetExceeded, R.ScriptExhausted) as e:
            stats['stalled'] = stats.get('stalled', 0) + 1
            continue
        except Exception as e:
            if isinstance(e, ValueError) and 'NaN acceptance' in str(e):
                stats['nan_density'] = stats.get('nan_density', 0) + 1   # a NaN density: C12/C14, not C01
                continue
            import traceback
            errors.append({'case': c, 'exception': repr(e), 'traceback': traceback.format_exc()})
            continue
        stats['cases'] += 1
        for f, _, _ in c.props:
            stats['families'][f] = stats['families'].get(f, 0) + 1
        stats['betas'][str(c.beta)] = stats['betas'].get(str(c.beta), 0) + 1
        stats['blobs'] += int(c.blobs)
        stats['beta0'] += int(c.beta == 0.0)
        stats['joint'] += int(len(c.props) > 1)
        for cc, lines, expect, info, intent in variants:
            entries.append((cc, lines, expect))
            stats['runs'] += 1
            if info['forced']:
                stats['forced'] += 1
            elif not info['drew']:
                stats['sure'] += 1
            elif info['accepted']:
                stats['draw_accept'] += 1
            else:
                stats['draw_reject'] += 1
            if info['drew'] and info['ar'] == 1.0:
                stats['ties'] += 1
            stats['symmetric' if info['symmetric'] else 'nonsymmetric'] += 1
            stats['with_queries'] += int(info['queries'] > 0)
            stats['queries_relabelled'] += info['relabelled']
            if intent in ('below', 'above', 'top'):
                stats['edge_' + intent] += 1
                want = intent != 'above'
                if info['accepted'] != want:
                    stats['edge_outcome_unexpected'] += 1
            if len(samples) < 3 and intent == 'below':
                samples.append({'case': cc.describe(), 'final_step': info,
                                'protocol_tail': lines[-8:], 'expected_tail': expect[-4:]})
    divs = _compare(entries)
    return divs, errors, stats, samples


def sweep_suite(seed, tier):
    rng = random.Random((seed << 4) ^ 0x53EE)
    sizes = {3: 6, 4: 6, 5: 4} if tier == 'quick' else {3: 15, 4: 15, 5: 12, 6: 6, 7: 4}
    entries, errors = [], []
    stats = {'configs': 0, 'paths': 0, 'feasible': 0, 'infeasible': 0, 'runs': 0, 'pairs_sure': 0,
             'pairs_draw': 0, 'pairs_tie': 0, 'swaps': 0, 'noswaps': 0, 'beta_hot_0': 0, 'dup_betas': 0,
             'blobs': 0, 'two_iterations': 0, 'plan_mismatch': 0, 'by_n': {}}
    samples = []
    k = 0
    for n, count in sorted(sizes.items()):
        for betas, start in gen_sweep_configs(rng, n, count):
            stats['configs'] += 1
            stats['beta_hot_0'] += int(min(betas) == 0.0)
            stats['dup_betas'] += int(len(set(betas)) < len(betas))
            blobs = rng.random() < 0.4
            logls = [quad_logl(v) for v in start]
            for dec in itertools.product([True, False], repeat=n - 1):
                stats['paths'] += 1
                style = 'edge' if rng.random() < 0.85 else 'plain'
                us, feasible, kinds = plan_sweep(betas, logls, list(dec), style)
                if not feasible:
                    stats['infeasible'] += 1
                    continue
                stats['feasible'] += 1
                c = SweepCase('ssweep-%d' % k)
                k += 1
                c.betas, c.start, c.blobs = list(betas), list(start), blobs
                c.decisions, c.style, c.us = [bool(x) for x in dec], style, us
                c.iterations = 1
                try:
                    lines, expect, info = run_sweep_case(c)
                except Exception as e:
                    import traceback
                    errors.append({'case': c, 'exception': repr(e), 'traceback': traceback.format_exc()})
                    continue
                entries.append((c, lines, expect))
                stats['runs'] += 1
                stats['blobs'] += int(blobs)
                stats['by_n'][str(n)] = stats['by_n'].get(str(n), 0) + 1
                for kd in kinds:
                    stats['pairs_' + kd] += 1
                stats['swaps'] += sum(1 for x in dec if x)
                stats['noswaps'] += sum(1 for x in dec if not x)
                if info['leftover'] or info['starved']:
                    stats['plan_mismatch'] += 1
                if len(samples) < 2 and n == 4 and any(dec) and not all(dec):
                    samples.append({'case': c.describe(), 'observed': info, 'protocol_tail': lines[-6:]})
            # the same configuration over two iterations on a seeded stream of plain uniforms
            c2 = SweepCase('ssweep2-%d' % k)
            k += 1
            c2.betas, c2.start, c2.blobs = list(betas), list(start), blobs
            c2.iterations = 2
            g = random.Random(k)
            c2.us = [g.random() for _ in range(2 * n)]
            try:
                lines, expect, info = run_sweep_case(c2)
                entries.append((c2, lines, expect))
                stats['runs'] += 1
                stats['two_iterations'] += 1
            except Exception as e:
                import traceback
                errors.append({'case': c2, 'exception': repr(e), 'traceback': traceback.format_exc()})
    divs = _compare(entries)
    return divs, errors, stats, samples


def replay_description(d):
    """Re-run one stored case on real code and model; returns the list of divergences."""
    if d.get('suite') == 'scripted-step':
        c = StepCase.from_description(d)
        lines, expect, _ = run_step_case(c)
    else:
        c = SweepCase.from_description(d)
        lines, expect, _ = run_sweep_case(c)
    return _compare([(c, lines, expect)])


if __name__ == '__main__':
    import sys
    import json
    tier = sys.argv[1] if len(sys.argv) > 1 else 'quick'
    for name, suite in (('step', step_suite), ('sweep', sweep_suite)):
        divs, errs, st, _ = suite(common.seed(), tier)
        print(name, json.dumps(st, sort_keys=True))
        for d in divs[:5]:
            print('DIVERGENCE', d['case'].cid, d['index'], '\n  model:', d['model_line'], '\n  real: ', d['real_line'])
        for e in errs[:3]:
            print('ERROR', e['case'].cid, e['exception'])
            print(e['traceback'])
