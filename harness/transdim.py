"""Suite `transdim`: the nested transdimensional proposal (C10, C11).

Three things live here, all driving the REAL epsie objects imported from /repo:

1. correspondence — real `NestedTransdimensional.jump` / `Chain.step` /
   `ParallelTemperedChain.step` with *scripted* draws (index draw, choice, births,
   in-model draws, uniforms) against the executable Lean model
   (`lean/EpsieModel/Transdim.lean` through `lean/DriverTransdim.lean`): proposed
   point, NaN pattern, `_state`, which components were born / killed / moved,
   the record, `_active_props`, which in-model proposals `_update` updated, the
   acceptance probability (rel. 1e-9), sweeps, clears, checkpoints and resumes.
2. C10 search — well-formedness asserted on every record, every
   `proposed_position` and every `_active_props` along real (unscripted, but
   deterministically seeded) MH and PT runs.
3. C11 search — pairwise exact detailed balance on the real code with `q_true`
   computed independently of every `logpdf` in the repo.

Randomness is scripted / seeded by replacing, in this process only, the class
property `epsie.proposals.base.BaseRandom.random_generator`.
"""
import contextlib
import copy
import fcntl
import json
import math
import os
import pickle
import random
import subprocess
import traceback
from fractions import Fraction

import logging

import numpy
from scipy import special

import common
from common import frac

import epsie  # noqa: F401  (from common.REPO)
from epsie import proposals as P
from epsie.proposals import base as pbase
from epsie.chain.chain import Chain
from epsie.chain.ptchain import ParallelTemperedChain

SENTINEL = 1000003          # log-density that the code must never read
logging.getLogger().setLevel(logging.ERROR)   # epsie warns about ladders without beta = 1

# ---------------------------------------------------------------------------
# scripted / seeded generators
# ---------------------------------------------------------------------------


class ScriptError(Exception):
    """The harness's script does not fit what the real code asked for."""


class Script:
    """Per-role FIFO queues of scripted draws and a log of every request."""

    def __init__(self):
        self.roles = {}
        self.q = {}
        self.log = []
        self._keep = []
        self._np = numpy.random.default_rng(0)      # only to reproduce numpy's own argument checks

    def register(self, obj, role):
        self.roles[id(obj)] = role
        self._keep.append(obj)

    def role_of(self, obj):
        return self.roles.get(id(obj), ('?', type(obj).__name__))

    def push(self, role, *vals):
        self.q.setdefault(role, []).extend(vals)

    def pop(self, role, method, args):
        q = self.q.get(role)
        if not q:
            raise ScriptError('no scripted value for %r (%s%r)' % (role, method, args))
        v = q.pop(0)
        self.log.append((role, method, args, v))
        return v

    def clear(self):
        left = {r: list(v) for r, v in self.q.items() if v}
        self.q = {}
        return left


class ScriptedGen:
    """Stand-in for numpy.random.Generator: returns the scripted values verbatim."""

    def __init__(self, script, owner):
        self._s = script
        self._role = script.role_of(owner)

    def _n(self, method, args, like):
        if numpy.ndim(like) == 0:
            return float(self._s.pop(self._role, method, args))
        n = len(numpy.atleast_1d(like))
        return numpy.array([float(self._s.pop(self._role, method, args)) for _ in range(n)])

    def normal(self, loc=0.0, scale=1.0, size=None):
        like = loc if numpy.ndim(loc) else scale
        return self._n('normal', (_plain(loc), _plain(scale)), like)

    def multivariate_normal(self, mean, cov, size=None, **kw):
        return self._n('multivariate_normal', (_plain(mean), _plain(cov)), mean)

    def uniform(self, low=0.0, high=1.0, size=None):
        return self._n('uniform', (_plain(low), _plain(high)), low)

    def lognormal(self, mean=0.0, sigma=1.0, size=None):
        return self._n('lognormal', (_plain(mean), _plain(sigma)), mean)

    def random(self, size=None):
        return float(self._s.pop(self._role, 'random', ()))

    def choice(self, a, size=None, replace=True, p=None, **kw):
        a = numpy.asarray(a)
        # numpy's own feasibility checks (raises exactly what the real generator raises)
        self._s._np.choice(a, size=size, replace=replace)
        v = self._s.pop(self._role, 'choice', (a.tolist(), size, replace))
        v = list(v)
        if len(v) != size or len(set(v)) != len(v) or not set(v) <= set(a.tolist()):
            raise ScriptError('scripted choice %r impossible for a=%r size=%r' % (v, a.tolist(), size))
        return numpy.array(v, dtype=a.dtype)


def _plain(x):
    if numpy.ndim(x) == 0:
        return float(x)
    return numpy.asarray(x, dtype=float).tolist()


@contextlib.contextmanager
def patched_generator(factory):
    """Install `factory(owner) -> generator` as BaseRandom.random_generator (class level)."""
    old = pbase.BaseRandom.__dict__['random_generator']
    pbase.BaseRandom.random_generator = property(lambda self_: factory(self_))
    try:
        yield
    finally:
        pbase.BaseRandom.random_generator = old


@contextlib.contextmanager
def seeded_generator(seed):
    """One real numpy Generator for every draw site: deterministic runs whatever the
    bit generators of the inner proposals are (cf. defect F10)."""
    g = numpy.random.Generator(numpy.random.PCG64(seed))
    with patched_generator(lambda owner: g):
        yield g


@contextlib.contextmanager
def hooks(step_hook=None, ar_hook=None, update_hook=None):
    """Observation points on the real classes (installed from outside, this process only)."""
    saved = []

    def patch(cls, name, new):
        saved.append((cls, name, cls.__dict__[name]))
        setattr(cls, name, new)
    if step_hook is not None:
        orig_step = Chain.__dict__['step']

        def step(self_):
            r = orig_step(self_)
            step_hook(self_)
            return r
        patch(Chain, 'step', step)
    if ar_hook is not None:
        orig_ar = Chain.__dict__['_acceptance_ratio']

        def _acceptance_ratio(self_, logp, logl, proposal, current_logp, current_logl, current_pos):
            ar_hook(self_, proposal, current_pos)
            return orig_ar(self_, logp, logl, proposal, current_logp, current_logl, current_pos)
        patch(Chain, '_acceptance_ratio', _acceptance_ratio)
    if update_hook is not None:
        orig_upd = pbase.BaseProposal.__dict__['update']

        def update(self_, chain):
            update_hook(self_, chain)
            return orig_upd(self_, chain)
        patch(pbase.BaseProposal, 'update', update)
    try:
        yield
    finally:
        for cls, name, old in reversed(saved):
            setattr(cls, name, old)


# ---------------------------------------------------------------------------
# configurations
# ---------------------------------------------------------------------------

BIRTHS = ('uniform', 'normal', 'lognormal')
INNER_SCRIPTABLE = ('normal', 'adaptive_normal', 'ss_adaptive_normal', 'at_adaptive_normal',
                    'bounded_normal', 'adaptive_bounded_normal', 'ss_adaptive_bounded_normal')
INNER_ALL = INNER_SCRIPTABLE + ('at_adaptive_bounded_normal', 'eigenvector', 'adaptive_eigenvector')
MODEL_PROPS = ('bounded_discrete', 'ss_adaptive_bounded_discrete', 'adaptive_bounded_discrete')
BOX = (0.0, 4.0)            # box of bounded in-model proposals with uniform births
WIDE = (-1.0e3, 1.0e3)      # box used with normal births (never reached by a float normal draw)
WIDEPOS = (0.0, 1.0e6)      # box used with lognormal births


class TDConfig:
    """A nested transdimensional set-up; `build()` makes fresh real proposals."""

    def __init__(self, K, widths, kmin, kmax, successive, index_std, birth, inner,
                 model_prop='bounded_discrete', extra=None, betas=(1.0,), swap_interval=1,
                 window=6, inner_seed=0, birth_box=None, blobs=False):
        self.K, self.widths = K, list(widths)
        self.blobs = bool(blobs)                # the model returns blobs (the number of active components, k^2)
        self.kmin, self.kmax = kmin, kmax
        self.successive, self.index_std = successive, index_std
        self.birth, self.inner, self.model_prop = birth, inner, model_prop
        self.extra = extra                      # None | 'normal' | 'bounded_normal'
        self.betas = list(betas)
        self.swap_interval = swap_interval
        self.window = window
        self.inner_seed = inner_seed
        # a uniform birth may be narrower than the range the in-model jumps explore (legal): a component
        # that has drifted out of the birth support can not be born there, so its death must have probability 0
        self.birth_box = tuple(birth_box) if birth_box else None

    def describe(self):
        return dict(self.__dict__)

    @classmethod
    def from_description(cls, d):
        d = dict(d)
        return cls(d.pop('K'), d.pop('widths'), d.pop('kmin'), d.pop('kmax'), d.pop('successive'),
                   d.pop('index_std'), d.pop('birth'), d.pop('inner'), **d)

    # ---- names
    def names(self, i):
        return ['c%d_%d' % (i, j) for j in range(self.widths[i])]

    @property
    def td_params(self):
        return [n for i in range(self.K) for n in self.names(i)] + ['k']

    @property
    def params(self):
        return self.td_params + (['z'] if self.extra else [])

    def box(self):
        if self.birth == 'uniform':
            return BOX
        return WIDE if self.birth == 'normal' else WIDEPOS

    def bounded_inner(self):
        return 'bounded' in self.inner

    def index_bounds(self):
        """The bounds handed to the model-index proposal: the integers (kmin, kmax), or -- in every other
        configuration with kmin < kmax -- non-integer floats that the class documents it rounds outward
        to exactly those integers (floor of the lower, ceil of the upper bound)."""
        if self.kmax > self.kmin and self.inner_seed % 2 == 1:
            return (self.kmin + 0.5, self.kmax - 0.5)
        return (self.kmin, self.kmax)

    def birth_params(self, i):
        """(means, stds) of component i's normal / log-normal birth: fixed by the configuration,
        different for every component and parameter; one configuration in three keeps the unit values."""
        w = self.widths[i]
        if self.inner_seed % 3 == 0:
            return ([1.0] * w, [1.0 if self.birth == 'normal' else 0.7] * w)
        if self.birth == 'normal':
            mus, sds = (1.0, -0.5, 2.25, 0.0), (2.5, 0.3, 1.0, 0.75)
        else:
            mus, sds = (1.0, 2.0, 0.5, 3.0), (0.7, 0.3, 1.5, 1.0)
        o = self.inner_seed
        return ([mus[(o + i + j) % 4] for j in range(w)], [sds[(o + 2 * i + j) % 4] for j in range(w)])

    # ---- real objects
    def build(self):
        import families
        rng = random.Random(self.inner_seed)
        inner, births = [], []
        for i in range(self.K):
            ns = self.names(i)
            doms = {n: self.box() for n in ns}
            fam = self.inner
            if fam in ('eigenvector', 'adaptive_eigenvector') and len(ns) < 2:
                fam = 'normal'
            inner.append(families.make(fam, ns, doms, rng, window=self.window))
            if self.birth == 'uniform':
                births.append(P.UniformBirth(ns, {n: (self.birth_box or BOX) for n in ns}))
            elif self.birth == 'normal':
                # means and widths differ between components and parameters (and are not 1): a density
                # that is only right for the unit normal, or that pairs them up wrongly, must show
                mu, sd = self.birth_params(i)
                births.append(P.NormalBirth(ns, dict(zip(ns, mu)), dict(zip(ns, sd))))
            else:
                mu, sd = self.birth_params(i)
                births.append(P.LogNormalBirth(ns, dict(zip(ns, mu)), dict(zip(ns, sd))))
        cls = families.FAMILIES[self.model_prop][0]
        kw = dict(successive={'k': bool(self.successive)})
        if self.model_prop == 'discrete':
            # not what the class documents ("must be a discrete, bounded proposal"), but accepted:
            # the only way to reach the symmetric branch of the Hastings-term logic
            mp = cls(['k'], cov=[self.index_std ** 2], **kw)
        elif self.model_prop == 'bounded_discrete':
            mp = cls(['k'], {'k': self.index_bounds()}, cov=[self.index_std ** 2], **kw)
        elif self.model_prop == 'ss_adaptive_bounded_discrete':
            mp = cls(['k'], {'k': self.index_bounds()}, cov=[self.index_std ** 2], **kw)
        else:
            mp = cls(['k'], {'k': self.index_bounds()}, self.window, **kw)
        td = P.NestedTransdimensional(self.td_params, mp, inner, births)
        props = [td]
        if self.extra == 'normal':
            props.append(P.Normal(['z'], cov=[0.25]))
        elif self.extra == 'bounded_normal':
            props.append(P.BoundedNormal(['z'], {'z': (-2.0, 2.0)}, cov=[0.25]))
        return props

    def model(self):
        return HarnessModel(self)

    # ---- points
    def point_dict(self, k, comps, z=0.25):
        """comps: list of None | list of floats."""
        d = {}
        for i in range(self.K):
            for j, n in enumerate(self.names(i)):
                d[n] = numpy.nan if comps[i] is None else float(comps[i][j])
        d['k'] = int(k)
        if self.extra:
            d['z'] = z
        return d

    def split(self, pos):
        """dict/record -> (k, [None | list of floats | 'partial'])."""
        comps = []
        for i in range(self.K):
            vals = [float(pos[n]) for n in self.names(i)]
            nn = [math.isnan(v) for v in vals]
            if all(nn):
                comps.append(None)
            elif any(nn) or not all(math.isfinite(v) for v in vals):
                comps.append('partial')
            else:
                comps.append(vals)
        return int(pos['k']), comps

    def canon_point(self, pos):
        k, comps = self.split(pos)
        out = []
        for i, c in enumerate(comps):
            if c is None:
                out.append('nan')
            elif c == 'partial':
                out.append('PARTIAL(' + ';'.join(frac(pos[n]) for n in self.names(i)) + ')')
            else:
                out.append(';'.join(frac(v) for v in c))
        return '%d:%s' % (k, '|'.join(out))

    def random_value(self, rng, out_ok=False):
        """A dyadic value inside every box used here; with `out_ok`, occasionally a value the
        harness model's prior excludes (log-prior -inf: forced reject), where the set-up allows it."""
        if out_ok and self.birth != 'uniform' and not self.bounded_inner() and rng.random() < 0.06:
            return 6.0
        lo, hi = (0.25, 3.75)
        return round(rng.uniform(lo, hi) * 64) / 64.0

    def random_point(self, rng, k=None):
        if k is None:
            k = rng.randint(max(self.kmin, 0), min(self.kmax, self.K))
        act = set(rng.sample(range(self.K), k))
        comps = [[self.random_value(rng) for _ in range(self.widths[i])] if i in act else None
                 for i in range(self.K)]
        return k, comps


class HarnessModel:
    """A pure model: Gaussian-ish likelihood on the active components, flat prior on the
    index, Gaussian prior on the values, and log-prior -inf beyond |v| > 5.5."""

    def __init__(self, cfg):
        self.cfg = cfg
        self.calls = 0

    def __call__(self, **kw):
        self.calls += 1
        cfg = self.cfg
        logl, logp = 0.0, -0.125 * int(kw['k'])
        for i in range(cfg.K):
            for j, n in enumerate(cfg.names(i)):
                v = float(kw[n])
                if math.isnan(v):
                    continue
                if abs(v) > 5.5:
                    if getattr(cfg, 'blobs', False):
                        return 0.0, -numpy.inf, {'nact': -1.0, 'ksq': float(int(kw['k']) ** 2)}
                    return 0.0, -numpy.inf
                logl += -0.5 * (v - 1.0 - 0.25 * i) ** 2 / (0.75 + 0.125 * j)
                logp += -0.03125 * v * v - 0.5
        if cfg.extra:
            z = float(kw['z'])
            logl += -0.5 * z * z
            logp += -0.25 * abs(z)
        if getattr(cfg, 'blobs', False):
            nact = sum(1 for i in range(cfg.K) if not math.isnan(float(kw[cfg.names(i)[0]])))
            return logl, logp, {'nact': float(nact), 'ksq': float(int(kw['k']) ** 2)}
        return logl, logp


def mask_str(m):
    m = list(m)
    return ','.join('1' if b else '0' for b in m) if m else '-'


def nats_str(l):
    l = list(l)
    return ','.join(str(int(i)) for i in l) if l else '-'


def td_of(chain):
    for prop in chain.proposal_dist.proposals:
        if getattr(prop, 'transdimensional', False):
            return prop
    raise ValueError('no transdimensional proposal')


# ---------------------------------------------------------------------------
# well-formedness of real objects (the oracle of the C10 search: the property text)
# ---------------------------------------------------------------------------

def wf_point(cfg, pos, what):
    """Problems of one real point (dict or record), per the statement of C10."""
    probs = []
    k, comps = cfg.split(pos)
    nact = sum(1 for c in comps if c is not None)
    if any(c == 'partial' for c in comps):
        probs.append('%s: a component is neither all-NaN nor all-finite: %s' % (what, cfg.canon_point(pos)))
    if k != nact:
        probs.append('%s: index %d but %d active components: %s' % (what, k, nact, cfg.canon_point(pos)))
    if not (cfg.kmin <= k <= cfg.kmax):
        probs.append('%s: index %d outside the model proposal\'s bounds [%d, %d]' % (what, k, cfg.kmin, cfg.kmax))
    return probs


def pattern(cfg, pos):
    return [c is not None for c in cfg.split(pos)[1]]


def wf_chain(cfg, chain, tag, check_records='last'):
    """Problems of one real Chain: records, proposed position, internal active set."""
    probs = []
    if len(chain) > 0:
        recs = chain.positions
        idx = range(len(recs)) if check_records == 'all' else [len(recs) - 1]
        for i in idx:
            probs += wf_point(cfg, recs[i], '%s record %d' % (tag, i))
    cur = chain.current_position
    probs += wf_point(cfg, cur, '%s current position' % tag)
    act = [bool(b) for b in chain._active_props]
    if act != pattern(cfg, cur):
        probs.append('%s: _active_props %s but NaN pattern of the current position is %s' % (
            tag, mask_str(act), mask_str(pattern(cfg, cur))))
    pp = chain._proposed_position
    if pp is not None:
        probs += wf_point(cfg, pp, '%s proposed_position' % tag)
        st = [bool(b) for b in pp['_state']] if '_state' in pp else None
        if st is None:
            probs.append('%s: proposed_position has no _state entry' % tag)
        elif st != pattern(cfg, pp):
            probs.append('%s: proposed _state %s but NaN pattern of the proposed point is %s' % (
                tag, mask_str(st), mask_str(pattern(cfg, pp))))
    return probs


# ---------------------------------------------------------------------------
# Lean driver
# ---------------------------------------------------------------------------

def ensure_built():
    """The model module is built by `lake build` once EpsieProps imports C10/C11; build it
    explicitly anyway so that the driver can always import it."""
    os.makedirs(os.path.join(common.LEAN_DIR, '.lake'), exist_ok=True)
    lockf = open(os.path.join(common.LEAN_DIR, '.lake', 'verif.lock'), 'w')
    fcntl.flock(lockf, fcntl.LOCK_EX)
    try:
        p = common._lake(['build', 'EpsieModel.Transdim'])
    finally:
        fcntl.flock(lockf, fcntl.LOCK_UN)
        lockf.close()
    return p.returncode == 0, p.stdout


def run_driver(lines, timeout=1800):
    p = subprocess.run(['lake', 'env', 'lean', '--run', 'DriverTransdim.lean'], cwd=common.LEAN_DIR,
                       input='\n'.join(lines) + '\n', stdout=subprocess.PIPE, stderr=subprocess.PIPE,
                       text=True, timeout=timeout)
    if p.returncode != 0:
        raise RuntimeError('Lean transdim driver failed: ' + (p.stderr or p.stdout)[-2000:])
    return p.stdout.splitlines()


# ---------------------------------------------------------------------------
# correspondence
# ---------------------------------------------------------------------------

class Case:
    """cfg + op list. ops: ('start', [ (k, comps) per level ]) | ('step', [plan per level]) |
    ('clear',) | ('save',) | ('load', same_object:bool).
    A step plan: dict(newk, chosen, births{i: vals}, moves{i: vals}, rejects:[z...], u, sweep_us)."""

    def __init__(self, cid, cfg, ops):
        self.cid, self.cfg, self.ops = cid, cfg, ops

    def describe(self):
        return {'id': self.cid, 'cfg': self.cfg.describe(), 'ops': self.ops}

    @classmethod
    def from_description(cls, d):
        return cls(d['id'], TDConfig.from_description(d['cfg']), [tuple(o) for o in d['ops']])


class RealSystem:
    """The real chain(s) of one case: a plain Chain (one beta) or a ParallelTemperedChain."""

    def __init__(self, cfg, script):
        self.cfg = cfg
        self.script = script
        self.model = cfg.model()
        if len(cfg.betas) == 1:
            self.obj = Chain(cfg.params, self.model, cfg.build(), bit_generator=7, beta=cfg.betas[0])
            self.levels = [self.obj]
        else:
            self.obj = ParallelTemperedChain(cfg.params, self.model, cfg.build(), betas=cfg.betas,
                                             swap_interval=cfg.swap_interval, bit_generator=7)
            self.levels = list(self.obj.chains)
        self.register()

    def register(self):
        for t, ch in enumerate(self.levels):
            td = td_of(ch)
            s = self.script
            s.register(ch.proposal_dist, (t, 'U'))
            s.register(td, (t, 'choice'))
            s.register(td.model_proposal, (t, 'index'))
            for i, prop in enumerate(td.proposals):
                s.register(prop, (t, 'move', i))
                s.register(prop.birth_distribution, (t, 'birth', i))
            for prop in ch.proposal_dist.proposals:
                if prop is not td:
                    s.register(prop, (t, 'extra'))

    def level_of(self, chain):
        for t, ch in enumerate(self.levels):
            if ch is chain:
                return t
        return None


def index_z(cfg, dk, rng):
    """A normal draw that the real index jump turns into the increment dk."""
    if cfg.successive:
        return dk + rng.choice([-0.375, -0.125, 0.0, 0.25, 0.4375])
    if dk == 0:
        raise ValueError('non-successive index jumps never stay')
    return dk - 0.3125 if dk > 0 else dk + 0.3125


def reject_z(cfg, k, rng):
    """A draw that the real rejection loop discards (lands outside the bounds), if any."""
    return rng.choice([cfg.kmax - k + 1.25, cfg.kmin - k - 1.25])


def plan_step(cfg, rng, k, active, want=None, std=None):
    """Script one composite move from a point with index k and mask `active`.  `std`: current
    scale of the index jump; moves deeper than ~3.5 sigma are not scripted (the reported
    densities lose all precision there: ill-conditioned, cf. DESIGN 2.3)."""
    K = cfg.K
    lo, hi = max(cfg.kmin, 0), min(cfg.kmax, K)
    reach = K if std is None else max(1, int(3 * std + 0.5))
    choices = [n for n in range(lo, hi + 1) if (cfg.successive or n != k) and abs(n - k) <= reach]
    if want is not None and want in choices:
        newk = want
    else:
        newk = rng.choice(choices)
    dk = newk - k
    if dk > 0:
        cand = [i for i in range(K) if not active[i]]
    else:
        cand = [i for i in range(K) if active[i]]
    chosen = rng.sample(cand, abs(dk)) if dk else []
    prop = list(active)
    for c in chosen:
        prop[c] = not prop[c]
    def birth_value():
        if cfg.birth == 'uniform' and getattr(cfg, 'birth_box', None):
            lo_b, hi_b = cfg.birth_box
            return round(rng.uniform(lo_b, hi_b) * 64) / 64.0
        return cfg.random_value(rng, True)
    births = {i: [birth_value() for _ in range(cfg.widths[i])]
              for i in range(K) if dk > 0 and prop[i] and not active[i]}
    moves = {i: [cfg.random_value(rng, True) for _ in range(cfg.widths[i])]
             for i in range(K) if prop[i] and active[i]}
    rejects = [reject_z(cfg, k, rng)] if rng.random() < 0.25 and cfg.model_prop != 'discrete' else []
    r = rng.random()
    u = 0.0 if r < 0.45 else (1.0 if r < 0.6 else rng.random())
    return {'newk': newk, 'z': index_z(cfg, dk, rng), 'chosen': chosen,
            'births': {str(i): v for i, v in births.items()},
            'moves': {str(i): v for i, v in moves.items()},
            'rejects': rejects, 'u': u, 'zextra': round(rng.uniform(-1, 1) * 16) / 16.0}


def gen_case(rng, cid, pt=None, inner=None, birth=None):
    K = rng.randint(1, 5)
    widths = [rng.choice([1, 1, 2]) for _ in range(K)]
    kmin = rng.randint(0, max(0, K - 1))
    kmax = rng.randint(min(kmin + 1, K), K)
    if kmax == kmin:
        kmin = max(0, kmin - 1)
    successive = rng.random() < 0.6 or kmin == kmax
    if kmin == kmax:
        successive = True
    inner = inner or rng.choice(INNER_SCRIPTABLE)
    birth = birth or rng.choice(BIRTHS)
    pt = rng.random() < 0.5 if pt is None else pt
    betas = [1.0] if not pt else [1.0] + sorted(rng.sample([0.5, 0.25, 0.0], rng.randint(1, 2)), reverse=True)
    r = rng.random()
    cfg = TDConfig(K, widths, kmin, kmax, successive, rng.choice([0.75, 1.0, 2.0]), birth, inner,
                   model_prop='discrete' if r < 0.12 else rng.choice(MODEL_PROPS if r < 0.4 else MODEL_PROPS[:1]),
                   extra=rng.choice([None, None, 'normal', 'bounded_normal']),
                   betas=betas, swap_interval=rng.choice([1, 1, 2]), window=rng.randint(3, 6),
                   inner_seed=rng.randint(0, 10 ** 6))
    ops = [('start', None)]
    nops = rng.randint(3, 9)
    saved = False
    for _ in range(nops):
        r = rng.random()
        if r < 0.58:
            ops.append(('step', rng.randint(1, 4)))
        elif r < 0.68:
            ops.append(('clear',))
        elif r < 0.80:
            ops.append(('save',))
            saved = True
        elif saved:
            ops.append(('load', rng.random() < 0.3))
        else:
            ops.append(('step', 1))
    return Case(cid, cfg, ops, ), rng.randint(0, 2 ** 31)


def run_case(case, plan_seed):
    """Execute the case on the real code.  Returns (protocol lines, expected output lines, stats).
    The draws are planned on the fly from the real state (so they are always feasible)."""
    cfg = case.cfg
    rng = random.Random(plan_seed)
    script = Script()
    lines = ['case %s' % case.cid,
             'cfg K=%d kmin=%d kmax=%d msym=%d isym=%s ntemps=%d' % (cfg.K, cfg.kmin, cfg.kmax, 0, '-', len(cfg.betas))]
    expect = ['case %s' % case.cid, 'ok cfg']
    stats = {'steps': 0, 'births': 0, 'deaths': 0, 'same': 0, 'multi': 0, 'accepted': 0, 'rejected': 0,
             'forced_reject': 0, 'sweeps': 0, 'swapped': 0, 'clears': 0, 'saves': 0, 'loads': 0,
             'index_rejections': 0, 'updated_calls': 0}
    observed = {}      # id(chain) -> dict captured by the hooks during the current step

    def step_hook(ch):
        o = observed.setdefault(id(ch), {})
        o['rec'] = cfg.canon_point(ch.positions[-1])
        o['active'] = mask_str(ch._active_props)
        o['proposed'] = dict(ch._proposed_position)
        o['acc'] = (float(ch.acceptance['acceptance_ratio'][-1]), bool(ch.acceptance['accepted'][-1]))
        o['it'] = ch.iteration

    def ar_hook(ch, proposal, current_pos):
        observed.setdefault(id(ch), {})['dens'] = real_densities(cfg, ch, proposal, current_pos)

    def update_hook(prop, chain):
        role = script.role_of(prop)
        if len(role) == 3 and role[1] == 'move':
            observed.setdefault(id(chain), {}).setdefault('updated', set()).add(role[2])

    def dump(real):
        out = []
        for t, ch in enumerate(real.levels):
            st = ch._start
            pp = ch._proposed_position
            recs = ch.positions if len(ch) > 0 else []
            out.append('level %d it=%d active=%s start=%s cur=%s proposed=%s recs=%s' % (
                t, ch.iteration, mask_str(ch._active_props),
                cfg.canon_point(st) if st is not None else 'none',
                cfg.canon_point(ch.current_position),
                ('%s state=%s' % (cfg.canon_point(pp), mask_str(pp['_state']))) if pp is not None else 'none',
                ' '.join(cfg.canon_point(r) for r in recs) if len(recs) else '-'))
        return out

    with patched_generator(lambda owner: ScriptedGen(script, owner)), \
            hooks(step_hook=step_hook, ar_hook=ar_hook, update_hook=update_hook):
        real = RealSystem(cfg, script)
        td0 = td_of(real.levels[0])
        msym = bool(td0.model_proposal.symmetric)
        isym = [bool(p.symmetric) for p in td0.proposals]
        unb = cfg.model_prop == 'discrete'             # an unbounded model proposal never raises on bounds
        lines[1] = 'cfg K=%d kmin=%d kmax=%d msym=%d isym=%s ntemps=%d' % (
            cfg.K, -10 ** 6 if unb else cfg.kmin, 10 ** 6 if unb else cfg.kmax, int(msym), mask_str(isym),
            len(cfg.betas))
        stats['td_symmetric_cases'] = int(bool(td0.symmetric))
        saved_state = None
        for op in case.ops:
            if op[0] == 'start':
                for t, ch in enumerate(real.levels):
                    k, comps = cfg.random_point(rng)
                    pos = cfg.point_dict(k, comps)
                    ch.start_position = pos
                    lines.append('start lv=%d pt=%s' % (t, cfg.canon_point(pos)))
                    expect.append('start lv=%d active=%s' % (t, mask_str(ch._active_props)))
            elif op[0] == 'step':
                for _ in range(op[1]):
                    _scripted_step(cfg, real, script, rng, observed, lines, expect, stats)
            elif op[0] == 'clear':
                real.obj.clear()
                stats['clears'] += 1
                lines.append('clear')
                expect.append('clear ok')
            elif op[0] == 'save':
                if real.levels[0].iteration == 0:
                    continue                    # Chain.state raises before the first step (modelled: `save raise`)
                saved_state = pickle.loads(pickle.dumps(real.obj.state))
                stats['saves'] += 1
                lines.append('save')
                expect.append('save ok')
            elif op[0] == 'load':
                if saved_state is None:
                    continue
                if not op[1]:
                    real = RealSystem(cfg, script)           # resume in a freshly built object
                real.obj.set_state(pickle.loads(pickle.dumps(saved_state)))
                stats['loads'] += 1
                lines.append('load')
                expect.append('load ok')
            lines.append('dump')
            expect += dump(real)
    return lines, expect, stats


def real_densities(cfg, ch, proposal, current_pos):
    """The log-densities that the real constituents report for the move current -> proposal
    and back, captured right before `Chain._acceptance_ratio` evaluates them."""
    td = td_of(ch)
    kx, cx = cfg.split(current_pos)
    ky, cy = cfg.split(proposal)

    def dens(xi, cxi, givenx, cgiven):
        idx = td.model_proposal.logpdf({'k': xi['k']}, {'k': givenx['k']})
        birth, inm = [], []
        for i, prop in enumerate(td.proposals):
            ps = prop.parameters
            if cxi[i] is not None:
                birth.append(float(prop.birth_distribution.logpdf({p: xi[p] for p in ps})))
            else:
                birth.append(SENTINEL)
            if cxi[i] is not None and cgiven[i] is not None:
                inm.append(float(prop.logpdf({p: xi[p] for p in ps}, {p: givenx[p] for p in ps})))
            else:
                inm.append(SENTINEL)
        return float(idx), birth, inm
    fwd = dens(proposal, cy, current_pos, cx)
    rev = dens(current_pos, cx, proposal, cy)
    others = []
    for prop in ch.proposal_dist.proposals:
        if prop is td:
            continue
        ps = prop.parameters
        r = float(prop.logpdf({p: current_pos[p] for p in ps}, {p: proposal[p] for p in ps}))
        f = float(prop.logpdf({p: proposal[p] for p in ps}, {p: current_pos[p] for p in ps}))
        others.append((bool(prop.symmetric), r, f))
    return {'fwd': fwd, 'rev': rev, 'others': others}


def _finite_dens(d):
    vals = [d['fwd'][0], d['rev'][0]] + list(d['fwd'][1]) + list(d['fwd'][2]) + list(d['rev'][1]) \
        + list(d['rev'][2]) + [v for o in d['others'] for v in o[1:]]
    return all(math.isfinite(v) for v in vals)


def dens_str(d):
    return '%s:%s:%s' % (frac(d[0]), ','.join(frac(v) for v in d[1]) or '-', ','.join(frac(v) for v in d[2]) or '-')


def _scripted_step(cfg, real, script, rng, observed, lines, expect, stats):
    observed.clear()
    plans = []
    pre = []
    for t, ch in enumerate(real.levels):
        cur = ch.current_position
        k = int(cur['k'])
        active = [bool(b) for b in ch._active_props]
        plan = plan_step(cfg, rng, k, active, std=float(td_of(ch).model_proposal._std[0]))
        plans.append(plan)
        pre.append((cfg.canon_point(cur), active, dict(cur), dict(ch.current_stats)))
        for z in plan['rejects']:
            script.push((t, 'index'), z)
        script.push((t, 'index'), plan['z'])
        if plan['chosen']:
            script.push((t, 'choice'), list(plan['chosen']))
        for i, v in plan['births'].items():
            script.push((t, 'birth', int(i)), *v)
        for i, v in plan['moves'].items():
            script.push((t, 'move', int(i)), *v)
        script.push((t, 'extra'), plan['zextra'])
        script.push((t, 'U'), plan['u'])
    # uniforms of a sweep come from level 0's generator
    script.push((0, 'U'), *[rng.choice([0.0, 1.0, rng.random()]) for _ in range(len(real.levels))])
    nlog0 = len(script.log)
    real.obj.step()
    script.clear()
    stats['index_rejections'] += sum(len(p['rejects']) for p in plans)
    for t, ch in enumerate(real.levels):
        o = observed[id(ch)]
        plan = plans[t]
        pp = o['proposed']
        kx = int(pre[t][2]['k'])
        ky = int(pp['k'])
        dk = ky - kx
        stats['steps'] += 1
        stats['births' if dk > 0 else 'deaths' if dk < 0 else 'same'] += 1
        stats['multi'] += abs(dk) > 1
        ar, accepted = o['acc']
        stats['accepted' if accepted else 'rejected'] += 1
        # what the real code drew, from the log of the scripted generator
        drew_b, drew_m, chosen = {}, {}, []
        for role, method, args, v in script.log[nlog0:]:
            if role[0] != t:
                continue
            if role[1] == 'birth':
                drew_b.setdefault(role[2], []).append(v)
            elif role[1] == 'move':
                drew_m.setdefault(role[2], []).append(v)
            elif role[1] == 'choice':
                chosen = list(v)

        def slots(d):
            return '|'.join(';'.join(frac(v) for v in d[i]) if i in d else '-' for i in range(cfg.K))
        lines.append('step lv=%d newk=%d chosen=%s birth=%s move=%s accept=%d' % (
            t, ky, nats_str(chosen), slots(drew_b), slots(drew_m), int(accepted)))
        xa, ya = pre[t][1], [bool(b) for b in pp['_state']]
        born = [i for i in range(cfg.K) if dk > 0 and not xa[i] and ya[i]]
        killed = [i for i in range(cfg.K) if dk < 0 and xa[i] and not ya[i]]
        # which components really changed value / pattern (independent of the mask arithmetic above)
        _, cxs = cfg.split(pre[t][2])
        _, cys = cfg.split(pp)
        born_real = [i for i in range(cfg.K) if cxs[i] is None and cys[i] is not None]
        killed_real = [i for i in range(cfg.K) if cxs[i] is not None and cys[i] is None]
        moved_real = sorted(drew_m)
        upd = o.get('updated', set())
        stats['updated_calls'] += len(upd)
        expect.append('step lv=%d proposed=%s state=%s born=%s killed=%s moved=%s rec=%s active=%s updated=%s it=%d' % (
            t, cfg.canon_point(pp), mask_str(ya), nats_str(born_real), nats_str(killed_real),
            nats_str(moved_real), o['rec'], o['active'],
            mask_str([i in upd for i in range(cfg.K)]), o['it']))
        # acceptance
        cs = pre[t][3]
        if 'dens' in o and not _finite_dens(o['dens']):
            stats['acc_illconditioned'] = stats.get('acc_illconditioned', 0) + 1
            continue
        if 'dens' in o:
            d = o['dens']
            new = real.model(**{p: v for p, v in pp.items() if p != '_state'})
            real.model.calls -= 1
            lines.append('acc lv=%d beta=%s cur=%s,%s new=%s,%s fwd=%s rev=%s others=%s' % (
                t, frac(ch.beta), frac(cs['logl']), frac(cs['logp']), frac(new[0]), frac(new[1]),
                dens_str(d['fwd']), dens_str(d['rev']),
                ';'.join('%d:%s:%s' % (int(s), frac(r), frac(f)) for s, r, f in d['others']) or '-'))
        else:
            stats['forced_reject'] += 1
            lines.append('acc lv=%d beta=%s cur=%s,%s new=0,-inf fwd=0:-:- rev=0:-:- others=-' % (
                t, frac(ch.beta), frac(cs['logl']), frac(cs['logp'])))
        nx = sum(xa)
        ny = sum(ya)
        ways_f = math.comb(cfg.K - nx if dk > 0 else nx, abs(dk)) if dk else 1
        ways_r = math.comb(cfg.K - ny if dk < 0 else ny, abs(dk)) if dk else 1
        expect.append('acc lv=%d ar=%s ways=%d,%d C=%d,%d' % (
            t, frac(ar), ways_f, ways_r, math.comb(cfg.K, nx), math.comb(cfg.K, ny)))
    # sweep
    if len(real.levels) > 1 and real.obj.iteration % cfg.swap_interval == 0:
        # raw storage: the `temperature_swaps` view loses a row after a clear at a non-multiple
        # of swap_interval (defect F6, property C09)
        ii = real.obj.iteration - real.obj.lastclear - 1
        idx = [int(i) for i in real.obj._temperature_swaps[ii // cfg.swap_interval]['swap_index']]
        stats['sweeps'] += 1
        stats['swapped'] += idx != list(range(len(idx)))
        lines.append('sweep idx=%s' % nats_str(idx))
        expect.append('sweep ok active=%s' % '/'.join(mask_str(ch._active_props) for ch in real.levels))


def ar_close(model_tok, real_tok, rtol=1e-9):
    """model: 0 | 1 | E<q>; real: exact fraction of the recorded float.  Numerical comparison
    (also across the `logar > 0` branch, where both sides are within rounding of 1)."""
    try:
        real = float(Fraction(real_tok))
        if model_tok == '0':
            return real == 0.0
        if model_tok == '1':
            want = 1.0
        elif model_tok.startswith('E'):
            q = Fraction(model_tok[1:])
            want = math.exp(float(q)) if q > -745 else 0.0
        else:
            return False
    except (ValueError, ZeroDivisionError):
        return False
    return abs(real - want) <= rtol * max(abs(want), 1e-300) or (want < 1e-300 and real < 1e-300)


def lines_agree(model_line, real_line):
    """Exact token comparison, except: `ar=` numerically (rel. 1e-9); model-only tokens of the
    `acc` line (logq*, tdsym) are ignored."""
    if model_line == real_line:
        return True
    a, b = model_line.split(' '), real_line.split(' ')
    if a[:1] == ['acc'] and b[:1] == ['acc']:
        a = [x for x in a if not x.startswith(('logqfwd=', 'logqrev=', 'tdsym='))]
    if len(a) != len(b):
        return False
    for x, y in zip(a, b):
        if x == y:
            continue
        if x.startswith('ar=') and y.startswith('ar='):
            if not ar_close(x[3:], y[3:]):
                return False
        else:
            return False
    return True


def check_cases(cases_with_seeds, ignore_acc=False):
    """Run cases on the real code and on the model. Returns (divergences, errors, stats list).
    `ignore_acc`: leave the acceptance lines out of the comparison (C10 only needs the bookkeeping)."""
    all_lines, expects, stats, errs = [], [], [], []
    for case, seed in cases_with_seeds:
        try:
            l, e, s = run_case(case, seed)
        except Exception as ex:                         # the real code (or the script) raised
            errs.append({'case': case, 'seed': seed, 'exception': repr(ex), 'traceback': traceback.format_exc()})
            continue
        all_lines.append(l)
        expects.append((case, seed, e))
        stats.append(s)
    flat = [x for l in all_lines for x in l]
    out = run_driver(flat) if flat else []
    # split the model's output by case
    chunks, cur = [], None
    for line in out:
        if line.startswith('case '):
            cur = [line]
            chunks.append(cur)
        elif cur is not None:
            cur.append(line)
    divs = []
    for n, (case, seed, e) in enumerate(expects):
        m = chunks[n] if n < len(chunks) else []
        L = max(len(m), len(e))
        for i in range(L):
            ml = m[i] if i < len(m) else '<model output ended>'
            rl = e[i] if i < len(e) else '<real output ended>'
            if ignore_acc and ml.startswith('acc ') and rl.startswith('acc '):
                continue
            if not lines_agree(ml, rl):
                divs.append({'case': case, 'seed': seed, 'index': i, 'model_line': ml, 'real_line': rl})
                break
    return divs, errs, stats


def correspondence(chk, n, ignore_acc=False, label='transdim'):
    """Generate and run `n` cases (plus the corpus); fill chk.coverage / chk.samples."""
    rng = random.Random((chk.seed << 8) ^ 0x7D1)
    cases = corpus_cases(chk.prop)
    for i in range(n):
        cases.append(gen_case(rng, '%s-%d' % (label, i)))
    divs, errs, stats = check_cases(cases, ignore_acc=ignore_acc)
    agg, fams = {}, {}
    for st in stats:
        for k, v in st.items():
            agg[k] = agg.get(k, 0) + int(v)
    for c, _ in cases:
        key = '%s/%s/%s' % (c.cfg.inner, c.cfg.birth, c.cfg.model_prop)
        fams[key] = fams.get(key, 0) + 1
    cov = chk.coverage
    cov['correspondence_cases'] = cov.get('correspondence_cases', 0) + len(cases)
    cov['evaluations'] = cov.get('evaluations', 0) + len(cases)
    distinct = len({json.dumps([c.describe(), sd], sort_keys=True, default=str) for c, sd in cases
                    if any(o[0] == 'step' for o in c.ops)})
    cov['distinct_nontrivial'] = cov.get('distinct_nontrivial', 0) + distinct
    cov['rule'] = ('cases generated from VERIF_SEED by transdim.gen_case (1-5 components of 1-2 parameters, index '
                   'bounds inside [0, K], successive on/off, three birth families, %d in-model families, %d model-'
                   'proposal classes, optional extra non-transdimensional parameter, 1-3 temperatures); '
                   'non-trivial = contains at least one scripted step; distinct = distinct (description, plan seed)'
                   % (len(INNER_SCRIPTABLE), len(MODEL_PROPS)))
    cov.setdefault('correspondence', {})[label] = {
        'cases': len(cases), 'divergences': len(divs), 'real_code_exceptions': len(errs),
        'compared': 'all lines' if not ignore_acc else 'all lines except acceptance',
        'branches': agg, 'inner/birth/model_proposal': fams}
    if cases:
        try:
            l, e, _ = run_case(*cases[-1])
            chk.samples.append({'case': cases[-1][0].describe(), 'protocol_head': l[:8], 'expected_head': e[:8]})
        except Exception as ex:
            chk.samples.append({'case': cases[-1][0].describe(), 'error': repr(ex)})
    return divs, errs


def corpus_cases(prop):
    d = os.path.join(common.CORPUS_DIR, prop)
    out = []
    if os.path.isdir(d):
        for f in sorted(os.listdir(d)):
            if f.endswith('.json'):
                try:
                    j = json.load(open(os.path.join(d, f)))
                    out.append((Case.from_description(j['case']), j['seed']))
                except Exception:
                    pass
    return out


def report(chk, proof_ok, divs, errs, findings, suite='transdim'):
    """findings: failing inputs found on the real code.  A broken proof obligation or a broken
    correspondence without a failing input is reported as `unproved` (no-failing-input-found)."""
    for key, text, payload in findings:
        chk.violation(key, text, payload, True)
    broken = []
    payload_case = None
    if not proof_ok:
        broken += ['lean: ' + str(o[0]) + ' ' + str(o[2]) for o in chk.broken_obligations()]
    if divs:
        d = divs[0]
        broken.append('correspondence suite %s: %d diverging case(s); first at output line %d: model %r vs real %r' % (
            suite, len(divs), d['index'], d['model_line'][:300], d['real_line'][:300]))
        payload_case = {'case': d['case'].describe(), 'seed': d['seed']}
    if errs:
        e = errs[0]
        broken.append('correspondence suite %s: the real code raised %s' % (suite, e['exception'][:300]))
        if payload_case is None:
            payload_case = {'case': e['case'].describe(), 'seed': e['seed']}
    if broken and not findings and not chk.known_hit:
        chk.violation('unproved', '; '.join(broken)[:1500], {
            'no_longer_checks': broken, 'kind_of_input': 'correspondence', 'correspondence_case': payload_case,
            'how_to_replay': './check %s --replay <this file>' % chk.prop}, False)
    elif broken and not findings and chk.known_hit:
        chk.notes.append('correspondence/proof breakage attributed to known findings: ' + '; '.join(broken)[:500])


def replay_file(path, prop):
    d = json.load(open(path))
    kind = d.get('kind_of_input')
    if kind == 'c10-run':
        return replay_c10(d)
    if kind == 'c11-pair':
        return replay_c11(d)
    pc = d.get('correspondence_case')
    if pc:
        ensure_built()
        case = Case.from_description(pc['case'])
        divs, errs, _ = check_cases([(case, pc['seed'])], ignore_acc=(prop == 'C10'))
        for dv in divs:
            print('DIVERGENCE at output line %d\n  model: %s\n  real:  %s' % (dv['index'], dv['model_line'], dv['real_line']))
        for e in errs:
            print('REAL CODE RAISED', e['exception'])
            print(e['traceback'])
        if not divs and not errs:
            print('model and real code agree on this case now')
        return 1 if (divs or errs) else 0
    print('replay file carries no input; see its no_longer_checks field:', d.get('no_longer_checks'))
    return 0


# ---------------------------------------------------------------------------
# C10: failing-input search on the real code (unscripted, deterministically seeded runs)
# ---------------------------------------------------------------------------

def gen_run_cfg(rng, pt):
    K = rng.randint(3, 6)
    inner = rng.choice(INNER_ALL)
    if 'eigenvector' in inner:
        widths = [2] * K
    else:
        widths = [rng.choice([1, 1, 2]) for _ in range(K)]
    kind = rng.random()
    if kind < 0.4:
        kmin, kmax = 0, K
    elif kind < 0.7:
        kmin, kmax = 1, K - 1
    else:
        kmin = rng.randint(0, K - 2)
        kmax = rng.randint(kmin + 1, K)
    betas = [1.0] if not pt else [1.0] + sorted(rng.sample([0.6, 0.3, 0.1, 0.0], rng.randint(1, 3)), reverse=True)
    # index proposals far wider than the index range (long rejection streaks in the model proposal) and
    # models with blobs (another optional part of the state a swap has to move) are part of the mix
    return TDConfig(K, widths, kmin, kmax, rng.random() < 0.5, rng.choice([0.75, 1.0, 2.0, 3.0, 16.0, 200.0]),
                    rng.choice(BIRTHS), inner, model_prop=rng.choice(MODEL_PROPS),
                    extra=rng.choice([None, 'normal', 'bounded_normal']), betas=betas,
                    swap_interval=rng.choice([1, 1, 2, 3]), window=rng.randint(4, 24),
                    inner_seed=rng.randint(0, 10 ** 6), blobs=rng.random() < 0.5)


def start_pattern(cfg, rng, which):
    """Start patterns: random / everything off that may be off / everything on that may be on."""
    lo, hi = max(cfg.kmin, 0), min(cfg.kmax, cfg.K)
    if which == 'low':
        return cfg.random_point(rng, lo)
    if which == 'high':
        return cfg.random_point(rng, hi)
    return cfg.random_point(rng)


class C10Run:
    """One real run with well-formedness asserted at every observation point."""

    def __init__(self, cfg, seed, mode, ops):
        self.cfg, self.seed, self.mode, self.ops = cfg, seed, mode, ops
        self.problems = []
        self.counts = {'steps': 0, 'level_steps': 0, 'records_checked': 0, 'proposed_checked': 0,
                       'active_checked': 0, 'clears': 0, 'resumes': 0, 'births': 0,
                       'deaths': 0, 'same': 0, 'accepted': 0}
        self.trace = []

    def describe(self):
        return {'cfg': self.cfg.describe(), 'seed': self.seed, 'mode': self.mode, 'ops': self.ops}

    # -- real objects
    def build(self):
        cfg = self.cfg
        model = cfg.model()
        if self.mode == 'chain':
            return Chain(cfg.params, model, cfg.build(), bit_generator=self.seed, beta=cfg.betas[0])
        if self.mode == 'pt':
            return ParallelTemperedChain(cfg.params, model, cfg.build(), betas=cfg.betas,
                                         swap_interval=cfg.swap_interval, bit_generator=self.seed)
        from epsie.samplers import MetropolisHastingsSampler, ParallelTemperedSampler
        if self.mode == 'mhsampler':
            return MetropolisHastingsSampler(cfg.params, model, 2, proposals=cfg.build(), seed=self.seed)
        return ParallelTemperedSampler(cfg.params, model, 2, numpy.array(cfg.betas),
                                       swap_interval=cfg.swap_interval, proposals=cfg.build(), seed=self.seed)

    def chains_of(self, obj):
        """[(tag, Chain)] of every temperature level of every chain."""
        if self.mode == 'chain':
            return [('level0', obj)]
        if self.mode == 'pt':
            return [('level%d' % t, c) for t, c in enumerate(obj.chains)]
        out = []
        for ci, c in enumerate(obj.chains):
            if self.mode == 'mhsampler':
                out.append(('chain%d' % ci, c))
            else:
                out += [('chain%d/level%d' % (ci, t), l) for t, l in enumerate(c.chains)]
        return out

    def set_start(self, obj, rng, which):
        cfg = self.cfg
        if self.mode in ('chain', 'pt'):
            for _, ch in self.chains_of(obj):
                ch.start_position = cfg.point_dict(*start_pattern(cfg, rng, which))
            return
        nchains = 2
        shape = (nchains,) if self.mode == 'mhsampler' else (len(cfg.betas), nchains)
        arrs = {p: numpy.full(shape, numpy.nan) for p in cfg.params}
        arrs['k'] = numpy.zeros(shape, dtype=int)
        for idx in numpy.ndindex(*shape):
            d = cfg.point_dict(*start_pattern(cfg, rng, which))
            for p, v in d.items():
                arrs[p][idx] = v
        obj.start_position = arrs

    def check_all(self, obj, where, records='last'):
        for tag, ch in self.chains_of(obj):
            for msg in wf_chain(self.cfg, ch, tag, check_records=records):
                self.problems.append('%s: %s' % (where, msg))
            self.counts['records_checked'] += (len(ch) if records == 'all' else min(len(ch), 1))
            self.counts['active_checked'] += 1
            self.counts['proposed_checked'] += ch._proposed_position is not None

    def run(self):
        cfg = self.cfg
        rng = random.Random(self.seed)

        def step_hook(ch):
            # inside Chain.step, i.e. before any temperature swap of this iteration
            self.counts['level_steps'] += 1
            for msg in wf_chain(cfg, ch, 'it%d' % ch.iteration):
                self.problems.append('after Chain.step (pre-swap): ' + msg)
            pp = ch._proposed_position
            if pp is not None and len(ch) > 0:
                acc = bool(ch.acceptance['accepted'][-1])
                self.counts['accepted'] += acc
        saved = None
        with seeded_generator(self.seed), hooks(step_hook=step_hook):
            obj = self.build()
            try:
                for op in self.ops:
                    if self.problems:
                        break
                    self.trace.append(op)
                    if op[0] == 'start':
                        self.set_start(obj, rng, op[1])
                        self.check_all(obj, 'after start')
                    elif op[0] == 'run':
                        for _ in range(op[1]):
                            before = [int(ch.current_position['k']) for _, ch in self.chains_of(obj)]
                            if self.mode in ('chain', 'pt'):
                                obj.step()
                            else:
                                obj.run(1)
                            self.counts['steps'] += 1
                            for (tag, ch), kb in zip(self.chains_of(obj), before):
                                kp = int(ch._proposed_position['k'])
                                self.counts['births' if kp > kb else 'deaths' if kp < kb else 'same'] += 1
                            self.check_all(obj, 'after step %d' % self.counts['steps'])
                            if self.problems:
                                break
                        self.check_all(obj, 'all records', records='all')
                    elif op[0] == 'clear':
                        obj.clear()
                        self.counts['clears'] += 1
                        self.check_all(obj, 'after clear')
                    elif op[0] == 'save':
                        saved = pickle.loads(pickle.dumps(obj.state))
                    elif op[0] == 'resume' and saved is not None:
                        if op[1] == 'new':
                            obj = self.build()
                        obj.set_state(pickle.loads(pickle.dumps(saved)))
                        self.counts['resumes'] += 1
                        self.check_all(obj, 'after resume')
            except Exception as ex:                 # the real code raised: reported by the caller
                self.problems.append('the real code raised %r during %r\n%s' % (ex, self.trace[-1], traceback.format_exc(limit=6)))
        return self.problems


def gen_c10_run(rng, n):
    mode = ['chain', 'pt', 'pt', 'mhsampler', 'ptsampler'][n % 5]
    cfg = gen_run_cfg(rng, pt=mode in ('pt', 'ptsampler'))
    ops = [('start', ['random', 'low', 'high'][n % 3])]
    for _ in range(rng.randint(3, 7)):
        r = rng.random()
        if r < 0.5:
            ops.append(('run', rng.randint(1, 40)))
        elif r < 0.65:
            ops.append(('clear',))
        elif r < 0.8:
            ops += [('run', rng.randint(1, 9)), ('save',)]
        else:
            ops.append(('resume', rng.choice(['new', 'same'])))
    ops.append(('run', rng.randint(5, 30)))
    return C10Run(cfg, rng.randint(1, 2 ** 31 - 1), mode, ops)


def problem_key(msg):
    for frag, key in (('index', 'wf-index-count'), ('neither all-NaN', 'wf-partial-nan'),
                      ('outside the model proposal', 'wf-index-bounds'), ('_active_props', 'wf-active-set'),
                      ('proposed _state', 'wf-proposed-state'), ('raised', 'run-raised')):
        if frag in msg:
            return key
    return 'wf-other'


def _c10_one(args):
    seed, n = args
    rng = random.Random(seed * 1000003 + 17 + 7919 * n)
    run = gen_c10_run(rng, n)
    probs = run.run()
    return run.describe(), run.counts, probs


def c10_search(seed, nruns, procs=1):
    """Returns (findings, coverage). findings: [(key, text, payload)].  Every run is generated
    from (seed, run number) alone, so the runs can be spread over processes."""
    findings, agg = [], {}
    fams, modes = {}, {}
    jobs = [(seed, n) for n in range(nruns)]
    if procs > 1 and nruns > 8:
        import multiprocessing
        with multiprocessing.get_context('fork').Pool(procs) as pool:
            results = pool.map(_c10_one, jobs, chunksize=4)
    else:
        results = [_c10_one(j) for j in jobs]
    for desc, counts, probs in results:
        for k, v in counts.items():
            agg[k] = agg.get(k, 0) + v
        fk = desc['cfg']['inner'] + '/' + desc['cfg']['birth']
        fams[fk] = fams.get(fk, 0) + 1
        modes[desc['mode']] = modes.get(desc['mode'], 0) + 1
        if probs:
            key = problem_key(probs[0])
            if not any(k == key for k, _, _ in findings):
                findings.append((key, probs[0][:1200], {'kind_of_input': 'c10-run', 'run': desc,
                                                        'problems': probs[:5],
                                                        'how_to_replay': './check C10 --replay <this file>'}))
    cov = {'runs': nruns, 'counts': agg, 'inner/birth': fams, 'modes': modes,
           'oracle': 'statement of C10 evaluated on every record, proposed_position (with _state) and '
                     '_active_props after every Chain.step (before the sweep), after every sweep, clear and resume'}
    return findings, cov


def probe_unchecked_bounds(seed):
    """What the real code does with index bounds the constructor should not accept
    (kmax > K, kmin < 0): reported, not judged."""
    out = []
    for label, kmin, kmax, istd in (('kmax=K+2', 0, 5, 2.0), ('kmin=-1', -1, 3, 2.0), ('kmax=K+2, wide index proposal', 0, 5, 16.0),
                                    ('kmax=K+1, non-successive', 1, 4, 3.0)):
        cfg = TDConfig(3, [1, 1, 1], kmin, kmax, 'non-successive' not in label, istd, 'uniform', 'normal')
        res = 'ran 400 steps without error'
        with seeded_generator(seed + 5):
            try:
                ch = Chain(cfg.params, cfg.model(), cfg.build(), bit_generator=1)
            except Exception as ex:
                out.append('%s: constructor raised %r' % (label, ex))
                continue
            ch.start_position = cfg.point_dict(1, [[1.0], None, None])
            try:
                for i in range(400):
                    ch.step()
                    bad = wf_chain(cfg, ch, 'it%d' % i)
                    if bad:
                        res = 'ill-formed state at iteration %d: %s' % (i + 1, bad[0])
                        break
            except Exception as ex:
                res = 'constructor accepts it; step %d raised %s: %s' % (ch.iteration + 1, type(ex).__name__, ex)
        out.append('%s (K=3): %s' % (label, res))
    return out


def probe_corner_cases(seed):
    """Inputs outside the hypotheses of C10_reachable_wf: what the real code does (reported, not judged)."""
    out = []
    cfg = TDConfig(3, [1, 1, 1], 0, 3, True, 2.0, 'uniform', 'normal')
    with seeded_generator(seed + 11):
        ch = Chain(cfg.params, cfg.model(), cfg.build(), bit_generator=1)
        ch.start_position = cfg.point_dict(1, [[1.0], None, None])
        for _ in range(5):
            ch.step()
        cur = pattern(cfg, ch.current_position)
        new = [not b for b in cur]
        ch.start_position = cfg.point_dict(sum(new), [[1.0] if b else None for b in new])
        bad = wf_chain(cfg, ch, 'chain')
        res = 'start_position assigned while 5 records are retained: %s' % (bad[0] if bad else 'still well formed')
        try:
            for _ in range(30):
                ch.step()
        except Exception as ex:
            res += '; a later step raised %s: %s' % (type(ex).__name__, str(ex)[:80])
        out.append(res)
    cfg2 = TDConfig(2, [2, 1], 0, 2, True, 2.0, 'normal', 'normal')
    with seeded_generator(seed + 12):
        ch = Chain(cfg2.params, cfg2.model(), cfg2.build(), bit_generator=1)
        d = cfg2.point_dict(1, [[1.0, 2.0], None])
        d['c0_1'] = numpy.nan
        try:
            ch.start_position = d
            res = 'start value with a partly-NaN component: accepted, _active_props=%s' % mask_str(ch._active_props)
            for _ in range(10):
                ch.step()
        except Exception as ex:
            res += '; a step raised %s: %s' % (type(ex).__name__, str(ex).splitlines()[0][:60])
        out.append(res)
    cfg3 = TDConfig(3, [1, 1, 1], 0, 3, True, 2.0, 'uniform', 'normal', betas=[1.0, 0.5])
    with seeded_generator(seed + 13):
        pt = ParallelTemperedChain(cfg3.params, cfg3.model(), cfg3.build(), betas=cfg3.betas, bit_generator=1)
        for c in pt.chains:
            c.start_position = cfg3.point_dict(1, [[1.0], None, None])
        for _ in range(30):
            pt.step()
        stale = ['_state' in c._start for c in pt.chains]
        try:
            pt.start_position
            res = 'no error'
        except Exception as ex:
            res = 'raises %s: %s' % (type(ex).__name__, ex)
        out.append("after an accepted first step Chain._start keeps a stale '_state' entry (levels: %s); "
                   'ParallelTemperedChain.start_position then %s' % (stale, res))
    return out


def replay_c10(payload):
    run = payload['run']
    r = C10Run(TDConfig.from_description(run['cfg']), run['seed'], run['mode'], [tuple(o) for o in run['ops']])
    probs = r.run()
    for p in probs[:5]:
        print('C10 PROBLEM:', p)
    if not probs:
        print('the run is well formed everywhere now (%s)' % r.counts)
    return 1 if probs else 0


# ---------------------------------------------------------------------------
# C11: pairwise exact detailed balance on the real code
# ---------------------------------------------------------------------------

def _phi_diff(a, b):
    """Phi(b) - Phi(a) for a <= b, without cancellation in the upper tail."""
    if a >= 0:
        return special.ndtr(-a) - special.ndtr(-b)
    return special.ndtr(b) - special.ndtr(a)


class IndexLaw:
    """The law of the REAL `model_proposal.jump` from k, by push-forward of its own code:
    the map (first normal draw z) -> (accepted k' | rejected) is evaluated on a grid of N
    quantile midpoints, a uniform grid of step 1/16 and two far points, checked to be a monotone step function on the
    grid (every outcome occupies one contiguous run), and each step location is then found
    by bisection on the real code down to adjacent floats.  The probabilities are normal
    cdf differences at those thresholds (scale = the `scale` argument observed at the draw
    site), normalised by the accepted mass (law of a rejection loop).

    Error bound: thresholds are exact to 1 ulp and ndtr to a few ulp, so the pmf is accurate
    to ~1e-13 relative for cells of mass >= 1e-6 *given* the step structure; a deviation from
    that structure confined strictly between two adjacent grid points could hide mass <= 1/N.
    """

    N = 512

    def __init__(self, cfg):
        self.cfg = cfg
        self.cache = {}
        self.evals = 0

    def _outcome(self, mp, k, z):
        script = Script()
        script.register(mp, ('i',))
        # after z: a draw of 0.0 ("stay": accepted when successive jumps are allowed), then one unit
        # step each way (one of them is inside the bounds); whichever the code accepts, a SECOND
        # request means that the first draw z was rejected (or, for z == 0.0 without successive
        # jumps, redrawn: not an outcome of its own, it has probability zero)
        if z == 0.0:
            z = 5e-324      # a draw of exactly zero has probability zero; evaluate its right limit
        script.push(('i',), z, 0.0, 0.75, -0.75, 1.75, -1.75)
        with patched_generator(lambda owner: ScriptedGen(script, owner)):
            try:
                out = mp.jump({'k': k})
            except ScriptError:
                out = None
        self.evals += 1
        used = len(script.log)
        self.scale = script.log[0][2][1]
        if used >= 2 or out is None:
            return 'rej-' if z < 0 else 'rej+'
        return int(out['k'])

    def pmf(self, k):
        if k in self.cache:
            return self.cache[k]
        cfg = self.cfg
        mp = td_of_props(cfg.build()).model_proposal
        self._outcome(mp, k, 0.25)
        sigma = float(self.scale)
        span = (cfg.kmax - cfg.kmin) + 2.5
        qs = [sigma * special.ndtri((i + 0.5) / self.N) for i in range(self.N)]
        # every cell of the index jump is one unit of z wide: a uniform grid of step 1/16 meets
        # each of them (also those in the tails that fall between two quantile midpoints)
        us = [-span + i / 16.0 for i in range(int(2 * span * 16) + 1)]
        zs = sorted(set([-span] + [z for z in qs + us if -span < z < span] + [span]))
        outs = [self._outcome(mp, k, z) for z in zs]
        if outs[0] != 'rej-' or outs[-1] != 'rej+':
            raise ScriptError('index jump accepted a draw beyond the bounds: %r %r' % (outs[0], outs[-1]))
        # contiguity
        seen, runs = set(), []
        for z, o in zip(zs, outs):
            if runs and runs[-1][0] == o:
                runs[-1][2] = z
            else:
                if o in seen:
                    raise ScriptError('index jump is not a monotone step function of its draw: outcome %r recurs' % (o,))
                seen.add(o)
                runs.append([o, z, z])
        # bisection between adjacent runs
        cuts = []
        for (o1, _, zl), (o2, zr, _) in zip(runs[:-1], runs[1:]):
            lo, hi = zl, zr
            while True:
                mid = 0.5 * (lo + hi)
                if mid <= lo or mid >= hi:
                    break
                o = self._outcome(mp, k, mid)
                if o == o1:
                    lo = mid
                elif o == o2:
                    hi = mid
                else:
                    raise ScriptError('index jump is not a monotone step function of its draw (outcome %r between %r and %r)' % (o, o1, o2))
            cuts.append(0.5 * (lo + hi) if hi - lo > 0 else lo)
        mass = {}
        edges = [-numpy.inf] + cuts + [numpy.inf]
        for (o, _, _), a, b in zip(runs, edges[:-1], edges[1:]):
            mass[o] = _phi_diff(a / sigma, b / sigma)
        tot = sum(m for o, m in mass.items() if not isinstance(o, str))
        pmf = {o: m / tot for o, m in mass.items() if not isinstance(o, str)}
        self.cache[k] = pmf
        return pmf


def td_of_props(props):
    for p in props:
        if getattr(p, 'transdimensional', False):
            return p
    raise ValueError


def draw_logdensity(method, args, value, bounds=None):
    """Log-density of ONE scripted draw under the distribution that the real code asked
    numpy for (`method`, `args` observed at the draw site).  `bounds`: for the per-parameter
    rejection loop of bounded in-model proposals, the box, giving a truncated normal."""
    if method == 'uniform':
        lo, hi = args
        return -math.log(hi - lo) if lo <= value <= hi else -math.inf
    if method == 'normal':
        mu, sd = args
        lp = -0.5 * ((value - mu) / sd) ** 2 - math.log(sd) - 0.5 * math.log(2 * math.pi)
        if bounds is not None:
            lo, hi = bounds
            lp -= math.log(_phi_diff((lo - mu) / sd, (hi - mu) / sd))
        return lp
    if method == 'lognormal':
        mu, sd = args
        if value <= 0:
            return -math.inf
        return -0.5 * ((math.log(value) - mu) / sd) ** 2 - math.log(sd * value) - 0.5 * math.log(2 * math.pi)
    raise ScriptError('no closed-form law for draw method %r' % method)


C11_INNER = ('normal', 'bounded_normal', 'ss_adaptive_bounded_normal', 'adaptive_normal')


def scripted_move(cfg, beta, x, plan):
    """One real `Chain.step` from the point x = (k, comps) with every draw scripted by `plan`.
    Returns dict(ar, accepted, proposed (k, comps), logq_true_parts, f values...)."""
    script = Script()
    with patched_generator(lambda owner: ScriptedGen(script, owner)):
        model = cfg.model()
        ch = Chain(cfg.params, model, cfg.build(), bit_generator=3, beta=beta)
        td = td_of(ch)
        script.register(ch.proposal_dist, ('U',))
        script.register(td, ('choice',))
        script.register(td.model_proposal, ('index',))
        for i, prop in enumerate(td.proposals):
            script.register(prop, ('move', i))
            script.register(prop.birth_distribution, ('birth', i))
        for prop in ch.proposal_dist.proposals:
            if prop is not td:
                script.register(prop, ('extra',))
        ch.start_position = cfg.point_dict(x[0], x[1])
        stats0 = dict(ch.current_stats)
        script.push(('index',), plan['z'])
        if plan['chosen']:
            script.push(('choice',), list(plan['chosen']))
        for i, v in plan['births'].items():
            script.push(('birth', int(i)), *v)
        for i, v in plan['moves'].items():
            script.push(('move', int(i)), *v)
        script.push(('extra',), 0.25)                    # the extra parameter stays where it is
        script.push(('U',), plan.get('u', 0.5))
        ch.step()
        td_bounds = {}
        for i, prop in enumerate(td.proposals):
            if hasattr(prop, '_lowerbnd'):
                td_bounds[i] = [(float(a), float(b)) for a, b in zip(prop._lowerbnd, prop._upperbnd)]
    pp = ch._proposed_position
    # true log-density of the births and in-model draws, from the draw sites
    lq = 0.0
    per = {}
    for role, method, args, v in script.log:
        if role[0] == 'birth':
            lq += draw_logdensity(method, args, v)
        elif role[0] == 'move':
            i = role[1]
            j = per.get(i, 0)
            per[i] = j + 1
            if numpy.ndim(args[0]) > 0:            # one vector draw: independent normals
                mu, sd = args[0][j], args[1][j]
                lq += draw_logdensity('normal', (mu, sd), v)
            else:
                lq += draw_logdensity(method, args, v, bounds=td_bounds.get(i, [None])[j] if i in td_bounds else None)
    new = model(**{p: v for p, v in pp.items() if p != '_state'})
    return {'ar': float(ch.acceptance['acceptance_ratio'][-1]), 'accepted': bool(ch.acceptance['accepted'][-1]),
            'proposed': cfg.split(pp), 'proposed_canon': cfg.canon_point(pp),
            'state': [bool(b) for b in pp['_state']],
            'logq_cont': lq, 'stats0': (float(stats0['logl']), float(stats0['logp'])),
            'new': (float(new[0]), float(new[1])), 'log': [(r, m, a, v) for r, m, a, v in script.log]}


def c11_pair(cfg, beta, x, plan, law):
    """Forward move x -> x' and reverse move x' -> x on the real code; returns None when the
    pair balances, else a description.  Also returns a small record for the coverage."""
    K = cfg.K
    kx, cx = x
    fwd = scripted_move(cfg, beta, x, plan)
    ky, cy = fwd['proposed']
    dk = ky - kx
    ax = [c is not None for c in cx]
    ay = [c is not None for c in cy]
    rec = {'dk': dk, 'ar_fwd': fwd['ar']}
    if fwd['new'][1] == -math.inf:
        # outside the prior: f(x') = 0; the only requirement is a(x, x') = 0
        rec['forced'] = True
        if fwd['ar'] != 0.0 or fwd['accepted']:
            return 'proposal outside the prior accepted with probability %r' % fwd['ar'], rec
        return None, rec
    if dk < 0 and cfg.birth == 'uniform' and getattr(cfg, 'birth_box', None):
        lo_b, hi_b = cfg.birth_box
        dead = [i for i in range(K) if ax[i] and not ay[i]]
        if any(not (lo_b <= v <= hi_b) for i in dead for v in cx[i]):
            # no birth can produce x from x': q(x|x') = 0, so the move must have probability 0
            rec['reverse_impossible'] = True
            if fwd['ar'] != 0.0:       # (the scripted uniform may be exactly 0.0, which the code's `u <= ar` accepts)
                return ('the death of a component whose value lies outside the support of its birth distribution '
                        '(q(x|x\') = 0) was accepted with probability %r' % fwd['ar']), rec
            return None, rec
    # reverse plan: undo everything
    rplan = {'z': index_z(cfg, -dk, random.Random(1)) if (cfg.successive or dk) else 0.0,
             'chosen': list(plan['chosen']),
             'births': {str(i): cx[i] for i in range(K) if ax[i] and not ay[i]},
             'moves': {str(i): cx[i] for i in range(K) if ax[i] and ay[i]}, 'u': 0.5}
    rev = scripted_move(cfg, beta, (ky, cy), rplan)
    if rev['proposed_canon'] != cfg.canon_point(cfg.point_dict(kx, cx)):
        raise ScriptError('reverse move did not return to x: %s vs %s' % (rev['proposed_canon'], cfg.canon_point(cfg.point_dict(kx, cx))))
    nx, ny = sum(ax), sum(ay)
    ways_f = math.comb(K - nx if dk > 0 else nx, abs(dk)) if dk else 1
    ways_r = math.comb(K - ny if dk < 0 else ny, abs(dk)) if dk else 1
    p_f = law.pmf(kx).get(ky, 0.0)
    p_r = law.pmf(ky).get(kx, 0.0)
    if p_f <= 0 or p_r <= 0:
        raise ScriptError('scripted index move has no mass under the push-forward law')
    lq_f = math.log(p_f) - math.log(ways_f) + fwd['logq_cont']
    lq_r = math.log(p_r) - math.log(ways_r) + rev['logq_cont']
    lf_x = fwd['stats0'][1] + beta * fwd['stats0'][0]
    lf_y = fwd['new'][1] + beta * fwd['new'][0]
    lhs = lf_x - math.log(math.comb(K, nx)) + lq_f + (math.log(fwd['ar']) if fwd['ar'] > 0 else -math.inf)
    rhs = lf_y - math.log(math.comb(K, ny)) + lq_r + (math.log(rev['ar']) if rev['ar'] > 0 else -math.inf)
    rec.update({'ar_rev': rev['ar'], 'lhs': lhs, 'rhs': rhs})
    # tolerance: every term is O(1..50) in double precision (abs. error < 1e-12); the index pmf
    # carries <= 1e-12 relative error; 1e-9 leaves three orders of margin
    if not (abs(lhs - rhs) <= 1e-9 * max(1.0, abs(lhs))):
        return ('detailed balance for f/C fails: log[(f/C)(x) q(x\'|x) a(x,x\')] = %.12g but '
                'log[(f/C)(x\') q(x|x\') a(x\',x)] = %.12g (difference %.3g); a(x,x\') = %.12g, a(x\',x) = %.12g, '
                'q_index = %.6g / %.6g, ways = %d / %d' % (lhs, rhs, lhs - rhs, fwd['ar'], rev['ar'], p_f, p_r, ways_f, ways_r)), rec
    # the acceptance itself, against the property's formula
    want = min(1.0, math.exp(min(50.0, (lf_y - lf_x) + (math.log(math.comb(K, nx)) - math.log(math.comb(K, ny))) + lq_r - lq_f)))
    if abs(fwd['ar'] - want) > 1e-9 * max(want, 1e-300):
        return 'acceptance %.12g differs from min(1, f(x\')C(x)q(x|x\')/(f(x)C(x\')q(x\'|x))) = %.12g' % (fwd['ar'], want), rec
    return None, rec


def gen_c11_cfg(rng, n):
    K = rng.randint(2, 5)
    widths = [rng.choice([1, 1, 2]) for _ in range(K)]
    kmin = rng.choice([0, 0, 1]) if K > 2 else 0
    kmax = rng.choice([K, K, K - 1]) if K - 1 > kmin else K
    return TDConfig(K, widths, kmin, kmax, [True, False][n % 2], rng.choice([0.75, 1.0, 2.0]),
                    BIRTHS[n % 3], C11_INNER[(n // 3) % len(C11_INNER)],
                    extra=[None, 'normal'][(n // 2) % 2], inner_seed=rng.randint(0, 10 ** 6),
                    birth_box=(1.0, 3.0) if (BIRTHS[n % 3] == 'uniform' and n % 2 == 0) else None)


def c11_search(seed, ncfg, pairs_per_cfg):
    rng = random.Random(seed * 7919 + 3)
    findings = []
    cov = {'configs': 0, 'pairs': 0, 'births': 0, 'deaths': 0, 'same': 0, 'multi': 0, 'forced_reject': 0,
           'ar_one_fwd': 0, 'ar_one_rev': 0, 'index_law_evals': 0, 'betas': {}, 'birth': {}, 'inner': {},
           'successive': {True: 0, False: 0}}
    samples = []
    for n in range(ncfg):
        cfg = gen_c11_cfg(rng, n)
        law = IndexLaw(cfg)
        cov['configs'] += 1
        for m in range(pairs_per_cfg):
            beta = [0.0, 0.5, 1.0][(n + m) % 3]
            k, comps = cfg.random_point(rng)
            active = [c is not None for c in comps]
            want = [None, k, None][m % 3] if cfg.successive else None
            plan = plan_step(cfg, rng, k, active, want=want, std=cfg.index_std)
            plan['rejects'] = []
            try:
                bad, rec = c11_pair(cfg, beta, (k, comps), plan, law)
            except ScriptError as ex:
                # the script did not fit what the real code asked for.  A change of the code under test does that
                # every time; a scripting failure that does not repeat on the same input with fresh objects is
                # the harness's (seen once, in a fresh sandbox only, never reproduced: DESIGN 11.4b) and is
                # counted, not reported
                first = str(ex)
                try:
                    law = IndexLaw(cfg)
                    bad, rec = c11_pair(cfg, beta, (k, comps), plan, law)
                    cov['script_failures_not_repeated'] = cov.get('script_failures_not_repeated', 0) + 1
                    cov.setdefault('script_failures_not_repeated_texts', []).append(first[:200])
                except ScriptError as ex2:
                    bad, rec = 'push-forward / scripting failed: %s' % ex2, {'dk': plan['newk'] - k}
            except Exception as ex:                      # the real step raised
                bad, rec = 'the real code raised %r on a scripted move' % (ex,), {'dk': plan['newk'] - k}
            cov['pairs'] += 1
            dk = rec.get('dk', 0)
            cov['births' if dk > 0 else 'deaths' if dk < 0 else 'same'] += 1
            cov['multi'] += abs(dk) > 1
            cov['forced_reject'] += bool(rec.get('forced'))
            cov['ar_one_fwd'] += rec.get('ar_fwd') == 1.0
            cov['ar_one_rev'] += rec.get('ar_rev') == 1.0
            for name, val in (('betas', str(beta)), ('birth', cfg.birth), ('inner', cfg.inner)):
                cov[name][val] = cov[name].get(val, 0) + 1
            cov['successive'][bool(cfg.successive)] += 1
            if len(samples) < 4 and 'lhs' in rec:
                samples.append({'cfg': cfg.describe(), 'beta': beta, 'x': cfg.canon_point(cfg.point_dict(k, comps)),
                                'plan': plan, 'result': rec})
            if bad:
                key = 'c11-balance-succ%d-%s' % (int(cfg.successive), 'birth' if dk > 0 else 'death' if dk < 0 else 'same')
                if 'outside the prior' in bad:
                    key = 'c11-forced-reject'
                if 'push-forward' in bad:
                    key = 'c11-index-law'
                if 'the real code raised' in bad:
                    key = 'c11-step-raised'
                if not any(kk == key for kk, _, _ in findings):
                    findings.append((key, bad[:1200], {
                        'kind_of_input': 'c11-pair', 'cfg': cfg.describe(), 'beta': beta, 'x': [k, comps],
                        'plan': plan, 'observed': rec, 'how_to_replay': './check C11 --replay <this file>'}))
        cov['index_law_evals'] += law.evals
    cov['successive'] = {str(k): v for k, v in cov['successive'].items()}
    return findings, cov, samples


def replay_c11(payload):
    cfg = TDConfig.from_description(payload['cfg'])
    x = (payload['x'][0], payload['x'][1])
    bad, rec = c11_pair(cfg, payload['beta'], x, payload['plan'], IndexLaw(cfg))
    print('C11 pair:', rec)
    if bad:
        print('C11 PROBLEM:', bad)
    else:
        print('the pair balances now')
    return 1 if bad else 0


def symmetric_flags_ok():
    """Generated-table style fact used by C11_acceptance: every exported bounded discrete
    class has `symmetric = False` (so the Hastings term is never skipped)."""
    bad = []
    for name in dir(P):
        obj = getattr(P, name)
        if isinstance(obj, type) and issubclass(obj, P.BoundedDiscrete) and bool(obj.symmetric):
            bad.append(name)
    return bad
